#!/usr/bin/env python3
"""Call every contract module's native_witness(ctx) once on the current tree: each must run without an exception and must not
confirm anything on the unchanged tree (the fallback of vc/check.py relies on them when a contract no longer fits a changed
source; a witness that crashes would turn a detectable change into exit 2).  usage: python3-vt tools/check_witnesses.py [Cxx ...]"""
import importlib, json, os, sys, time, traceback

sys.path.insert(0, os.path.dirname(os.path.dirname(os.path.abspath(__file__))))
from vc import core  # noqa: E402

ids = sys.argv[1:] or sorted(f[:-3] for f in os.listdir(os.path.join(os.path.dirname(__file__), '..', 'contracts')) if f.startswith('C') and f.endswith('.py') and f[1:3].isdigit() and len(f) == 6)
bad = 0
for pid in ids:
    mod = importlib.import_module('contracts.' + pid)
    ws = getattr(mod, 'native_witness', None)
    if ws is None:
        print(pid, 'no native_witness')
        continue
    t0 = time.time()
    try:
        r = ws(core.Ctx(pid, 'quick', 0))
        ok = isinstance(r, dict) and not r.get('confirmed') and not r.get('harness_error')
        print(pid, 'ok' if ok else 'PROBLEM', '%.1fs' % (time.time() - t0), '' if ok else json.dumps(r, default=str)[:400])
        bad += 0 if ok else 1
    except Exception:  # pylint: disable=broad-except
        bad += 1
        print(pid, 'EXCEPTION', traceback.format_exc()[-600:])
sys.exit(1 if bad else 0)
