"""Hand-written corner cases for tools/engine_selftest.py.

Every case is a function `f` over small ints (default parameters a, b).  PLAIN cases have no stub calls; PROBE cases call the stub
`probe(x)` somewhere and are run once per probe model ('count', 'assume', 'fork'): the ghost counter of the model must equal
the number of native calls, assumptions must not leak to paths without the call, the forked exception only where it is called.
"""
import textwrap

INTS2 = [(0, 0), (1, -1), (-2, 3), (3, 2), (-1, -3), (5, 0)]
INTS1 = [(0,), (1,), (-1,), (3,), (-5,), (7,)]
OPT2 = [(None, 1), (2, 0), (None, 0), (0, 3), (-1, -1), (4, None), (None, None)]

_PLAIN = []
_PROBE = []


def P(name, tags, src, **kw):
    _PLAIN.append(dict(name=name, tags=tags.split(), src=textwrap.dedent(src).strip() + '\n', **kw))


def Q(name, tags, src, **kw):
    _PROBE.append(dict(name=name, tags=tags.split(), src=textwrap.dedent(src).strip() + '\n', **kw))


# ---------------------------------------------------------------------------------------------
# plain semantics

P('floordiv-neg', 'floordiv', '''
def f(a, b):
    return (a // 3, a // -3, a % 3, a % -3, (-a) // 2, -a // 2)
''')
P('floordiv-sym', 'floordiv', '''
def f(a, b):
    if b == 0:
        return -99
    return (a // b, a % b)
''')
P('floordiv-zero', 'floordiv exception', '''
def f(a, b):
    return a // b
''')
P('mod-zero-caught', 'floordiv try', '''
def f(a, b):
    try:
        return a % b
    except ZeroDivisionError:
        return 77
''')
P('divmod-neg', 'divmod', '''
def f(a, b):
    q, r = divmod(a, 3)
    return q * 10 + r
''')
P('divmod-negdiv', 'divmod', '''
def f(a, b):
    q, r = divmod(a, -3)
    return (q, r)
''')
P('divmod-sym', 'divmod', '''
def f(a, b):
    if b == 0:
        return None
    return divmod(a, b)
''')
P('divmod-zero', 'divmod exception', '''
def f(a, b):
    return divmod(a, b)[0]
''')
P('pow', 'pow', '''
def f(a, b):
    return (a ** 2, 2 ** 3, (-2) ** 3)
''')
P('pow-neg-exp', 'pow', '''
def f(a, b):
    if b < 0:
        return 0
    return 2 ** b
''')
P('shift', 'shift', '''
def f(a, b):
    if b < 0:
        return -1
    return (a << b, a >> b, a >> 1, -7 >> 1)
''')
P('shift-neg-count', 'shift exception', '''
def f(a, b):
    return a << b
''')
P('bitops', 'bitops', '''
def f(a, b):
    return (5 & 3, 5 | 3, 5 ^ 3, ~5)
''')
P('bool-arith', 'bool', '''
def f(a, b):
    t = a > 0
    return t + t + (b > 0) * 10
''')
P('bool-int-eq', 'bool', '''
def f(a, b):
    return (True == 1, (a > 0) == 1, (a > 0) == (b > 0), True + 1, -True, int(a > 0), bool(a), bool(b) + 1)
''')
P('neg-bool', 'bool unary', '''
def f(a, b):
    t = a > 0
    return -t
''')
P('not-int', 'bool unary', '''
def f(a, b):
    return (not a, not b, not (a and b), not None, not (), not (0,), not 'x', not '')
''')
P('or-value', 'boolop-value', '''
def f(a, b):
    return a or b
''')
P('and-value', 'boolop-value', '''
def f(a, b):
    return a and b
''')
P('or-value-arith', 'boolop-value', '''
def f(a, b):
    return (a or 5) + 1
''')
P('and-value-arith', 'boolop-value', '''
def f(a, b):
    return (a and 5) * 2 + (b or 7)
''')
P('or-default-none', 'boolop-value none', '''
def f(a, b):
    x = None
    y = x or a
    return y
''')
P('or-chain-value', 'boolop-value', '''
def f(a, b):
    return a or b or 9
''')
P('and-or-mixed-value', 'boolop-value', '''
def f(a, b):
    return a and b or -1
''')
P('or-value-cond', 'boolop-value', '''
def f(a, b):
    if (a or b) == 3:
        return 1
    return 0
''')
P('or-tuple-value', 'boolop-value tuple', '''
def f(a, b):
    t = () or (a, b)
    return t[0]
''')
P('or-str-value', 'boolop-value str', '''
def f(a, b):
    s = '' or 'dflt'
    return s
''')
P('bool-of-boolop', 'boolop', '''
def f(a, b):
    return bool(a and b), bool(a or b)
''')
P('chained-cmp', 'chained-compare', '''
def f(a, b):
    return (0 <= a < 3, a < b < 5, a == b == 2, 0 < a <= b, a != b != 0, 1 < 2 > 1)
''')
P('chained-cmp-shortcircuit-div', 'chained-compare floordiv', '''
def f(a, b):
    return 0 < b < 10 // b
''')
P('chained-cmp-shortcircuit-idx', 'chained-compare subscript', '''
def f(a, b):
    t = (1, 2, 3)
    return 0 > a < t[5]
''')
P('chained-in', 'chained-compare in', '''
def f(a, b):
    return a in (1, 2, 3) in (True,)
''')
P('and-guard-div', 'boolop floordiv', '''
def f(a, b):
    return b != 0 and a // b > 0
''')
P('or-guard-div', 'boolop floordiv', '''
def f(a, b):
    return b == 0 or a % b == 0
''')
P('and-guard-const-div', 'boolop floordiv', '''
def f(a, b):
    return a > 100 and 1 // 0 > 0
''')
P('and-guard-index', 'boolop subscript', '''
def f(a, b):
    t = (1, 2)
    return a > 100 and t[7] > 0
''')
P('ifexp-guard-index', 'ifexp subscript', '''
def f(a, b):
    t = (1, 2)
    return t[7] if a > 100 else 0
''')
P('ifexp-guard-div', 'ifexp floordiv', '''
def f(a, b):
    return a // b if b else 0
''')
P('ifexp-guard-constdiv', 'ifexp floordiv', '''
def f(a, b):
    return 1 // 0 if a > 100 else 5
''')
P('ifexp-nested', 'ifexp', '''
def f(a, b):
    return (1 if a > 0 else 2) if b > 0 else (3 if a > 0 else 4)
''')
P('ifexp-mixed-types', 'ifexp none', '''
def f(a, b):
    x = a if a > 0 else None
    return x is None
''')
P('ifexp-tuple', 'ifexp tuple', '''
def f(a, b):
    x = (a, b) if a > b else (b, a)
    return x[0] - x[1]
''')
P('ifexp-bool-int', 'ifexp bool', '''
def f(a, b):
    x = True if a > 0 else 0
    return x + 1
''')
P('ifexp-str', 'ifexp str', '''
def f(a, b):
    return 'pos' if a > 0 else 'nonpos'
''')
P('is-none', 'none', '''
def f(a, b):
    return (a is None, b is not None, None is None, a is None or b is None)
''', inputs=[(None, 1), (2, None), (None, None), (0, 0)])
P('none-default', 'none ifexp', '''
def f(a, b):
    if a is None:
        a = 10
    return a + (0 if b is None else b)
''', inputs=[(None, 1), (2, None), (None, None), (0, 0)])
P('none-eq', 'none', '''
def f(a, b):
    return (a == None, a != None, None == b)
''', inputs=[(None, 1), (2, None), (0, 0)])
P('none-truthy', 'none', '''
def f(a, b):
    if a:
        return 1
    return 2
''', inputs=[(None, 1), (2, None), (0, 0)])
P('none-arith-typeerror', 'none exception', '''
def f(a, b):
    return a + 1
''', inputs=[(None, 1), (2, None)])
P('none-compare-typeerror', 'none exception', '''
def f(a, b):
    return a < 1
''', inputs=[(None, 1), (2, None)])
P('in-tuple', 'in', '''
def f(a, b):
    return (a in (1, 2, 3), b not in (0, a), a in (), None in (a, None), a in (True, False))
''')
P('in-dict', 'in dict', '''
def f(a, b):
    d = {'x': a, 'y': b}
    return ('x' in d, 'z' in d, 'z' not in d, d['x'] + d['y'], len(d))
''')
P('in-list', 'in list', '''
def f(a, b):
    return (a in [1, 2, 3], b in [a, b])
''')
P('in-range', 'in range', '''
def f(a, b):
    return a in range(3)
''')
P('dict-int-keys', 'dict', '''
def f(a, b):
    d = {1: a, 2: b}
    return d[1] - d[2]
''')
P('dict-missing-key', 'dict exception', '''
def f(a, b):
    d = {'x': a}
    return d['y']
''')
P('dict-missing-key-caught', 'dict try', '''
def f(a, b):
    d = {'x': a}
    try:
        return d['y']
    except KeyError:
        return -1
''')
P('dict-get', 'dict', '''
def f(a, b):
    d = {'x': a}
    return (d.get('x'), d.get('y'), d.get('y', b))
''')
P('dict-store', 'dict', '''
def f(a, b):
    d = {'x': a}
    d['y'] = b
    d['x'] = d['x'] + 1
    return (d['x'], d['y'], len(d))
''')
P('dict-duplicate-key', 'dict', '''
def f(a, b):
    d = {'x': a, 'x': b}
    return d['x']
''')
P('dict-alias', 'dict alias', '''
def f(a, b):
    d = {'x': a}
    e = d
    e['x'] = b
    return d['x']
''')
P('dict-del', 'dict del', '''
def f(a, b):
    d = {'x': a, 'y': b}
    del d['x']
    return 'x' in d
''')
P('list-alias', 'list alias', '''
def f(a, b):
    x = [a]
    y = x
    y.append(b)
    return len(x)
''')
P('list-alias-store', 'list alias', '''
def f(a, b):
    x = [a, b]
    y = x
    y[0] = 100
    return x[0]
''')
P('list-basic', 'list', '''
def f(a, b):
    x = [a, b, 3]
    x.append(4)
    x[1] = x[0] + 1
    return (len(x), x[1], x[-1], x[3])
''')
P('list-index-error', 'list exception', '''
def f(a, b):
    x = [a, b]
    return x[2]
''')
P('list-neg-index', 'list', '''
def f(a, b):
    x = [a, b, 7]
    return (x[-1], x[-3])
''')
P('list-neg-index-error', 'list exception', '''
def f(a, b):
    x = [a, b]
    return x[-3]
''')
P('list-sym-index', 'list exception', '''
def f(a, b):
    x = [10, 20, 30]
    return x[a]
''')
P('list-pop', 'list', '''
def f(a, b):
    x = [a, b, 7]
    y = x.pop()
    z = x.pop(0)
    return (y, z, len(x), x[0])
''')
P('list-pop-empty', 'list exception', '''
def f(a, b):
    x = [a]
    x.pop()
    x.pop()
    return 1
''')
P('list-concat', 'list', '''
def f(a, b):
    x = [a] + [b, 1]
    return (len(x), x[1])
''')
P('list-slice', 'list slice', '''
def f(a, b):
    x = [a, b, 1, 2]
    y = x[1:3]
    z = x[-2:]
    w = x[:a]
    return (len(y), y[0], z[1], len(w))
''')
P('list-store-neg', 'list', '''
def f(a, b):
    x = [a, b, 7]
    x[-3] = 100
    x[-1] += 1
    return (x[0], x[2])
''')
P('list-store-out-of-range', 'list exception', '''
def f(a, b):
    x = [a, b]
    x[2] = 1
    return x[0]
''')
P('list-store-empty', 'list exception', '''
def f(a, b):
    x = []
    x[0] = 1
    return 0
''')
P('list-store-sym-index', 'list', '''
def f(a, b):
    x = [10, 20, 30]
    if -3 <= a < 3:
        x[a] = 99
    return (x[0], x[1], x[2])
''')
P('in-mixed-bool-int', 'in bool', '''
def f(a, b):
    return ((a > 0) in (1, 0), a in (True, b > 0), (a > 0) in ((b > 0), 2))
''')
P('const-div-zero', 'floordiv exception', '''
def f(a, b):
    x = 0
    return 5 // x
''')
P('list-eq', 'list', '''
def f(a, b):
    return ([a, b] == [b, a], [a] == [a], [] == [], [a] != [a, a])
''')
P('list-mixed-literal', 'list', '''
def f(a, b):
    x = [a, None, 'k']
    return (len(x), x[1] is None)
''')
P('list-mult', 'list', '''
def f(a, b):
    x = [a] * 3
    return len(x)
''')
P('list-truthy', 'list', '''
def f(a, b):
    x = []
    if a > 0:
        x.append(a)
    return 1 if x else 0
''')
P('list-extend-clear', 'list', '''
def f(a, b):
    x = [a]
    x.extend([b, b])
    n = len(x)
    x.clear()
    return (n, len(x))
''')
P('list-insert', 'list', '''
def f(a, b):
    x = [a]
    x.insert(0, b)
    return x[0]
''')
P('list-return', 'list', '''
def f(a, b):
    return [a, b, a + b]
''')
P('list-empty-return', 'list', '''
def f(a, b):
    return []
''')
P('tuple-basic', 'tuple', '''
def f(a, b):
    t = (a, b, 3)
    return (t[0], t[-1], len(t), t + (1,), t[1:], t == (a, b, 3), (a, b) < (b, a))
''')
P('tuple-index-error', 'tuple exception', '''
def f(a, b):
    t = (a, b)
    return t[2]
''')
P('tuple-sym-index', 'tuple', '''
def f(a, b):
    t = (10, 20, 30)
    return t[a % 3]
''')
P('tuple-unpack', 'unpack', '''
def f(a, b):
    x, y = a, b
    x, y = y, x
    (p, q), r = (x, y), 3
    return (x, y, p, q, r)
''')
P('tuple-unpack-arity', 'unpack exception', '''
def f(a, b):
    x, y = (a, b, 3)
    return x
''')
P('tuple-unpack-star', 'unpack starred', '''
def f(a, b):
    x, *y = (a, b, 3)
    return (x, len(y))
''')
P('unpack-order', 'unpack', '''
def f(a, b):
    x = [0, 0]
    i = 0
    i, x[i] = 1, 5
    return (x[0], x[1])
''')
P('multi-target', 'assign', '''
def f(a, b):
    x = y = a + 1
    x += 1
    return (x, y)
''')
P('augassign-all', 'augassign', '''
def f(a, b):
    x = a
    x += b
    x -= 1
    x *= 2
    x //= 3
    x %= 5
    return x
''')
P('augassign-subscript', 'augassign list', '''
def f(a, b):
    x = [a, b]
    x[0] += 5
    x[1] *= 2
    return (x[0], x[1])
''')
P('augassign-dict', 'augassign dict', '''
def f(a, b):
    d = {'k': a}
    d['k'] += b
    return d['k']
''')
P('augassign-list-extend', 'augassign list', '''
def f(a, b):
    x = [a]
    x += [b]
    return len(x)
''')
P('augassign-tuple', 'augassign tuple', '''
def f(a, b):
    t = (a,)
    t += (b,)
    return t
''')
P('augassign-undefined', 'augassign exception', '''
def f(a, b):
    x += 1
    return x
''')
P('walrus', 'walrus', '''
def f(a, b):
    if (n := a + b) > 2:
        return n
    return -n
''')
P('walrus-in-boolop', 'walrus boolop', '''
def f(a, b):
    n = -100
    if a > 0 and (n := b) > 0:
        return n + 1000
    return n
''')
P('walrus-in-ifexp', 'walrus ifexp', '''
def f(a, b):
    n = -100
    r = (n := a) if b > 0 else 0
    return (r, n)
''')
P('walrus-in-comprehension-cond', 'walrus chained-compare', '''
def f(a, b):
    n = -100
    r = 0 < a < (n := b)
    return (r, n)
''')
P('minmaxabs', 'builtins', '''
def f(a, b):
    return (min(a, b), max(a, b, 0), abs(a), abs(-b), min((a, b)), max([a, b, 1]), min(a, b, key=abs))
''')
P('min-empty', 'builtins exception', '''
def f(a, b):
    return min(())
''')
P('max-default', 'builtins', '''
def f(a, b):
    return max((), default=a)
''')
P('min-bool', 'builtins bool', '''
def f(a, b):
    return min(a > 0, b > 0) + 1
''')
P('len-str', 'builtins str', '''
def f(a, b):
    return len('abc') + len(())
''')
P('int-bool-conv', 'builtins', '''
def f(a, b):
    return (int(a), int(a > b), bool(a), bool(0), bool(None), bool(()), bool((0,)), int(True), int('12'), int())
''')
P('sum-tuple', 'builtins', '''
def f(a, b):
    return sum((a, b, 1))
''')
P('sorted-tuple', 'builtins', '''
def f(a, b):
    return sorted((a, b))[0]
''')
P('range-len', 'builtins range', '''
def f(a, b):
    return len(range(a))
''')
P('isinstance-int', 'builtins', '''
def f(a, b):
    return isinstance(a, int)
''')
P('str-ops', 'str', '''
def f(a, b):
    s = 'ab' + 'cd'
    return (s, s == 'abcd', 'b' in s, s[0], len(s), s * 2)
''')
P('str-eq-sym', 'str', '''
def f(a, b):
    s = 'x' if a > 0 else 'y'
    return s == 'x'
''')
P('str-method', 'str', '''
def f(a, b):
    return 'abc'.upper()
''')
P('fstring-plain', 'fstring', '''
def f(a, b):
    s = f'{a}-{b}'
    return 1
''')
P('fstring-raises', 'fstring exception', '''
def f(a, b):
    s = f'{1 // b}'
    return 1
''')
P('fstring-value', 'fstring str', '''
def f(a, b):
    return f'v{a}'
''')
P('if-elif-else', 'if', '''
def f(a, b):
    if a > 2:
        r = 1
    elif a > 0:
        r = 2
    elif b > 0:
        r = 3
    else:
        r = 4
    return r
''')
P('if-truthy-int', 'if', '''
def f(a, b):
    if a:
        return 1
    if not b:
        return 2
    return 3
''')
P('if-truthy-tuple-str', 'if', '''
def f(a, b):
    r = 0
    if ():
        r += 1
    if (0,):
        r += 10
    if '':
        r += 100
    if 'a':
        r += 1000
    if []:
        r += 10000
    if {}:
        r += 100000
    return r
''')
P('unbound-local', 'unbound exception', '''
def f(a, b):
    if a > 0:
        x = 1
    return x
''')
P('unbound-after-del', 'unbound del exception', '''
def f(a, b):
    x = a
    del x
    return x
''')
P('unbound-except-var', 'unbound try exception', '''
def f(a, b):
    e = 5
    try:
        raise ValueError
    except ValueError as e:
        pass
    return e
''')
P('unbound-truthy', 'unbound exception', '''
def f(a, b):
    if a > 100:
        x = 1
    if x:
        return 1
    return 0
''')
P('global-name-undefined', 'unbound exception', '''
def f(a, b):
    return undefined_name + 1
''')
P('module-const', 'const', '''
K = 7
T = (1, 2, 3)
def f(a, b):
    return K + T[1] + a
''')
P('module-const-shadow', 'const', '''
K = 7
def f(a, b):
    K = a
    return K
''')
P('module-const-shadow-unbound', 'const unbound exception', '''
K = 7
def f(a, b):
    if a > 100:
        K = a
    return K
''')
P('module-const-reassigned', 'const', '''
K = 7
K = 8
def f(a, b):
    return K
''')
P('module-const-later', 'const', '''
def f(a, b):
    return K
K = 9
''')
P('module-const-conditional', 'const', '''
K = 7
if K > 100:
    K = 1
def f(a, b):
    return K
''')
P('param-default', 'default-arg', '''
def f(a, b=5):
    return a + b
''')
P('return-none', 'return none', '''
def f(a, b):
    if a > 0:
        return
    x = 1
''')
P('return-in-try-finally', 'try finally return', '''
def f(a, b):
    x = 0
    try:
        return a
    finally:
        x = 1
''')
P('return-overridden-by-finally', 'try finally return', '''
def f(a, b):
    try:
        return a
    finally:
        return b
''')
P('return-value-evaluated-before-finally', 'try finally return', '''
def f(a, b):
    x = [a]
    try:
        return x[0]
    finally:
        x[0] = 99
''')
P('return-local-before-finally', 'try finally return', '''
def f(a, b):
    x = a
    try:
        return x
    finally:
        x = 99
''')
P('finally-swallows-exception', 'try finally return exception', '''
def f(a, b):
    try:
        raise ValueError
    finally:
        return 5
''')
P('finally-raises-over-return', 'try finally exception', '''
def f(a, b):
    try:
        return a
    finally:
        if b > 0:
            raise KeyError
''')
P('finally-raises-over-exception', 'try finally exception', '''
def f(a, b):
    try:
        raise ValueError
    finally:
        if b > 0:
            raise KeyError
''')
P('try-except-else-finally', 'try finally', '''
def f(a, b):
    r = 0
    try:
        if a > 0:
            raise ValueError
        r += 1
    except ValueError:
        r += 10
    else:
        r += 100
    finally:
        r += 1000
    return r
''')
P('try-else-raises-not-caught', 'try exception', '''
def f(a, b):
    try:
        x = 1
    except KeyError:
        return 1
    else:
        if a > 0:
            raise KeyError
    return 2
''')
P('try-handler-raises', 'try exception', '''
def f(a, b):
    try:
        raise ValueError
    except ValueError:
        if a > 0:
            raise KeyError
        return 3
    except KeyError:
        return 4
''')
P('try-handler-order', 'try', '''
def f(a, b):
    try:
        if a > 0:
            raise KeyError
        raise IndexError
    except LookupError:
        return 1
    except KeyError:
        return 2
''')
P('try-hierarchy', 'try', '''
def f(a, b):
    r = 0
    try:
        1 // 0
    except ArithmeticError:
        r += 1
    try:
        raise UnicodeDecodeError
    except ValueError:
        r += 10
    except TypeError:
        r += 100
    try:
        raise FileNotFoundError
    except OSError:
        r += 1000
    return r
''')
P('try-tuple-handler', 'try', '''
def f(a, b):
    try:
        if a > 0:
            raise KeyError
        elif b > 0:
            raise TypeError
        raise ValueError
    except (KeyError, ValueError):
        return 1
    except TypeError:
        return 2
''')
P('try-bare-except', 'try', '''
def f(a, b):
    try:
        raise KeyboardInterrupt
    except Exception:
        return 1
    except:
        return 2
''')
P('try-baseexception-not-exception', 'try exception', '''
def f(a, b):
    try:
        raise SystemExit
    except Exception:
        return 1
''')
P('try-reraise', 'try exception', '''
def f(a, b):
    try:
        raise ValueError
    except ValueError:
        if a > 0:
            raise
        return 0
''')
P('try-raise-from', 'try exception', '''
def f(a, b):
    try:
        raise ValueError
    except ValueError as e:
        raise KeyError from e
''')
P('try-nested-finally', 'try finally', '''
def f(a, b):
    r = 0
    try:
        try:
            if a > 0:
                raise ValueError
            r += 1
        finally:
            r += 10
    except ValueError:
        r += 100
    return r
''')
P('try-return-in-except-finally', 'try finally return', '''
def f(a, b):
    r = [0]
    try:
        raise ValueError
    except ValueError:
        return 1
    finally:
        r[0] = 5
''')
P('try-exception-instance-args', 'try exception', '''
def f(a, b):
    try:
        raise ValueError(a, b)
    except ValueError as e:
        return e.args[0]
''')
P('try-exception-class-vs-instance', 'try', '''
def f(a, b):
    try:
        raise ValueError()
    except ValueError:
        return 1
''')
P('raise-non-exception', 'exception', '''
def f(a, b):
    raise 5
''')
P('raise-var', 'try exception', '''
def f(a, b):
    e = KeyError('k')
    if a > 0:
        raise e
    return 0
''')
P('raise-conditional-class', 'exception ifexp', '''
def f(a, b):
    raise (KeyError if a > 0 else ValueError)
''')
P('assert-pass-fail', 'assert exception', '''
def f(a, b):
    assert a > 0
    return 1
''')
P('assert-msg-raises', 'assert exception', '''
def f(a, b):
    assert a > 0, 1 // b
    return 1
''')
P('assert-caught', 'assert try', '''
def f(a, b):
    try:
        assert a > 0, 'neg'
    except AssertionError:
        return -1
    return 1
''')
P('exception-in-condition', 'if exception', '''
def f(a, b):
    if 1 // b > 0:
        return 1
    return 0
''')
P('exception-order-binop', 'exception order', '''
def f(a, b):
    t = (1, 2)
    return t[5] + 1 // 0
''')
P('exception-order-binop2', 'exception order', '''
def f(a, b):
    t = (1, 2)
    return 1 // 0 + t[5]
''')
P('exception-in-tuple-display', 'exception tuple', '''
def f(a, b):
    try:
        x = (a, 1 // b)
    except ZeroDivisionError:
        return -1
    return x[1]
''')
P('exception-assignment-partial', 'exception unpack', '''
def f(a, b):
    x = 0
    y = 0
    try:
        x, y = a, 1 // b
    except ZeroDivisionError:
        pass
    return (x, y)
''')
P('nested-def', 'nested-def', '''
def f(a, b):
    def g(x, y=2):
        if x > 0:
            return x + y
        return -1
    return g(a) + g(b, 3) + g(y=5, x=1)
''')
P('nested-def-closure', 'nested-def closure', '''
def f(a, b):
    k = a
    def g(x):
        return x + k
    k = b
    return g(1)
''')
P('nested-def-default-early', 'nested-def default-arg', '''
def f(a, b):
    k = a
    def g(x=k):
        return x
    k = b
    return g()
''')
P('nested-def-local-shadow', 'nested-def closure', '''
def f(a, b):
    x = a
    def g():
        x = 100
        return x
    r = g()
    return (r, x)
''')
P('nested-def-nonlocal', 'nested-def nonlocal', '''
def f(a, b):
    x = a
    def g():
        nonlocal x
        x = x + 1
        return x
    g()
    g()
    return x
''')
P('nested-def-unboundlocal', 'nested-def unbound exception', '''
def f(a, b):
    x = a
    def g():
        y = x
        x = 1
        return y
    return g()
''')
P('nested-def-mutates-list', 'nested-def list', '''
def f(a, b):
    x = [a]
    def g(v):
        x.append(v)
    g(b)
    g(b)
    return len(x)
''')
P('nested-def-param-list-mutation', 'nested-def list alias', '''
def f(a, b):
    x = [a]
    def g(lst):
        lst.append(1)
    g(x)
    return len(x)
''')
P('nested-def-raises', 'nested-def try', '''
def f(a, b):
    def g(x):
        if x < 0:
            raise ValueError
        return x
    try:
        return g(a) + g(b)
    except ValueError:
        return -1
''')
P('nested-def-recursion', 'nested-def recursion', '''
def f(a, b):
    def fact(n):
        if n <= 1:
            return 1
        return n * fact(n - 1)
    return fact(3)
''')
P('nested-def-no-return', 'nested-def none', '''
def f(a, b):
    def g(x):
        if x > 0:
            return x
    return g(a) is None
''')
P('nested-def-missing-arg', 'nested-def exception', '''
def f(a, b):
    def g(x, y):
        return x
    return g(a)
''')
P('nested-def-too-many-args', 'nested-def exception', '''
def f(a, b):
    def g(x):
        return x
    return g(a, b)
''')
P('nested-def-kwonly', 'nested-def', '''
def f(a, b):
    def g(x, *, y=1):
        return x + y
    return g(a, y=b)
''')
P('nested-def-varargs', 'nested-def starred', '''
def f(a, b):
    def g(*xs):
        return len(xs)
    return g(a, b)
''')
P('nested-def-star-call', 'nested-def starred', '''
def f(a, b):
    def g(x, y):
        return x - y
    t = (a, b)
    return g(*t)
''')
P('nested-def-redefined', 'nested-def', '''
def f(a, b):
    def g():
        return 1
    def g():
        return 2
    return g()
''')
P('nested-def-conditional', 'nested-def', '''
def f(a, b):
    if a > 0:
        def g():
            return 1
    else:
        def g():
            return 2
    return g()
''')
P('nested-def-decorated', 'nested-def decorator', '''
def f(a, b):
    def twice(h):
        def w(x):
            return h(h(x))
        return w
    @twice
    def g(x):
        return x + 1
    return g(a)
''')
P('nested-def-as-value', 'nested-def', '''
def f(a, b):
    def g(x):
        return x + 1
    h = g
    return h(a)
''')
P('nested-def-generator', 'nested-def yield', '''
def f(a, b):
    def g():
        yield a
        yield b
    return sum(g())
''')
P('lambda-basic', 'lambda', '''
def f(a, b):
    g = lambda x, y=1: x * 2 + y
    return g(a) + g(b, 0)
''')
P('lambda-closure-late', 'lambda closure', '''
def f(a, b):
    k = a
    g = lambda x: x + k
    k = b
    return g(0)
''')
P('lambda-immediate', 'lambda', '''
def f(a, b):
    return (lambda x: x + 1)(a)
''')
P('lambda-kw', 'lambda', '''
def f(a, b):
    g = lambda x, y: x - y
    return g(y=a, x=b)
''')
P('lambda-default-missing', 'lambda', '''
def f(a, b):
    g = lambda x, y=7: x + y
    return g(a)
''')
P('lambda-ifexp', 'lambda ifexp', '''
def f(a, b):
    g = lambda x: x if x > 0 else -x
    return g(a) + g(b)
''')
P('lambda-raises', 'lambda exception', '''
def f(a, b):
    g = lambda x: 1 // x
    return g(b)
''')
P('listcomp-basic', 'comprehension', '''
def f(a, b):
    x = [v + 1 for v in [a, b, 3]]
    return (len(x), x[0], x[2])
''')
P('listcomp-filter', 'comprehension', '''
def f(a, b):
    x = [v for v in [a, b, 3] if v > 0]
    return len(x)
''')
P('listcomp-tuple-iter', 'comprehension', '''
def f(a, b):
    x = [v * 2 for v in (a, b)]
    return x[1]
''')
P('listcomp-range', 'comprehension range', '''
def f(a, b):
    x = [i * i for i in range(4)]
    return x[3]
''')
P('listcomp-scope', 'comprehension', '''
def f(a, b):
    v = 100
    x = [v for v in [a, b]]
    return v
''')
P('listcomp-raises', 'comprehension exception', '''
def f(a, b):
    x = [1 // v for v in [a, b]]
    return len(x)
''')
P('listcomp-nested', 'comprehension', '''
def f(a, b):
    x = [u + v for u in [a, b] for v in [1, 2]]
    return len(x)
''')
P('genexp-sum', 'comprehension builtins', '''
def f(a, b):
    return sum(v for v in (a, b) if v > 0)
''')
P('genexp-any-all', 'comprehension builtins', '''
def f(a, b):
    return (any(v > 0 for v in [a, b]), all(v > 0 for v in [a, b]), any(v > 0 for v in ()), all([]))
''')
P('genexp-tuple', 'comprehension', '''
def f(a, b):
    t = tuple(v for v in (a, None, b) if v is not None)
    return len(t)
''')
P('genexp-max-filter', 'comprehension builtins', '''
def f(a, b):
    return max(c for c in [a, b] if c is not None)
''', inputs=[(None, 1), (2, 5), (3, None)])
P('dictcomp', 'comprehension dict', '''
def f(a, b):
    d = {k: a for k in ('x', 'y')}
    return d['x']
''')
P('setcomp', 'comprehension set', '''
def f(a, b):
    s = {v for v in [a, b]}
    return len(s)
''')
P('set-display', 'set', '''
def f(a, b):
    return (a in {1, 2, 3}, len({1, 1, 2}))
''')
P('del-var', 'del', '''
def f(a, b):
    x = a
    del x
    x = b
    return x
''')
P('del-undefined', 'del exception', '''
def f(a, b):
    if a > 100:
        x = 1
    del x
    return 0
''')
P('global-stmt', 'global', '''
G = 5
def f(a, b):
    global G
    G = a
    return G
''')
P('star-expr-in-tuple', 'starred tuple', '''
def f(a, b):
    t = (a, b)
    u = (*t, 3)
    return len(u)
''')
P('star-expr-in-list', 'starred list', '''
def f(a, b):
    t = [a, b]
    u = [*t, 3]
    return (len(u), u[2])
''')
P('ann-assign', 'assign', '''
def f(a, b):
    x: int = a
    y: int
    return x
''')
P('pass-ellipsis-docstring', 'misc', '''
def f(a, b):
    """doc"""
    pass
    ...
    return a
''')
P('unary-plus-invert', 'unary', '''
def f(a, b):
    return (+a, ~a, -(-a))
''')
P('big-ints', 'int', '''
def f(a, b):
    return a * 10 ** 20 + b
''')
P('compare-is-ints', 'is', '''
def f(a, b):
    x = a
    return x is a
''')
P('compare-tuple-eq-len', 'tuple', '''
def f(a, b):
    return ((a, b) == (a,), (a, b) != (a, b, 1), () == ())
''')
P('compare-mixed-none-tuple', 'none tuple', '''
def f(a, b):
    t = (a, None)
    return (t[1] is None, t == (a, None), None in t)
''')
P('match-stmt', 'match', '''
def f(a, b):
    match a:
        case 0:
            return 10
        case _:
            return 20
''')
P('with-cm', 'with', '''
def f(a, b):
    with cm(a) as v:
        r = v + 1
    return r
''')
P('with-cm-return', 'with return', '''
def f(a, b):
    with cm(a) as v:
        if v > 0:
            return v
    return -1
''')
P('with-cm-raises', 'with try exception', '''
def f(a, b):
    try:
        with cm(a) as v:
            raise ValueError
    except ValueError:
        return v
''')
P('with-multi', 'with', '''
def f(a, b):
    with cm(a) as v, cm(b) as w:
        return v + w
''')
P('async-def', 'async', '''
async def g(a):
    return a
def f(a, b):
    return 1
''')

# loops (with invariants)
P('while-count', 'while loop', '''
def f(a, b):
    i = 0
    s = 0
    while i < 4:
        s += 2
        i += 1
    return s
''', loops={0: dict(invariants=[('i', '0 <= i <= 4 and s == 2 * i')])})
P('while-break', 'while break loop', '''
def f(a, b):
    i = 0
    while i < 10:
        if i == a:
            break
        i += 1
    return i
''', loops={0: dict(invariants=[('i', '0 <= i <= 10 and (a < 0 or i <= a)')])})
P('while-else', 'while loop-else break', '''
def f(a, b):
    i = 0
    r = 0
    while i < 3:
        if i == a:
            r = 1
            break
        i += 1
    else:
        r = 2
    return r
''', loops={0: dict(invariants=[('i', '0 <= i <= 3 and r == 0 and (a < 0 or i <= a)')])})
P('while-continue', 'while continue loop', '''
def f(a, b):
    i = 0
    s = 0
    while i < 5:
        i += 1
        if i == 2:
            continue
        s += 1
    return s
''', loops={0: dict(invariants=[('i', '0 <= i <= 5 and s == (i if i < 2 else i - 1)')])})
P('while-false', 'while loop', '''
def f(a, b):
    i = 0
    while i < 0:
        i += 1
    return i
''', loops={0: dict(invariants=[('i', 'i == 0')])})
P('while-return-inside', 'while return loop', '''
def f(a, b):
    i = 0
    while i < 5:
        if i == 3:
            return 100
        i += 1
    return i
''', loops={0: dict(invariants=[('i', '0 <= i <= 3')])})
P('while-try-finally-break', 'while try finally break loop', '''
def f(a, b):
    i = 0
    c = 0
    while i < 5:
        try:
            if i == 2:
                break
        finally:
            c += 1
        i += 1
    return (i, c)
''', loops={0: dict(invariants=[('i', '0 <= i <= 2 and c == i')])})
P('while-try-finally-continue', 'while try finally continue loop', '''
def f(a, b):
    i = 0
    c = 0
    while i < 4:
        i += 1
        try:
            if i == 2:
                continue
            c += 10
        finally:
            c += 1
    return c
''', loops={0: dict(invariants=[('i', '0 <= i <= 4 and c == 11 * i - (10 if i >= 2 else 0)')])})
P('for-range', 'for range loop', '''
def f(a, b):
    s = 0
    for i in range(4):
        s += i
    return (s, i)
''', loops={0: dict(index='k', invariants=[('s', '2 * s == k * (k - 1)'), ('i', 'k == 0 or i == k - 1')])}, types={'i': 'int'})
P('for-range-empty-unbound', 'for range loop unbound exception', '''
def f(a, b):
    for i in range(0):
        pass
    return i
''', loops={0: dict(index='k', invariants=[('k', 'k == 0')])}, types={'i': 'int'})
P('for-range-else-break', 'for range loop-else break', '''
def f(a, b):
    r = 0
    for i in range(3):
        if i == a:
            break
    else:
        r = 5
    return r
''', loops={0: dict(index='k', invariants=[('r', 'r == 0 and (a < 0 or k <= a)')])})
P('for-range-start-stop', 'for range loop', '''
def f(a, b):
    s = 0
    for i in range(2, 5):
        s += i
    return s
''', loops={0: dict(index='k', invariants=[('s', '2 * s == (k + 2) * (k + 1) - 2')])})
P('for-range-step', 'for range loop', '''
def f(a, b):
    s = 0
    for i in range(0, 6, 2):
        s += 1
    return s
''', loops={0: dict(index='k', invariants=[('s', 's == k')])})
P('for-range-neg', 'for range loop', '''
def f(a, b):
    s = 0
    for i in range(-2):
        s += 1
    return s
''', loops={0: dict(index='k', invariants=[('s', 's == k')])})
P('for-list', 'for list loop', '''
def f(a, b):
    s = 0
    for x in [a, b, 3]:
        s += 1
    return s
''', loops={0: dict(index='k', invariants=[('s', 's == k')])})
P('for-tuple', 'for tuple loop', '''
def f(a, b):
    s = 0
    for x in (a, b, 3):
        s += x
    return s
''', loops={0: dict(index='k', invariants=[('s', 's >= 0 or s < 0')])})
P('for-no-spec', 'for loop', '''
def f(a, b):
    s = 0
    for x in (1, 2):
        s += x
    return s
''')
P('for-mutating-iterable', 'for list loop', '''
def f(a, b):
    x = [1, 2, 3]
    n = 0
    for v in x:
        n += 1
        if n < 3:
            x.pop()
    return n
''', loops={0: dict(index='k', invariants=[('n', 'n == k')])}, types={'x': 'List[int]'})
P('for-loop-var-after', 'for range loop', '''
def f(a, b):
    i = 100
    for i in range(3):
        pass
    return i
''', loops={0: dict(index='k', invariants=[('i', '(k == 0 and i == 100) or i == k - 1')])})
P('for-enumerate', 'for enumerate loop', '''
def f(a, b):
    s = 0
    for j, v in enumerate([a, b]):
        s += j
    return s
''', loops={0: dict(index='k', invariants=[('s', '2 * s == k * (k - 1)')])})
P('while-true-break', 'while break loop', '''
def f(a, b):
    i = 0
    while True:
        i += 1
        if i >= 3:
            break
    return i
''', loops={0: dict(invariants=[('i', '0 <= i <= 2')])})
P('nested-loops-break-inner', 'while for break loop', '''
def f(a, b):
    c = 0
    i = 0
    while i < 2:
        for j in range(3):
            if j == 1:
                break
            c += 1
        i += 1
    return c
''', loops={0: dict(invariants=[('c', '0 <= i <= 2 and c == i')]), 1: dict(index='k', invariants=[('c2', '0 <= k <= 1 and c == i + k and i < 2')])}, types={'j': 'int'})

# ---------------------------------------------------------------------------------------------
# stub calls: placements

Q('stmt', 'call stmt', '''
def f(a, b):
    probe(a)
    return b
''')
Q('assign', 'call assign', '''
def f(a, b):
    x = probe(a)
    return x + b
''')
Q('two-in-expr', 'call binop', '''
def f(a, b):
    return probe(a) + probe(b)
''')
Q('two-in-expr-mixed', 'call binop ifexp', '''
def f(a, b):
    return probe(a) + (probe(b) if b > 1 else 0)
''')
Q('two-in-expr-mixed2', 'call binop ifexp', '''
def f(a, b):
    return (probe(b) if b > 1 else 0) + probe(a)
''')
Q('same-twice', 'call binop', '''
def f(a, b):
    x = probe(a) * 2 + probe(a)
    return x
''')
Q('ifexp-then', 'call ifexp', '''
def f(a, b):
    return probe(a) if b > 0 else 0
''')
Q('ifexp-else', 'call ifexp', '''
def f(a, b):
    return 0 if b > 0 else probe(a)
''')
Q('ifexp-test', 'call ifexp', '''
def f(a, b):
    return 1 if probe(a) > 0 else 2
''')
Q('ifexp-both', 'call ifexp', '''
def f(a, b):
    return probe(a) if b > 0 else probe(b)
''')
Q('ifexp-test-and-branch', 'call ifexp', '''
def f(a, b):
    return probe(b) if probe(a) > 0 else 7
''')
Q('ifexp-nested', 'call ifexp', '''
def f(a, b):
    return (probe(a) if a > 0 else 1) if b > 0 else (2 if a > 0 else probe(b))
''')
Q('ifexp-in-condition', 'call ifexp if', '''
def f(a, b):
    if (probe(a) if b > 0 else 0) > 0:
        return 1
    return 2
''')
Q('ifexp-none-arg', 'call ifexp none', '''
def f(a, b):
    return 0 if a is None else probe(a)
''', inputs=[(None, 1), (2, 0), (-1, 3), (3, 3)])
Q('ifexp-twice-lambda', 'call ifexp lambda', '''
def f(a, b):
    g = lambda x: probe(x) if x > 0 else 0
    return g(a) + g(b)
''')
Q('and-second', 'call boolop', '''
def f(a, b):
    return b > 0 and probe(a) > 0
''')
Q('or-second', 'call boolop', '''
def f(a, b):
    return b > 0 or probe(a) > 0
''')
Q('and-first', 'call boolop', '''
def f(a, b):
    return probe(a) > 0 and b > 0
''')
Q('and-three', 'call boolop', '''
def f(a, b):
    return a > 0 and b > 0 and probe(a + b) > 2
''')
Q('and-both', 'call boolop', '''
def f(a, b):
    return probe(a) > 0 and probe(b) > 0
''')
Q('or-both', 'call boolop', '''
def f(a, b):
    return probe(a) > 0 or probe(b) > 0
''')
Q('and-or-nested', 'call boolop', '''
def f(a, b):
    return (a > 0 and probe(a) > 1) or (b > 0 and probe(b) > 1)
''')
Q('or-value', 'call boolop-value', '''
def f(a, b):
    return b or probe(a)
''')
Q('and-value', 'call boolop-value', '''
def f(a, b):
    return b and probe(a)
''')
Q('and-in-if', 'call boolop if', '''
def f(a, b):
    if b > 0 and probe(a) > 0:
        return 1
    return 0
''')
Q('and-in-while-test', 'call boolop while loop', '''
def f(a, b):
    i = 0
    while i < 2 and probe(1) > 0:
        i += 1
    return i
''', loops={0: dict(invariants=[('i', '0 <= i <= 2 and ncalls == i')], modifies=['ncalls'])})
Q('not-call', 'call unary', '''
def f(a, b):
    return not probe(a)
''')
Q('none-guard-and', 'call boolop none', '''
def f(a, b):
    return a is not None and probe(a) > 0
''', inputs=[(None, 1), (2, 0), (-1, 3), (3, 3)])
Q('listcomp-elt', 'call comprehension', '''
def f(a, b):
    x = [probe(v) for v in [a, b]]
    return len(x)
''')
Q('listcomp-elt-tuple-iter', 'call comprehension', '''
def f(a, b):
    x = [probe(v) for v in (a, b, 1)]
    return x[2]
''')
Q('listcomp-filter', 'call comprehension', '''
def f(a, b):
    x = [v for v in [a, b] if probe(v) > 0]
    return len(x)
''')
Q('listcomp-iter', 'call comprehension', '''
def f(a, b):
    x = [v for v in [probe(a), b]]
    return len(x)
''')
Q('listcomp-empty', 'call comprehension', '''
def f(a, b):
    x = [probe(v) for v in []]
    return len(x)
''')
Q('genexp-any', 'call comprehension builtins', '''
def f(a, b):
    return any(probe(v) > 0 for v in [a, b])
''')
Q('genexp-all', 'call comprehension builtins', '''
def f(a, b):
    return all(probe(v) > 0 for v in (a, b))
''')
Q('genexp-tuple-filter', 'call comprehension', '''
def f(a, b):
    t = tuple(probe(v) for v in (a, b) if v > 0)
    return len(t)
''')
Q('genexp-unconsumed', 'call comprehension', '''
def f(a, b):
    g = (probe(v) for v in (a, b))
    return 0
''')
Q('setcomp-elt', 'call comprehension set', '''
def f(a, b):
    s = {probe(v) for v in [a, b]}
    return 0
''')
Q('dictcomp-elt', 'call comprehension dict', '''
def f(a, b):
    d = {k: probe(a) for k in ('x', 'y')}
    return 0
''')
Q('default-arg-def', 'call default-arg nested-def', '''
def f(a, b):
    def g(x=probe(a)):
        return x
    return b
''')
Q('default-arg-def-called-twice', 'call default-arg nested-def', '''
def f(a, b):
    def g(x=probe(a)):
        return x
    return g() + g()
''')
Q('default-arg-def-overridden', 'call default-arg nested-def', '''
def f(a, b):
    def g(x=probe(a)):
        return x
    return g(b)
''')
Q('default-arg-lambda', 'call default-arg lambda', '''
def f(a, b):
    g = lambda x=probe(a): x
    return g() + g() + g(1)
''')
Q('chained-first', 'call chained-compare', '''
def f(a, b):
    return probe(a) < b < 5
''')
Q('chained-middle', 'call chained-compare', '''
def f(a, b):
    return 0 < probe(a) < b
''')
Q('chained-last', 'call chained-compare', '''
def f(a, b):
    return 0 < b < probe(a)
''')
Q('chained-last-three', 'call chained-compare', '''
def f(a, b):
    return 0 < a < b < probe(3)
''')
Q('subscript-index', 'call subscript', '''
def f(a, b):
    t = (5, 6, 7)
    return t[probe(1)]
''')
Q('subscript-index-list', 'call subscript list', '''
def f(a, b):
    x = [5, 6, 7]
    return x[probe(1)] + x[probe(2)]
''')
Q('subscript-value', 'call subscript', '''
def f(a, b):
    return (probe(a), b)[0]
''')
Q('subscript-store-index', 'call subscript list', '''
def f(a, b):
    x = [5, 6, 7]
    x[probe(1)] = a
    return x[1]
''')
Q('subscript-store-value', 'call subscript list', '''
def f(a, b):
    x = [5, 6, 7]
    x[1] = probe(a)
    return x[1]
''')
Q('subscript-dict-key', 'call subscript dict', '''
def f(a, b):
    d = {'k': a}
    d['k'] = probe(b)
    return d['k']
''')
Q('slice-bound', 'call subscript slice', '''
def f(a, b):
    x = [5, 6, 7]
    return len(x[probe(1):])
''')
Q('fstring', 'call fstring', '''
def f(a, b):
    s = f'{probe(a)}'
    return b
''')
Q('fstring-two', 'call fstring', '''
def f(a, b):
    s = f'x{probe(a)}y{probe(b)}'
    return 0
''')
Q('fstring-strings-mode', 'call fstring', '''
def f(a, b):
    s = f'{probe(a)}'
    return b
''', strings=True)
Q('fstring-format-spec', 'call fstring', '''
def f(a, b):
    s = f'{a:{probe(3)}}'
    return b
''')
Q('lambda-body-called', 'call lambda', '''
def f(a, b):
    g = lambda x: probe(x) + 1
    return g(a) + g(b)
''')
Q('lambda-body-uncalled', 'call lambda', '''
def f(a, b):
    g = lambda x: probe(x) + 1
    return b
''')
Q('lambda-conditional-call', 'call lambda if', '''
def f(a, b):
    g = lambda x: probe(x) + 1
    if b > 0:
        return g(a)
    return 0
''')
Q('nested-def-body', 'call nested-def', '''
def f(a, b):
    def g(x):
        y = probe(x)
        return y + 1
    return g(a) + g(b)
''')
Q('nested-def-body-uncalled', 'call nested-def', '''
def f(a, b):
    def g(x):
        return probe(x)
    return b
''')
Q('nested-def-branching', 'call nested-def if', '''
def f(a, b):
    def g(x):
        if x > 0:
            return probe(x)
        return 0
    return g(a) + g(b)
''')
Q('nested-def-in-boolop', 'call nested-def boolop', '''
def f(a, b):
    def g(x):
        if x > 1:
            return probe(x)
        return 0
    return b > 0 and g(a) > 0
''')
Q('nested-def-arg', 'call nested-def', '''
def f(a, b):
    def g(x):
        return x + 1
    return g(probe(a))
''')
Q('finally-block', 'call try finally', '''
def f(a, b):
    try:
        return a
    finally:
        probe(b)
''')
Q('finally-after-raise', 'call try finally exception', '''
def f(a, b):
    try:
        if a > 0:
            raise KeyError
        return 1
    finally:
        probe(b)
''')
Q('try-body-and-handler', 'call try', '''
def f(a, b):
    try:
        x = probe(a)
        if x > 1:
            raise KeyError
    except KeyError:
        return probe(b)
    return 0
''')
Q('try-catches-probe-error', 'call try', '''
def f(a, b):
    try:
        x = probe(a)
    except ValueError:
        return -100
    return x
''')
Q('try-else', 'call try', '''
def f(a, b):
    try:
        x = a
    except ValueError:
        return -1
    else:
        x = probe(b)
    return x
''')
Q('loop-else', 'call for loop-else loop', '''
def f(a, b):
    for i in range(3):
        if i == a:
            break
    else:
        probe(b)
    return 0
''', loops={0: dict(index='k', invariants=[('n', 'ncalls == 0 and (a < 0 or k <= a)')], modifies=['ncalls'])})
Q('loop-body', 'call for loop', '''
def f(a, b):
    for i in range(3):
        probe(1)
    return 0
''', loops={0: dict(index='k', invariants=[('n', 'ncalls == k')], modifies=['ncalls'])})
Q('while-test', 'call while loop', '''
def f(a, b):
    i = 0
    while probe(i + 1) < 4:
        i += 1
    return i
''', loops={0: dict(invariants=[('n', 'ncalls == i and 0 <= i <= 3')], modifies=['ncalls'])})
Q('for-iter', 'call for loop', '''
def f(a, b):
    s = 0
    for i in range(probe(2)):
        s += 1
    return s
''', loops={0: dict(index='k', invariants=[('n', 's == k')])})
Q('with-item', 'call with', '''
def f(a, b):
    with cm(probe(a)) as v:
        r = v + b
    return r
''')
Q('with-body', 'call with', '''
def f(a, b):
    with cm(a) as v:
        r = probe(v)
    return r
''')
Q('decorator', 'call decorator nested-def', '''
def f(a, b):
    def deco(k):
        def w(h):
            return h
        return w
    @deco(probe(a))
    def g():
        return 1
    return g()
''')
Q('kwarg-nested-def', 'call kwarg nested-def', '''
def f(a, b):
    def g(x, y=0):
        return x - y
    return g(b, y=probe(a))
''')
Q('kwarg-order', 'call kwarg nested-def', '''
def f(a, b):
    def g(x, y=0):
        return x - y
    return g(y=probe(a), x=probe(b))
''')
Q('kwarg-builtin', 'call kwarg builtins', '''
def f(a, b):
    return max((), default=probe(a))
''')
Q('kwarg-builtin-print', 'call kwarg builtins', '''
def f(a, b):
    print(end=str(probe(a))[:0])
    return b
''')
Q('kwarg-lambda', 'call kwarg lambda', '''
def f(a, b):
    g = lambda x, y=0: x - y
    return g(b, y=probe(a))
''')
Q('builtin-arg', 'call builtins', '''
def f(a, b):
    return max(probe(a), b) + abs(probe(b)) + len((probe(1),))
''')
Q('starred-arg-nested-def', 'call starred nested-def', '''
def f(a, b):
    def g(x, y):
        return x - y
    return g(*(probe(a), b))
''')
Q('starred-arg-builtin', 'call starred builtins', '''
def f(a, b):
    return max(*(probe(a), b))
''')
Q('starred-arg-probe', 'call starred', '''
def f(a, b):
    t = (a, b)
    return probe(*t)
''')
Q('starred-in-display', 'call starred tuple', '''
def f(a, b):
    t = (*(probe(a), b), 1)
    return len(t)
''')
Q('augassign-target-index', 'call augassign subscript', '''
def f(a, b):
    x = [5, 6, 7]
    x[probe(1)] += a
    return x[1]
''')
Q('augassign-value', 'call augassign', '''
def f(a, b):
    x = b
    x += probe(a)
    return x
''')
Q('augassign-dict-target', 'call augassign dict', '''
def f(a, b):
    d = {'k': 1}
    t = ('k',)
    d[t[probe(0)]] += a
    return d['k']
''')
Q('raise-arg', 'call exception', '''
def f(a, b):
    raise ValueError(probe(a))
''')
Q('raise-arg-caught', 'call exception try', '''
def f(a, b):
    try:
        raise KeyError(probe(a))
    except KeyError:
        return b
''')
Q('raise-from', 'call exception', '''
def f(a, b):
    raise KeyError from ValueError(probe(a))
''')
Q('assert-test', 'call assert', '''
def f(a, b):
    assert probe(a) > 0
    return 1
''')
Q('assert-msg', 'call assert', '''
def f(a, b):
    assert b > 0, probe(a)
    return 1
''')
Q('return-tuple', 'call tuple', '''
def f(a, b):
    return (probe(a), probe(b), 1)
''')
Q('list-display', 'call list', '''
def f(a, b):
    x = [probe(a), b]
    return len(x)
''')
Q('dict-display-value', 'call dict', '''
def f(a, b):
    d = {'k': probe(a), 'j': b}
    return d['j']
''')
Q('dict-display-key', 'call dict', '''
def f(a, b):
    d = {probe(1): a}
    return 0
''')
Q('set-display', 'call set', '''
def f(a, b):
    return probe(1) in {1, 2}
''')
Q('set-display-elt', 'call set', '''
def f(a, b):
    return 1 in {probe(1), 2}
''')
Q('compare-in-tuple', 'call in', '''
def f(a, b):
    return a in (probe(b), 2)
''')
Q('multi-target', 'call assign', '''
def f(a, b):
    x = y = probe(a)
    return x + y
''')
Q('unpack', 'call unpack', '''
def f(a, b):
    x, y = probe(a), probe(b)
    return x - y
''')
Q('walrus', 'call walrus', '''
def f(a, b):
    if (n := probe(a)) > 1:
        return n
    return -n
''')
Q('walrus-in-and', 'call walrus boolop', '''
def f(a, b):
    n = -7
    r = b > 0 and (n := probe(a)) > 0
    return (r, n)
''')
Q('elif-test', 'call if', '''
def f(a, b):
    if b > 1:
        return 1
    elif probe(a) > 1:
        return 2
    return 3
''')
Q('if-test-both-branches-call', 'call if', '''
def f(a, b):
    if probe(a) > 0:
        x = probe(b)
    else:
        x = probe(1)
    return x
''')
Q('del-subscript-index', 'call del', '''
def f(a, b):
    d = {'k': 1, 'j': 2}
    t = ('k',)
    del d[t[probe(0)]]
    return len(d)
''')
Q('annassign', 'call assign', '''
def f(a, b):
    x: int = probe(a)
    return x
''')
Q('attribute-of-call', 'call attribute', '''
def f(a, b):
    return probe(a).real
''')
Q('method-arg', 'call list', '''
def f(a, b):
    x = []
    x.append(probe(a))
    return x[0]
''')
Q('unmodelled-callee-arg', 'call unmodelled', '''
def f(a, b):
    x = divmod(probe(a), 3)
    return b
''')
Q('str-arg', 'call str', '''
def f(a, b):
    s = str(probe(a))
    return b
''')
Q('print-arg', 'call builtins', '''
def f(a, b):
    print(probe(a), end='')
    return b
''')
Q('isinstance-arg', 'call builtins', '''
def f(a, b):
    return isinstance(probe(a), int)
''')
Q('int-arg', 'call builtins', '''
def f(a, b):
    return int(probe(a)) + bool(probe(b))
''')
Q('nested-call', 'call', '''
def f(a, b):
    return probe(probe(a) + 1)
''')
Q('call-in-both-if-branches-then-join', 'call if', '''
def f(a, b):
    if a > b:
        probe(a)
    probe(b)
    return 0
''')
Q('early-return-skips', 'call return', '''
def f(a, b):
    if a > 0:
        return 1
    probe(b)
    return 2
''')
Q('exception-skips', 'call exception order', '''
def f(a, b):
    t = (1, 2)
    return t[5] + probe(a)
''')
Q('exception-after', 'call exception order', '''
def f(a, b):
    t = (1, 2)
    return probe(a) + t[5]
''')
Q('div-skips', 'call exception order floordiv', '''
def f(a, b):
    try:
        return (1 // b) + probe(a)
    except ZeroDivisionError:
        return -5
''')


def cases():
    out = []
    for c in _PLAIN:
        d = dict(c)
        d.setdefault('params', [('a', 'int'), ('b', 'int')])
        d.setdefault('inputs', list(INTS2))
        d['origin'] = 'hand'
        out.append(d)
    for c in _PROBE:
        for mode in ('count', 'assume', 'fork'):
            d = dict(c)
            d['name'] = 'probe-%s/%s' % (c['name'], mode)
            d['probe'] = mode
            d.setdefault('params', [('a', 'int'), ('b', 'int')])
            d.setdefault('inputs', list(INTS2))
            d['origin'] = 'probe'
            out.append(d)
    return out
