#!/bin/bash
# usage: tools/stage_seed.sh <prop> <letter> "<breaks>" "<needs>"   -- copies /tmp/wt/<prop>/mutant_<letter>.diff + demo into seeded/<prop>-<letter>
set -e
P=$1; L=$2
D=/verif/seeded/$P-$L
mkdir -p $D
cp /tmp/wt/$P/mutant_$L.diff $D/patch.diff
if [ -f /tmp/wt/$P/demo_$L.py ]; then
  cp /tmp/wt/$P/demo_$L.py $D/demo.py
  sed -i "s|os.path.dirname(os.path.abspath(__file__))|(os.environ.get('DEMO_ROOT') or os.path.dirname(os.path.abspath(__file__)))|" $D/demo.py
fi
[ -f /tmp/wt/$P/demo_$L.md ] && cp /tmp/wt/$P/demo_$L.md $D/demo.md
python3 - "$P" "$3" "$4" > $D/meta.json <<'PY'
import json,sys
print(json.dumps({"property": sys.argv[1], "breaks": sys.argv[2], "needs": sys.argv[3], "source": "independent sub-agent given only the property record and a scratch worktree"}, indent=1))
PY
echo staged $D
