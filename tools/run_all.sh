#!/bin/bash
# Run every claimed check (tier $1, default quick) on /repo's working tree; prints one RESULT line per property.
# Used before committing evidence: refuses to run when /repo has uncommitted changes (a seeded change still applied).
cd "$(dirname "$0")/.."
tier=${1:-quick}
if [ -n "$(git -C ${VERIF_REPO:-/repo} status --porcelain)" ]; then echo "repo working tree is dirty - evidence would not describe the committed tree" >&2; exit 3; fi
ids=$(python3 -c "import json;print(' '.join(c['property_id'] if 'property_id' in c else c['id'] for c in json.load(open('MANIFEST.json'))['checks']))" 2>/dev/null)
rc=0
for id in $ids; do
  out=$(python3-vt -m vc.check $id --tier $tier 2>&1); e=$?
  echo "$out" | grep -E "^(RESULT|VIOLATION|KNOWN-FINDING)" 
  [ $e -ne 0 ] && { echo "EXIT $e for $id"; rc=1; }
done
exit $rc
