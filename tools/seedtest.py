#!/usr/bin/env python3
"""Apply a seeded change to /repo, run the baseline tests, its demonstration and the property's check, then undo it.

usage: tools/seedtest.py <seed-dir-name> [--no-tests]
Reads seeded/<name>/patch.diff, demo.py (optional; run with DEMO_ROOT=<tree>) and meta.json (property id).
With SEED_REPO=<dir> the change is applied to a scratch git worktree of /repo at <dir> (created on demand, checks run with
VERIF_REPO=<dir>) so that /repo itself stays untouched while other checks read it; without it /repo is patched and restored.
"""
import json
import os
import subprocess
import sys

VERIF = os.path.dirname(os.path.dirname(os.path.abspath(__file__)))
REPO = os.environ.get('SEED_REPO') or '/repo'


def sh(cmd, **kw):
    return subprocess.run(cmd, shell=True, capture_output=True, text=True, **kw)


def main():
    name = sys.argv[1]
    d = os.path.join(VERIF, 'seeded', name)
    meta = json.load(open(os.path.join(d, 'meta.json')))
    pid = meta['property']
    if REPO != '/repo' and not os.path.isdir(REPO):
        r = sh('git -C /repo worktree add --detach %s HEAD' % REPO)
        assert r.returncode == 0, r.stderr
    if REPO != '/repo':
        sh('git -C %s checkout --detach -q %s' % (REPO, sh('git -C /repo rev-parse HEAD').stdout.strip()))
    assert sh('git -C %s status --porcelain --untracked-files=no' % REPO).stdout.strip() == '', REPO + ' not clean'
    out = {}
    demo = os.path.join(d, 'demo.py')
    env = dict(os.environ, DEMO_ROOT=REPO)
    if os.path.exists(demo):
        out['demo_without'] = sh('/venv/bin/python %s' % demo, env=env, cwd=REPO).returncode
    r = sh('git -C %s apply %s' % (REPO, os.path.join(d, 'patch.diff')))
    if r.returncode != 0:
        print('patch does not apply:', r.stderr)
        return 2
    try:
        if '--no-tests' not in sys.argv:
            t = sh('cd ' + REPO + ' && /venv/bin/python -m pytest -q -p no:cacheprovider auth/test/test_auth_utils.py 2>&1 | tail -1')
            out['tests'] = t.stdout.strip()
        if os.path.exists(demo):
            out['demo_with'] = sh('/venv/bin/python %s' % demo, env=env, cwd=REPO).returncode
        checks = meta.get('checks', [pid])
        out['checks'] = {}
        for c in checks:
            r = sh('python3-vt -m vc.check %s' % c, cwd=VERIF, env=dict(os.environ, VERIF_REPO=REPO, VERIF_EVIDENCE_DIR=os.path.join(VERIF, '.build', 'seed-evidence')))
            out['checks'][c] = {'exit': r.returncode, 'lines': [l for l in r.stdout.splitlines() if l.startswith(('VIOLATION', 'RESULT', 'UNDECIDED', 'CHECKER', 'KNOWN'))][:6]}
    finally:
        if sh('git -C %s apply -R %s' % (REPO, os.path.join(d, 'patch.diff'))).returncode != 0:
            sh('git -C %s checkout -- .' % REPO)
            if REPO != '/repo':
                sh('git -C %s clean -fdq' % REPO)
    print(json.dumps(out, indent=1))
    meta['last_run'] = out
    json.dump(meta, open(os.path.join(d, 'meta.json'), 'w'), indent=1)
    return 0


if __name__ == '__main__':
    sys.exit(main())
