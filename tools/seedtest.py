#!/usr/bin/env python3
"""Apply a seeded change to /repo, run the baseline tests, its demonstration and the property's check, then undo it.

usage: tools/seedtest.py <seed-dir-name> [--no-tests]
Reads seeded/<name>/patch.diff, demo.py (optional; run with DEMO_ROOT=/repo) and meta.json (property id).
Never leaves /repo modified.
"""
import json
import os
import subprocess
import sys

VERIF = os.path.dirname(os.path.dirname(os.path.abspath(__file__)))
REPO = '/repo'


def sh(cmd, **kw):
    return subprocess.run(cmd, shell=True, capture_output=True, text=True, **kw)


def main():
    name = sys.argv[1]
    d = os.path.join(VERIF, 'seeded', name)
    meta = json.load(open(os.path.join(d, 'meta.json')))
    pid = meta['property']
    assert sh('git -C /repo status --porcelain --untracked-files=no').stdout.strip() == '', '/repo not clean'
    out = {}
    demo = os.path.join(d, 'demo.py')
    env = dict(os.environ, DEMO_ROOT=REPO)
    if os.path.exists(demo):
        out['demo_without'] = sh('/venv/bin/python %s' % demo, env=env, cwd=REPO).returncode
    r = sh('git -C /repo apply %s' % os.path.join(d, 'patch.diff'))
    if r.returncode != 0:
        print('patch does not apply:', r.stderr)
        return 2
    try:
        if '--no-tests' not in sys.argv:
            t = sh('cd /repo && /venv/bin/python -m pytest -q -p no:cacheprovider auth/test/test_auth_utils.py 2>&1 | tail -1')
            out['tests'] = t.stdout.strip()
        if os.path.exists(demo):
            out['demo_with'] = sh('/venv/bin/python %s' % demo, env=env, cwd=REPO).returncode
        checks = meta.get('checks', [pid])
        out['checks'] = {}
        for c in checks:
            r = sh('python3-vt -m vc.check %s' % c, cwd=VERIF, env=dict(os.environ, VERIF_EVIDENCE_DIR=os.path.join(VERIF, '.build', 'seed-evidence')))
            out['checks'][c] = {'exit': r.returncode, 'lines': [l for l in r.stdout.splitlines() if l.startswith(('VIOLATION', 'RESULT', 'UNDECIDED', 'CHECKER', 'KNOWN'))][:6]}
    finally:
        sh('git -C /repo checkout -- .')
    print(json.dumps(out, indent=1))
    meta['last_run'] = out
    json.dump(meta, open(os.path.join(d, 'meta.json'), 'w'), indent=1)
    return 0


if __name__ == '__main__':
    sys.exit(main())
