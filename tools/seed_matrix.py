#!/usr/bin/env python3
"""Rewrite the seed/check matrix of DESIGN.md (between the SEED-MATRIX markers) from seeded/*/meta.json (field last_run,
written by tools/seedtest.py).  usage: python3 tools/seed_matrix.py"""
import json, os, re
V = os.path.dirname(os.path.dirname(os.path.abspath(__file__)))
rows = []
for d in sorted(os.listdir(os.path.join(V, 'seeded'))):
    mp = os.path.join(V, 'seeded', d, 'meta.json')
    if not os.path.exists(mp):
        continue
    m = json.load(open(mp))
    lr = m.get('last_run') or {}
    outcome, obls = 'not run', ''
    per = []
    for pid, c in (lr.get('checks') or {}).items():
        ex = c.get('exit')
        vio = [l for l in c.get('lines', []) if l.startswith('VIOLATION')]
        names = []
        for l in vio:
            mm = re.search(r'replays/%s-(?:%s_)?(.*?)\.json' % (pid, pid), l)
            if mm:
                names.append(mm.group(1)[:70])
        replayed = any('no-failing-input-found' not in l for l in vio)
        per.append((pid, ex, replayed, names))
    if per:
        hit = [x for x in per if x[1] == 1]
        own = d.split('-')[0]
        if hit:
            # caught by at least one of the checks listed for the seed (meta.json: checks); the property's own check first
            hit.sort(key=lambda x: (x[0] != own, not x[2]))
            pid, ex, replayed, names = hit[0]
            others = ['%s: exit %s' % (x[0], x[1]) for x in per if x[0] != pid]
            outcome = 'caught' + ('' if pid == own else ' by %s' % pid) + (' (input replayed)' if replayed else ' (no-failing-input-found)') + ((' [' + ', '.join(others) + ']') if others else '')
            obls = '; '.join(dict.fromkeys(names))[:150]
        else:
            worst = max(x[1] for x in per)
            outcome = {0: 'MISSED (exit 0)', 2: 'undecided (exit 2)', 3: 'checker error'}.get(worst, str(worst)) + (' [' + ', '.join('%s: exit %s' % (x[0], x[1]) for x in per) + ']' if len(per) > 1 else '')
    demo = ''
    if 'demo_without' in lr:
        demo = 'demo %s->%s' % (lr.get('demo_without'), lr.get('demo_with'))
    rows.append('| %s | %s | %s | %s | %s |' % (d, m.get('breaks', '').replace('|', '/')[:110], outcome, obls.replace('|', '/'), demo))
table = ['| seed | what it breaks | outcome of the property\'s check | failing obligation(s) | demonstration |', '|---|---|---|---|---|'] + rows
p = os.path.join(V, 'DESIGN.md')
s = open(p).read()
a, b = '<!-- SEED-MATRIX-BEGIN -->', '<!-- SEED-MATRIX-END -->'
assert a in s and b in s
s = s[: s.index(a) + len(a)] + '\n' + '\n'.join(table) + '\n' + s[s.index(b):]
open(p, 'w').write(s)
caught = sum(1 for r in rows if '| caught' in r)
print('%d seeds, %d caught, %d missed, %d undecided, %d not run' % (len(rows), caught, sum('MISSED' in r for r in rows), sum('undecided' in r for r in rows), sum('not run' in r for r in rows)))
