#!/usr/bin/env python3
"""Rewrite the seed/check matrix of DESIGN.md (between the SEED-MATRIX markers) from seeded/*/meta.json (field last_run,
written by tools/seedtest.py).  usage: python3 tools/seed_matrix.py"""
import json, os, re
V = os.path.dirname(os.path.dirname(os.path.abspath(__file__)))
rows = []
for d in sorted(os.listdir(os.path.join(V, 'seeded'))):
    mp = os.path.join(V, 'seeded', d, 'meta.json')
    if not os.path.exists(mp):
        continue
    m = json.load(open(mp))
    lr = m.get('last_run') or {}
    outcome, obls = 'not run', ''
    for pid, c in (lr.get('checks') or {}).items():
        ex = c.get('exit')
        vio = [l for l in c.get('lines', []) if l.startswith('VIOLATION')]
        names = []
        for l in vio:
            mm = re.search(r'replays/%s-(?:%s_)?(.*?)\.json' % (pid, pid), l)
            if mm:
                names.append(mm.group(1)[:70])
        replayed = any('no-failing-input-found' not in l for l in vio)
        outcome = {0: 'MISSED (exit 0)', 1: 'caught' + (' (input replayed)' if replayed else ' (no-failing-input-found)'), 2: 'undecided (exit 2)', 3: 'checker error'}.get(ex, str(ex))
        obls = '; '.join(dict.fromkeys(names))[:150]
    demo = ''
    if 'demo_without' in lr:
        demo = 'demo %s->%s' % (lr.get('demo_without'), lr.get('demo_with'))
    rows.append('| %s | %s | %s | %s | %s |' % (d, m.get('breaks', '').replace('|', '/')[:110], outcome, obls.replace('|', '/'), demo))
table = ['| seed | what it breaks | outcome of the property\'s check | failing obligation(s) | demonstration |', '|---|---|---|---|---|'] + rows
p = os.path.join(V, 'DESIGN.md')
s = open(p).read()
a, b = '<!-- SEED-MATRIX-BEGIN -->', '<!-- SEED-MATRIX-END -->'
assert a in s and b in s
s = s[: s.index(a) + len(a)] + '\n' + '\n'.join(table) + '\n' + s[s.index(b):]
open(p, 'w').write(s)
caught = sum(1 for r in rows if '| caught' in r)
print('%d seeds, %d caught, %d missed, %d undecided, %d not run' % (len(rows), caught, sum('MISSED' in r for r in rows), sum('undecided' in r for r in rows), sum('not run' in r for r in rows)))
