#!/usr/bin/env python3
"""Try one textual mutation on a scratch worktree of /repo: tools/trymut.py <Cxx> <path-in-repo> <old> <new> [--count N]
The scratch tree is $SEED_REPO (default /tmp/wt/seedrepo, created on demand); /repo itself is never touched."""
import os, subprocess, sys
VERIF = os.path.dirname(os.path.dirname(os.path.abspath(__file__)))
R = os.environ.get('SEED_REPO') or '/tmp/wt/seedrepo'
def sh(c, **k): return subprocess.run(c, shell=True, capture_output=True, text=True, **k)
pid, path, old, new = sys.argv[1:5]
if not os.path.isdir(R):
    assert sh('git -C /repo worktree add --detach %s HEAD' % R).returncode == 0
sh('git -C %s checkout -- .' % R)
f = os.path.join(R, path)
s = open(f).read()
assert old in s, 'old text not found'
open(f, 'w').write(s.replace(old, new, 1))
try:
    r = sh('python3-vt -m vc.check %s' % pid, cwd=VERIF, env=dict(os.environ, VERIF_REPO=R, VERIF_EVIDENCE_DIR=os.path.join(VERIF, '.build', 'seed-evidence')))
    for l in r.stdout.splitlines():
        if l.startswith(('VIOLATION', 'RESULT', 'UNDECIDED', 'CHECKER', 'KNOWN')):
            print(l[:260])
    if r.returncode not in (0, 1):
        print(r.stdout[-1500:], r.stderr[-1500:])
finally:
    sh('git -C %s checkout -- .' % R)
