#!/usr/bin/env python3
"""Validate every evidence/<id>.json against the evidence schema and the proof-level rule discharged == obligations.

usage: python3-vt tools/validate_evidence.py [evidence-dir]      exit 0 iff every claimed property has a valid record
"""
import json
import os
import sys

import jsonschema

VERIF = os.path.dirname(os.path.dirname(os.path.abspath(__file__)))


def main():
    d = sys.argv[1] if len(sys.argv) > 1 else os.path.join(VERIF, 'evidence')
    schema = json.load(open('/root/.vp/EVIDENCE.schema.json'))
    manifest = json.load(open(os.path.join(VERIF, 'MANIFEST.json')))
    bad = 0
    for c in manifest['checks']:
        pid = c['property_id']
        p = os.path.join(d, pid + '.json')
        if not os.path.exists(p):
            print('MISSING', pid)
            bad += 1
            continue
        ev = json.load(open(p))
        errs = [e.message[:200] for e in jsonschema.Draft202012Validator(schema).iter_errors(ev)]
        cov = ev['coverage']
        if ev['level'] != c['level_claimed']['category']:
            errs.append('level %s != claimed %s' % (ev['level'], c['level_claimed']['category']))
        if ev['level'] == 'proof' and cov.get('discharged') != cov.get('obligations'):
            errs.append('discharged %s != obligations %s' % (cov.get('discharged'), cov.get('obligations')))
        if ev.get('violations'):
            errs.append('violations=%s' % ev['violations'])
        if cov.get('unknown'):
            errs.append('unknown=%s' % cov['unknown'][:2])
        hit = {k['obligation'] for k in cov.get('known_findings_hit', [])}
        stray = [f for f in cov.get('failed', []) if f not in hit]
        if stray:
            errs.append('failed obligations outside the known findings: %s' % stray[:2])
        if errs:
            bad += 1
            print('INVALID', pid, errs)
        else:
            print('ok', pid, ev['tier'], cov['obligations'], cov['discharged'], 'known=%d' % len(hit))
    return 1 if bad else 0


if __name__ == '__main__':
    sys.exit(main())
