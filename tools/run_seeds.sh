#!/bin/bash
# Re-run seeds in parallel on scratch worktrees of /repo (never in /repo itself):
#   tools/run_seeds.sh [-j N] [seed-name-regex]        e.g. tools/run_seeds.sh -j 5 '^C(0|1[0246])'
# Each worker owns one scratch worktree /tmp/wt/seedrepo<k>; results go to seeded/<seed>/meta.json (last_run) and one line each to stdout.
cd "$(dirname "$0")/.."
J=4
if [ "$1" = "-j" ]; then J=$2; shift 2; fi
RE=${1:-.}
ls seeded | grep -E "$RE" > .build/seedlist.txt
run_one() {
  k=$1; s=$2
  r=$(SEED_REPO=/tmp/wt/seedrepo$k python3 tools/seedtest.py $s --no-tests 2>&1 | python3 -c "
import json,sys
try:
    r=json.load(sys.stdin); print({k:v['exit'] for k,v in r['checks'].items()}, 'demo', r.get('demo_without'), r.get('demo_with'))
except Exception as e:
    print('ERROR', e)")
  echo "$s $r"
}
export -f run_one
# round-robin the seeds over J workers, each worker sequential on its own scratch tree
for k in $(seq 1 $J); do
  ( awk -v k=$k -v j=$J 'NR % j == k % j' .build/seedlist.txt | while read s; do run_one $k $s; done ) &
done
wait
for k in $(seq 1 $J); do git -C /repo worktree remove --force /tmp/wt/seedrepo$k 2>/dev/null; done
