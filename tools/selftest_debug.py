#!/usr/bin/env python3
"""debug helper: python3-vt tools/selftest_debug.py <results.json> <case-name> [input-index]  - reruns one input, prints obligations"""
import json, os, sys
sys.path.insert(0, os.path.dirname(os.path.abspath(__file__)))
import engine_selftest as E
d = json.load(open(sys.argv[1]))
c = [x for x in d['cases'] if x['name'] == sys.argv[2]][0]
case = dict(name=c['name'], src=c['src'], params=[('a', 'int'), ('b', 'int')], probe=c['probe'], tags=c['tags'])
bad = [i for i in c['inputs'] if i['cls'] not in ('AGREE',)]
i = bad[int(sys.argv[3]) if len(sys.argv) > 3 else 0]
print(i)
inp = tuple(i['input'])
native = (i['native'][0], eval(i['native'][1]))
for neg in (False, True):
    r = E.run_engine(case['src'], E.make_contract(case, inp, native, i['ncalls'], neg))
    print('negated' if neg else 'truth', r.get('reason') or [(n, s) for n, k, s in r['obls']])
    if r.get('eng'):
        for k, pc in getattr(r['eng'], 'exits', []):
            print('   exit', k, len(pc))
