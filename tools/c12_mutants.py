"""C12 mutation self-test: usage tools/c12_mutants.py <name> [n-lines]; applies one named edit (M*: property-breaking, must exit 1
with a VIOLATION naming an obligation; R*: meaning-preserving, must exit 0) to a SCRATCH worktree of the repository
(never /repo), runs `vc.check C12` against it, and reverts the worktree."""
import subprocess, sys, os
W = os.environ.get('C12_SCRATCH_REPO', '/tmp/wt/C12repo')  # a scratch worktree of /repo: git -C /repo worktree add --detach <dir> HEAD
RU, GCP, AZ = 'batch/batch/cloud/resource_utils.py', 'batch/batch/cloud/gcp/resource_utils.py', 'batch/batch/cloud/azure/resource_utils.py'
ICC, FE = 'batch/batch/inst_coll_config.py', 'batch/batch/front_end/front_end.py'
M = {
 'M1-azure-storage-max-off-by-one': [(AZ, "    if storage_bytes > AZURE_MAX_PERSISTENT_SSD_SIZE_GIB * 1024**3:", "    if storage_bytes >= AZURE_MAX_PERSISTENT_SSD_SIZE_GIB * 1024**3:")],
 'M2-worker-type-pool-ignores-preemptible': [(ICC, "                and pool.preemptible == preemptible\n", "")],
 'M3-front-end-forgets-worker-type': [(FE, "            preemptible,\n            worker_type,\n            req_cores_mcpu,", "            preemptible,\n            None,\n            req_cores_mcpu,")],
 'M4-storage-gib-rounded-to-nearest': [(RU, "    gib = math.ceil(gib)\n    return gib", "    gib = round(gib)\n    return gib")],
 'M5-cheapest-ignores-label': [(ICC, "if pool.cloud != cloud or pool.preemptible != preemptible or pool.label != pool_label:", "if pool.cloud != cloud or pool.preemptible != preemptible:")],
 'M6-worker-fit-strict': [(ICC, "        if cores_mcpu <= self.worker_cores * 1000:", "        if cores_mcpu < self.worker_cores * 1000:")],
 'M7-gcp-memory-per-1024-mcpu': [(GCP, "    return int((mcpu / 1000) * memory_bytes)", "    return int((mcpu / 1024) * memory_bytes)")],
 'M8-packability-rounds-to-nearest-power': [(RU, "    power = max(-2, math.ceil(math.log2(cores_in_mcpu / 1000)))", "    power = max(-2, round(math.log2(cores_in_mcpu / 1000)))")],
 'M9-gcp-standard-memory-table': [(GCP, "    ('n1', 'standard'): 3840,", "    ('n1', 'standard'): 4096,")],
 'M10-dispatch-named-worker-type-to-cheapest': [(ICC, "        if worker_type is not None and machine_type is None:\n            result = self.select_pool_from_worker_type(\n                cloud=cloud,\n                pool_label=pool_label,\n                worker_type=worker_type,\n", "        if worker_type is not None and machine_type is None:\n            result = self.select_cheapest_price_pool(\n                cloud=cloud,\n                pool_label=pool_label,\n")],
 'M11-front-end-accepts-unsatisfiable': [(FE, "        if result is None:\n            raise web.HTTPBadRequest(\n                reason=f'resource requests for job {id} are unsatisfiable: '", "        if result is None:\n            result = ('standard', req_cores_mcpu, req_memory_bytes, 0)\n        if result is None:\n            raise web.HTTPBadRequest(\n                reason=f'resource requests for job {id} are unsatisfiable: '")],
 'M12-azure-adjust-uses-memory-before-cores': [(ICC, "            cores_mcpu = azure_adjust_cores_for_memory_request(cores_mcpu, memory_bytes, self.worker_type)\n            cores_mcpu = adjust_cores_for_packability(cores_mcpu)", "            cores_mcpu = adjust_cores_for_packability(cores_mcpu)\n            cores_mcpu = azure_adjust_cores_for_memory_request(cores_mcpu, memory_bytes, self.worker_type)")],
 'M13-job-private-ignores-cloud': [(ICC, "        if self.jpim_config.cloud != cloud:\n            return None\n", "")],
 # meaning-preserving refactorings
 'R1-rename-locals': [
   (ICC, "        storage_gib = requested_storage_bytes_to_actual_storage_gib(self.cloud, storage_bytes, allow_zero_storage=True)\n        if storage_gib is None:\n            return None\n\n        if self.cloud == 'gcp':", "        disk_gib = requested_storage_bytes_to_actual_storage_gib(self.cloud, storage_bytes, allow_zero_storage=True)\n        if disk_gib is None:\n            return None\n\n        if self.cloud == 'gcp':"),
   (ICC, "            return (cores_mcpu, memory_bytes, storage_gib)\n\n        return None\n\n    def price_per_hour", "            return (cores_mcpu, memory_bytes, disk_gib)\n\n        return None\n\n    def price_per_hour"),
   (ICC, "                result = pool.convert_requests_to_resources(cores_mcpu, memory_bytes, storage_bytes)\n                if result:\n                    actual_cores_mcpu, actual_memory_bytes, acutal_storage_gib = result\n                    return (pool.name, actual_cores_mcpu, actual_memory_bytes, acutal_storage_gib)", "                converted = pool.convert_requests_to_resources(cores_mcpu, memory_bytes, storage_bytes)\n                if converted:\n                    c_mcpu, m_bytes, s_gib = converted\n                    return (pool.name, c_mcpu, m_bytes, s_gib)"),
   (GCP, "    min_cores_mcpu = math.ceil((memory_in_bytes / memory_per_core_bytes) * 1000)\n    return max(cores_in_mcpu, min_cores_mcpu)", "    needed = math.ceil((memory_in_bytes / memory_per_core_bytes) * 1000)\n    return max(cores_in_mcpu, needed)"),
   (FE, "            req_memory = resources['req_memory']\n            memory_to_worker_types = memory_to_worker_type(cloud)\n            if req_memory in memory_to_worker_types:\n                worker_type = memory_to_worker_types[req_memory]", "            mem_string = resources['req_memory']\n            classes = memory_to_worker_type(cloud)\n            if mem_string in classes:\n                worker_type = classes[mem_string]"),
   (FE, "                req_memory_bytes = parse_memory_in_bytes(req_memory)", "                req_memory_bytes = parse_memory_in_bytes(mem_string)"),
 ],
 'R2-reorder-independent-statements': [
   (ICC, "        optimal_result = None\n        optimal_price = None\n", "        optimal_price = None\n        optimal_result = None\n"),
   (FE, "        resources['cores_mcpu'] = cores_mcpu\n        resources['memory_bytes'] = memory_bytes\n", "        resources['memory_bytes'] = memory_bytes\n        resources['cores_mcpu'] = cores_mcpu\n"),
   (FE, "            resources['req_cpu'] = resources['cpu']\n            del resources['cpu']\n            req_cores_mcpu = parse_cpu_in_mcpu(resources['req_cpu'])\n", "            req_cores_mcpu = parse_cpu_in_mcpu(resources['cpu'])\n            resources['req_cpu'] = resources['cpu']\n            del resources['cpu']\n"),
   (AZ, "    memory_per_core_mib = azure_worker_memory_per_core_mib(worker_type)\n    memory_per_core_bytes = int(memory_per_core_mib * 1024**2)\n    min_cores_mcpu", "    memory_per_core_bytes = int(azure_worker_memory_per_core_mib(worker_type) * 1024**2)\n    min_cores_mcpu"),
   (ICC, "        cores, memory_bytes = machine_type_to_cores_and_memory_bytes(self.cloud, machine_type)\n        cores_mcpu = cores * 1000\n", "        cores, memory_bytes = machine_type_to_cores_and_memory_bytes(self.cloud, machine_type)\n        cores_mcpu = 1000 * cores\n"),
 ],
}
name = sys.argv[1]
subprocess.run(['git', '-C', W, 'checkout', '--', '.'], check=True)
for path, old, new in M[name]:
    f = os.path.join(W, path)
    s = open(f).read()
    assert s.count(old) == 1, (name, path, old, s.count(old))
    open(f, 'w').write(s.replace(old, new))
env = dict(os.environ, VERIF_REPO=W, VERIF_EVIDENCE_DIR=os.path.join(os.path.dirname(os.path.dirname(os.path.abspath(__file__))), '.build', 'mut-ev'))
p = subprocess.run(['python3-vt', '-m', 'vc.check', 'C12'], cwd=os.path.dirname(os.path.dirname(os.path.abspath(__file__))), env=env, capture_output=True, text=True)
lines = [l for l in p.stdout.splitlines() if not l.startswith('WARNING conda')]
print('==', name, 'exit', p.returncode)
for l in lines[:int(sys.argv[2]) if len(sys.argv) > 2 else 6] + lines[-1:]:
    print('  ', l[:330])
if p.returncode not in (0, 1): print(p.stderr[-1500:])
subprocess.run(['git', '-C', W, 'checkout', '--', '.'], check=True)
