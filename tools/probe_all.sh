#!/bin/bash
# Reproduce the acceptance run: every quick command from MANIFEST.json once, evidence file removed first, then validate.
# usage: tools/probe_all.sh [out-dir-for-logs]     (VERIF_EVIDENCE_DIR is honoured, so parallel stress runs do not collide)
cd "$(dirname "$0")/.."
logs=${1:-.build/probe}
mkdir -p "$logs"
evd=${VERIF_EVIDENCE_DIR:-evidence}
rc=0
python3 -c "import json;[print(c['property_id'], c['quick_cmd'], sep='\t') for c in json.load(open('MANIFEST.json'))['checks']]" |
while IFS=$'\t' read -r id cmd; do
  rm -f "$evd/$id.json"
  t0=$(date +%s)
  bash -c "$cmd" > "$logs/$id.log" 2>&1; e=$?
  t1=$(date +%s)
  v=$(grep -c '^VIOLATION' "$logs/$id.log")
  echo "$id exit=$e violations=$v $((t1-t0))s $(grep '^RESULT' "$logs/$id.log" | cut -c1-120)"
done
python3-vt tools/validate_evidence.py "$evd" | grep -v '^ok' ; echo "validate=${PIPESTATUS[0]}"
