#!/usr/bin/env python3
"""Differential self-test of the symbolic executor vc/pyvc.py against CPython.

    python3-vt tools/engine_selftest.py [--seed N] [--n N] [--quick] [--json out] [--only SUBSTR] [--show CLASS] [-j PROCS]

For every case (hand-written corner cases in tools/selftest_corpus.py + programs generated from a grammar restricted to what
the engine claims to support) and every concrete input:
  1. the module text is written to a temporary file, imported and run under CPython: value or exception class, and the number
     of times the native stub `probe` was really called;
  2. the SAME text goes through pyvc.Engine twice, with the inputs pinned by `requires`:
       run A - the truth as a contract  (ensures result == <CPython value> [and ncalls == <native count>], no exception allowed;
               or: only the exception class CPython raised is allowed, and no normal exit);
       run B - the negation of the truth, everything else permitted (ensures not(result == v and ncalls == k), any exception
               allowed; or: any exception but E-with-that-count, normal exit allowed);
     obligations are discharged by core._solve_worker (the function the solver pool of core.discharge runs), in-process;
  3. classification per input:
       AGREE        A proved, B not proved
       UNSOUND      B proved (the engine proves something false about the real run: wrong value, missed exception, or an empty
                    path set - then A and B are both "proved" and A's vacuity obligation fails)
       FALSE-ALARM  A not proved and B not proved (failing obligation for the true value, a safety obligation on code CPython
                    never executes, an exception path CPython does not take)
       REFUSED      the engine raised Undecided / CheckerBug (or crashed - reported separately), or recorded an unmodelled call
                    (unless the verdict is UNSOUND), or the solver answered unknown.
     A case gets the worst class of its inputs (UNSOUND > FALSE-ALARM > REFUSED > AGREE).
Symbolic mode: programs generated together with a closed form (an expression tree rendered once as Python statements and once,
by this tool and not by the engine, as a z3 term) are verified for ALL integer inputs: `result == SPEC`, plus a coverage
query (the path conditions of all exits must cover the precondition; an uncovered input means a silently dropped path).

Exit status 0 iff no UNSOUND and no FALSE-ALARM case.  Deterministic for a given seed.
"""
from __future__ import annotations

import argparse
import ast
import importlib.util
import itertools
import json
import multiprocessing
import os
import random
import re
import signal
import sys
import tempfile
import time
import traceback

ROOT = os.path.dirname(os.path.dirname(os.path.abspath(__file__)))
sys.path.insert(0, ROOT)
sys.path.insert(0, os.path.join(ROOT, 'tools'))

import z3  # noqa: E402

from vc import core, pyvc  # noqa: E402
from vc.pyvc import Contract, Fork, LoopSpec, SExc  # noqa: E402

PRELUDE = '''\
_MODE = 'count'
_CALLS = []
_VIOL = []


def probe(x, *rest, **kw):
    _CALLS.append(x)
    if _MODE == 'assume' and (x is None or (isinstance(x, int) and x <= 0)):
        _VIOL.append(x)
    if _MODE == 'fork' and isinstance(x, int) and x < 0:
        raise ValueError('probe')
    return x


class cm:
    def __init__(self, v):
        self.v = v

    def __enter__(self):
        return self.v

    def __exit__(self, *a):
        return False


'''

Z3_MS = 5000
CVC5_S = 10
CASE_TIMEOUT_S = 90

ORDER = {'AGREE': 0, 'REFUSED': 1, 'FALSE-ALARM': 2, 'UNSOUND': 3}


# ---------------------------------------------------------------------------------------------
# call models for the stubs


def probe_model(mode):
    """contract model of probe(x): returns x, increments the ghost `ncalls`;
    'assume': additionally assumes a fact about the argument (x > 0, or x is not None for an opaque argument);
    'fork': raises ValueError when x < 0 (two Fork alternatives, both count the call)"""

    def bump(s):
        s.env['ncalls'] = s.env['ncalls'] + 1

    def model(eng, st, args, kw, node):
        x = args[0]
        if mode == 'fork':
            xz = eng.num(x)
            raise Fork(node, [('probe-ok', xz >= 0, 'value', x, bump), ('probe-raises', xz < 0, 'raise', SExc('ValueError'), bump)])
        bump(st)
        if mode == 'assume':
            if x is None or (isinstance(x, z3.ExprRef) and x.sort() == pyvc.U):
                st.assume(z3.Not(eng.is_none(x)))
            else:
                st.assume(eng.num(x) > 0)
        return x

    return model


def _cm_enter(eng, st, node):
    ce = node.items[0].context_expr
    v = eng.ev(ce.args[0], st)
    return [(st, ('value', v))]


def _cm_exit(eng, st, exc):
    return [(st, None)]


class TEngine(pyvc.Engine):
    """records the exits (for the coverage query of the symbolic mode)"""

    def at_return(self, st, res):
        self.__dict__.setdefault('exits', []).append(('return', list(st.pc)))
        for x in (res if isinstance(res, tuple) else (res,)):
            if isinstance(x, z3.ExprRef) and x.sort() == pyvc.U and z3.is_const(x) and re.match(r'(fstring|unmodelled_)', x.decl().name()):
                self.opaque_result = x.decl().name()
        return super().at_return(st, res)

    def at_raise(self, st, exc):
        self.__dict__.setdefault('exits', []).append(('raise', list(st.pc)))
        return super().at_raise(st, exc)


# ---------------------------------------------------------------------------------------------
# native side


def lit(v):
    """the CPython value as a contract expression (None if it has no counterpart in the contract language)"""
    if v is None:
        return 'None'
    if isinstance(v, bool):
        return repr(v)
    if isinstance(v, int):
        return '(%d)' % v
    if isinstance(v, str):
        return repr(v) if re.fullmatch(r'[A-Za-z0-9_ .:-]*', v) else None
    if isinstance(v, tuple):
        parts = [lit(x) for x in v]
        if any(p is None for p in parts):
            return None
        return '(%s,)' % ', '.join(parts) if parts else '()'
    if isinstance(v, list):
        parts = [lit(x) for x in v]
        if any(p is None for p in parts) or len({type(x) for x in v}) > 1 or any(x is None for x in v):
            return None
        return '[%s]' % ', '.join(parts)
    return None


def eq_clause(v):
    l = lit(v)
    if l is None:
        return None
    if v is None:
        return 'result is None'
    return 'result == %s' % l


class _Timeout(BaseException):
    pass


def _alarm(signum, frame):
    raise _Timeout()


def load_native(src, tmpdir, tag):
    path = os.path.join(tmpdir, 'st_%s.py' % tag)
    with open(path, 'w') as f:
        f.write(src)
    spec = importlib.util.spec_from_file_location('st_%s' % tag, path)
    mod = importlib.util.module_from_spec(spec)
    spec.loader.exec_module(mod)
    return mod


def run_native(mod, fname, inp, mode):
    """-> (outcome, number of probe calls, model assumption violated, lines at which an exception was raised or passed through)"""
    mod._MODE = mode or 'count'
    del mod._CALLS[:]
    del mod._VIOL[:]
    exc_lines = set()
    fn_file = mod.__file__

    def tracer(frame, event, arg):
        if frame.f_code.co_filename != fn_file:
            return None
        if event == 'exception':
            exc_lines.add(frame.f_lineno)
        return tracer

    sys.settrace(tracer)
    try:
        v = getattr(mod, fname)(*inp)
        out = ('value', v)
    except _Timeout:
        raise
    except RecursionError:
        out = ('skip', 'RecursionError')
    except BaseException as e:  # noqa: BLE001
        out = ('raise', type(e).__name__)
    finally:
        sys.settrace(None)
    return out, len(mod._CALLS), bool(mod._VIOL), exc_lines


# ---------------------------------------------------------------------------------------------
# engine side


def make_contract(case, inp, native, ncalls, negate):
    params = case['params']
    types = {}
    requires = []
    for (p, t), v in zip(params, inp):
        if v is None:
            types[p] = 'U'
            requires.append('%s is None' % p)
        elif isinstance(v, bool):
            types[p] = 'bool'
            requires.append('%s == %s' % (p, v))
        elif isinstance(v, int):
            types[p] = 'int'
            requires.append('%s == (%d)' % (p, v))
        elif isinstance(v, str):
            types[p] = 'U'
            requires.append('%s == %r' % (p, v))
        else:
            raise core.Undecided('selftest: input value %r' % (v,))
    types.update(case.get('types') or {})
    mode = case.get('probe')
    calls = {'with:cm': pyvc.with_model(_cm_enter, _cm_exit)}
    ghost_init = {}
    cnt = ''
    ncnt = ''
    if mode:
        calls['probe'] = probe_model(mode)
        ghost_init['ncalls'] = '0'
        cnt = 'ncalls == %d' % ncalls
        ncnt = 'ncalls != %d' % ncalls
    loops = {}
    for k, spec in (case.get('loops') or {}).items():
        loops[k] = LoopSpec(index=spec.get('index'), invariants=list(spec.get('invariants') or []), modifies=spec.get('modifies'))
    ensures, raises, on_raise = [], {}, []
    kind, val = native
    if kind == 'value':
        eq = eq_clause(val)
        if eq is None:
            raise core.Undecided('selftest: CPython value %r has no contract literal' % (val,))
        if not negate:
            ensures.append(('value', eq))
            if mode:
                ensures.append(('count', cnt))
        else:
            ensures.append(('not-truth', 'not (%s)' % (eq + (' and ' + cnt if mode else ''))))
            raises['*'] = True
            for n in pyvc.EXC_NAMES:
                raises[n] = True
    else:
        if not negate:
            raises[val] = True
            ensures.append(('no-normal-exit', 'False'))
            if mode:
                on_raise.append(('count', cnt))
        else:
            raises['*'] = True
            for n in pyvc.EXC_NAMES:
                raises[n] = True
            raises[val] = ncnt if mode else 'False'
            ensures.append(('anything', 'True'))
    return Contract(path='selftest.py', qualname=case.get('fname', 'f'), types=types, requires=requires, ensures=ensures, raises=raises, on_raise=on_raise, calls=calls, ghost_init=ghost_init, loops=loops, strings=bool(case.get('strings')), consts=dict(case.get('consts') or {}))


def solve_all(obls):
    for i, o in enumerate(obls):
        if o.status != 'pending':
            continue
        try:
            smt2 = core._to_smt2(o.query)
        except Exception as e:  # noqa: BLE001
            o.status = 'unknown'
            o.detail = 'serialisation failed: %r' % (e,)
            continue
        r = core._solve_worker((i, smt2, o.expect, Z3_MS, CVC5_S, False))
        o.detail = r.get('detail', '')
        o.status = 'unknown' if r['res'] == 'unknown' else ('ok' if r['res'] == o.expect else 'failed')


def run_engine(src, contract, engine_cls=TEngine):
    """-> dict(status='done'|'refused'|'crash', reason, obls=[(name, kind, status)], assumptions, eng)"""
    pyvc._fresh_counter = itertools.count()
    ctx = core.Ctx('ST', 'quick', 0)
    eng = None
    nonormal = False
    try:
        eng = engine_cls(ctx, contract, src=src)
        try:
            eng.run()
        except core.CheckerBug as e:
            if 'no normal exit path generated' in str(e):
                nonormal = True  # every obligation of the exceptional exits has been added before this is raised
            else:
                raise
    except core.Undecided as e:
        return {'status': 'refused', 'reason': 'Undecided: %s' % e}
    except core.CheckerBug as e:
        return {'status': 'refused', 'reason': 'CheckerBug: %s' % e}
    except (_Timeout, KeyboardInterrupt):
        raise
    except RecursionError:
        return {'status': 'crash', 'reason': 'crash: RecursionError'}
    except Exception as e:  # noqa: BLE001
        tb = traceback.extract_tb(sys.exc_info()[2])
        where = [fr for fr in tb if fr.filename.endswith('pyvc.py')]
        loc = '%s:%s' % (where[-1].name, where[-1].lineno) if where else '?'
        return {'status': 'crash', 'reason': 'crash: %s: %s @%s' % (type(e).__name__, str(e)[:80], loc)}
    solve_all(ctx.obls)
    return {'status': 'done', 'nonormal': nonormal, 'obls': [(o.name, o.kind, o.status) for o in ctx.obls], 'assumptions': list(ctx.assumptions), 'eng': eng}


def norm_reason(s):
    s = re.sub(r'L\d+', 'L#', s)
    s = re.sub(r'line \d+', 'line #', s)
    s = re.sub(r'![0-9]+', '!#', s)
    s = re.sub(r'\b\d+\b', '#', s)
    s = re.sub(r"<[^>]*object at 0x[0-9a-f]+>", '<obj>', s)
    s = re.sub(r"0x[0-9a-f]+", '0x#', s)
    return s[:110]


def classify_input(case, inp, native, ncalls, exc_lines=()):
    """-> (class, detail)"""
    src = case['src']
    try:
        cA = make_contract(case, inp, native, ncalls, negate=False)
        cB = make_contract(case, inp, native, ncalls, negate=True)
    except core.Undecided as e:
        return 'REFUSED', 'harness: %s' % e
    ra = run_engine(src, cA)
    if ra['status'] != 'done':
        return 'REFUSED', ra['reason']
    rb = run_engine(src, cB)
    if rb['status'] != 'done':
        return 'REFUSED', rb['reason']
    a_bad = [(n, k, s) for n, k, s in ra['obls'] if s != 'ok']
    # B: vacuity obligations do not count (an engine that sees no normal exit at all "proves" every postcondition)
    b_bad = [(n, k, s) for n, k, s in rb['obls'] if s != 'ok' and k != 'vacuity']
    a_unknown = [x for x in a_bad if x[2] == 'unknown']
    b_unknown = [x for x in b_bad if x[2] == 'unknown']
    a_ok = not a_bad
    b_ok = not b_bad
    unmodelled = [a for a in ra['assumptions'] if 'unmodelled call' in a]
    short = lambda xs: ', '.join('%s=%s' % (n.split('/', 2)[-1], s) for n, k, s in xs[:4])
    # The engine turns some exceptions into safety obligations (divisor non-zero, index in range, key present, ...) instead of
    # exception paths: it DEMANDS that the exception cannot happen and says nothing about what follows.  When such an obligation
    # fails at a line where CPython really raised an exception in this run, engine and CPython agree that the exception happens;
    # the demand (even if the program catches the exception) is the engine's documented strictness, not a false alarm.
    strict = [n for n, k, s in a_bad if k == 'safety' and s == 'failed' and re.search(r'@L(\d+)', n) and int(re.search(r'@L(\d+)', n).group(1)) in exc_lines]
    if strict and not b_ok:
        return 'AGREE', 'strict-safety: %s fails where CPython raises' % strict[0].split('/', 2)[-1]
    if b_ok:
        return 'UNSOUND', 'engine proves the negation of the CPython outcome %r (count %s); truth contract: %s' % (native, ncalls, 'also proved (empty path set)' if a_ok else short(a_bad))
    if a_ok:
        return 'AGREE', ''
    opaque = getattr(ra['eng'], 'opaque_result', None)
    if opaque and not [x for x in a_bad if not x[0].split('/', 2)[-1].startswith('post/value')]:
        return 'REFUSED', 'value havocked by design: %s' % re.sub(r'!\d+', '', opaque)
    if unmodelled:
        return 'REFUSED', 'unmodelled call recorded: %s' % unmodelled[0].split('unmodelled call', 1)[1].strip()[:60]
    if a_unknown and len(a_unknown) == len(a_bad):
        return 'REFUSED', 'solver unknown: %s' % short(a_unknown)
    if b_unknown and len(b_unknown) == len(b_bad) and not [x for x in a_bad if x[2] == 'failed']:
        return 'REFUSED', 'solver unknown: %s' % short(b_unknown)
    return 'FALSE-ALARM', 'CPython outcome %r (count %s) not provable: %s' % (native, ncalls, short(a_bad))


# ---------------------------------------------------------------------------------------------
# symbolic mode


def classify_symbolic(case):
    """case['spec'] builds the z3 term of the result from the engine's input terms; proves result == SPEC for all inputs
    satisfying case['spec_requires'] and checks that the exits cover the precondition"""
    src = case['src']
    types = {p: 'int' for p, _ in case['params']}
    spec = case['spec']

    def setup(eng, st):
        st.env['SPEC'] = spec({p: eng.inputs[p] for p in types})

    c = Contract(path='selftest.py', qualname='f', types=types, requires=list(case.get('spec_requires') or []), ensures=[('closed-form', 'result == SPEC')], setup=setup)
    r = run_engine(src, c)
    if r['status'] != 'done':
        return 'REFUSED', r['reason']
    bad = [(n, k, s) for n, k, s in r['obls'] if s != 'ok']
    eng = r['eng']
    # coverage: requires => some exit's path condition (symbols introduced on the way are existentially quantified)
    ins = {v.decl().name() for v in eng.inputs.values() if isinstance(v, z3.ExprRef)}
    disj = []
    for kind, pc in getattr(eng, 'exits', []):
        body = z3.And(*pc) if pc else z3.BoolVal(True)
        extra = [z3.Const(n, s) for n, s in _free_consts(body) if n not in ins]
        disj.append(z3.Exists(extra, body) if extra else body)
    s = z3.Solver()
    s.set('timeout', Z3_MS)
    st0 = pyvc.State()
    for p in types:
        st0.env[p] = eng.inputs[p]
    for rq in c.requires:
        s.add(eng.ev_bool_str(rq, st0))
    s.add(z3.Not(z3.Or(*disj)) if disj else z3.BoolVal(True))
    cov = s.check()
    if cov == z3.sat:
        m = s.model()
        return 'UNSOUND', 'dropped path: no exit covers input %s' % {p: str(m.eval(eng.inputs[p], model_completion=True)) for p in types}
    if not bad:
        return 'AGREE', ''
    if all(x[2] == 'unknown' for x in bad):
        return 'REFUSED', 'solver unknown: %s' % ', '.join(n for n, _, _ in bad[:3])
    return 'FALSE-ALARM', 'closed form not provable for all inputs: %s' % ', '.join('%s=%s' % (n.split('/', 2)[-1], s) for n, k, s in bad[:4])


def _free_consts(f):
    out, seen, stack = {}, set(), [f]
    while stack:
        x = stack.pop()
        if x.get_id() in seen:
            continue
        seen.add(x.get_id())
        if z3.is_quantifier(x):
            stack.append(x.body())
            continue
        if z3.is_app(x):
            if x.num_args() == 0 and x.decl().kind() == z3.Z3_OP_UNINTERPRETED:
                out[x.decl().name()] = x.sort()
            stack.extend(x.children())
    return sorted(out.items(), key=lambda kv: kv[0])


# ---------------------------------------------------------------------------------------------
# one case


CASES = []


def run_case(idx):
    case = CASES[idx]
    t0 = time.time()
    out = {'idx': idx, 'name': case['name'], 'tags': case.get('tags', []), 'origin': case.get('origin', 'hand'), 'probe': case.get('probe'), 'inputs': [], 'src': case['src']}
    signal.signal(signal.SIGALRM, _alarm)
    signal.alarm(CASE_TIMEOUT_S)
    try:
        with tempfile.TemporaryDirectory(prefix='selftest_') as td:
            try:
                mod = load_native(case['src'], td, str(idx))
            except SyntaxError as e:
                out.update(cls='REFUSED', detail='harness: generated text does not compile: %s' % e)
                return out
            worst, wdetail = 'AGREE', ''
            if case.get('spec') is not None:
                # three-way: the closed form is also evaluated by this tool on concrete inputs
                for inp in case['inputs']:
                    native, _, _, _ = run_native(mod, 'f', inp, None)
                    want = case['spec_py'](dict(zip([p for p, _ in case['params']], inp)))
                    if native != ('value', want):
                        out.update(cls='REFUSED', detail='harness: closed form disagrees with CPython on %r: %r vs %r' % (inp, native, want))
                        return out
                cls, detail = classify_symbolic(case)
                out['inputs'].append({'input': 'symbolic', 'cls': cls, 'detail': detail})
                worst, wdetail = cls, detail
            n_run = 0
            for inp in case['inputs']:
                native, ncalls, viol, exc_lines = run_native(mod, case.get('fname', 'f'), inp, case.get('probe'))
                if native[0] == 'skip':
                    continue
                if viol:
                    continue  # the model's assumption about the argument does not hold in this run: nothing to compare
                n_run += 1
                cls, detail = classify_input(case, inp, native, ncalls, exc_lines)
                if detail.startswith('strict-safety'):
                    out['strict'] = out.get('strict', 0) + 1
                out['inputs'].append({'input': list(inp), 'native': [native[0], repr(native[1])], 'ncalls': ncalls, 'cls': cls, 'detail': detail})
                if ORDER[cls] > ORDER[worst] or (cls == worst and not wdetail):
                    worst, wdetail = cls, ('input %r: ' % (inp,) + detail) if detail else ''
            if n_run == 0 and case.get('spec') is None:
                worst, wdetail = 'REFUSED', 'harness: no usable input'
            out.update(cls=worst, detail=wdetail)
    except _Timeout:
        out.update(cls='REFUSED', detail='harness: case timed out after %d s' % CASE_TIMEOUT_S)
    except Exception:  # noqa: BLE001
        out.update(cls='REFUSED', detail='harness: crash %s' % traceback.format_exc()[-300:])
    finally:
        signal.alarm(0)
    out['seconds'] = round(time.time() - t0, 2)
    return out


def _child(idx, conn):
    try:
        conn.send(run_case(idx))
    finally:
        conn.close()


def run_all(n, procs):
    """one forked child per case (z3 does not always honour its soft timeout, and a signal cannot interrupt it): a child that
    overruns the hard deadline is killed and the case counted as REFUSED"""
    from multiprocessing.connection import wait as mp_wait

    mp = multiprocessing.get_context('fork')
    pending = list(range(n))[::-1]
    running = {}
    results = []

    def lost(idx, why):
        c = CASES[idx]
        return {'idx': idx, 'name': c['name'], 'tags': c.get('tags', []), 'origin': c.get('origin', 'hand'), 'probe': c.get('probe'), 'inputs': [], 'src': c['src'], 'cls': 'REFUSED', 'detail': why}

    while pending or running:
        while pending and len(running) < procs:
            idx = pending.pop()
            pc, cc = mp.Pipe(False)
            p = mp.Process(target=_child, args=(idx, cc), daemon=True)
            p.start()
            cc.close()
            running[pc] = (p, idx, time.time())
        for c in mp_wait(list(running), timeout=0.5):
            p, idx, t0 = running.pop(c)
            try:
                results.append(c.recv())
            except (EOFError, OSError):
                results.append(lost(idx, 'harness: worker died'))
            c.close()
            p.join(5)
        for c, (p, idx, t0) in list(running.items()):
            if time.time() - t0 > CASE_TIMEOUT_S + 30:
                p.kill()
                p.join(5)
                running.pop(c)
                c.close()
                results.append(lost(idx, 'harness: case killed after %d s (engine or solver does not return)' % (CASE_TIMEOUT_S + 30)))
    return results


# ---------------------------------------------------------------------------------------------
# main


def build_corpus(seed, n, quick):
    import selftest_corpus
    import selftest_gen

    cases = []
    for c in selftest_corpus.cases():
        cases.append(c)
    rng = random.Random(seed)
    cases.extend(selftest_gen.generate(rng, n))
    n_sym = max(10, n // 3)
    cases.extend(selftest_gen.generate_symbolic(random.Random(seed + 1), n_sym))
    for c in cases:
        if not c['src'].startswith(PRELUDE):
            c['src'] = PRELUDE + c['src']
    if quick:
        for c in cases:
            c['inputs'] = c['inputs'][:3]
    return cases


def main(argv=None):
    ap = argparse.ArgumentParser()
    ap.add_argument('--seed', type=int, default=0)
    ap.add_argument('--n', type=int, default=None, help='number of generated programs (default 600; --quick 120)')
    ap.add_argument('--quick', action='store_true')
    ap.add_argument('--json', default=None)
    ap.add_argument('--only', default=None, help='run only the cases whose name contains this text')
    ap.add_argument('--show', default='UNSOUND,FALSE-ALARM', help='classes whose cases are printed')
    ap.add_argument('-j', type=int, default=min(16, os.cpu_count() or 4))
    ap.add_argument('-v', action='store_true')
    args = ap.parse_args(argv)
    if os.environ.get('PYTHONHASHSEED') != '0':
        os.environ['PYTHONHASHSEED'] = '0'
        os.execv(sys.executable, [sys.executable] + sys.argv)
    n = args.n if args.n is not None else (120 if args.quick else 600)
    t0 = time.time()
    cases = build_corpus(args.seed, n, args.quick)
    if args.only:
        cases = [c for c in cases if args.only in c['name']]
    CASES[:] = cases  # the children are forked: they see the corpus (closed forms are closures and do not pickle)
    results = run_all(len(cases), args.j)
    results.sort(key=lambda r: r['idx'])
    hist = {'AGREE': 0, 'REFUSED': 0, 'UNSOUND': 0, 'FALSE-ALARM': 0}
    by_origin = {}
    refused = {}
    refused_tags = {}
    for r in results:
        hist[r['cls']] += 1
        o = by_origin.setdefault(r['origin'], {'AGREE': 0, 'REFUSED': 0, 'UNSOUND': 0, 'FALSE-ALARM': 0})
        o[r['cls']] += 1
        if r['cls'] == 'REFUSED':
            k = norm_reason(re.sub(r'^input \([^)]*\): ', '', r['detail']))
            refused[k] = refused.get(k, 0) + 1
            for t in r['tags'] or ['-']:
                refused_tags[t] = refused_tags.get(t, 0) + 1
    show = set(args.show.split(','))
    for r in results:
        if r['cls'] in show or args.v:
            print('%s %s [%s]%s' % (r['cls'], r['name'], ','.join(r['tags']), (' probe=' + r['probe']) if r['probe'] else ''))
            if r['cls'] != 'AGREE':
                print('    ' + r['detail'][:400])
                body = r['src'][len(PRELUDE):] if r['src'].startswith(PRELUDE) else r['src']
                for line in body.rstrip().splitlines()[:40]:
                    print('    | ' + line)
    print('corpus: %d cases (%s)' % (len(results), ', '.join('%s %d' % (k, sum(v.values())) for k, v in sorted(by_origin.items()))))
    for k, v in sorted(by_origin.items()):
        print('  %-10s agree=%d refused=%d unsound=%d false-alarm=%d' % (k, v['AGREE'], v['REFUSED'], v['UNSOUND'], v['FALSE-ALARM']))
    print('HISTOGRAM agree=%d refused=%d unsound=%d false-alarm=%d' % (hist['AGREE'], hist['REFUSED'], hist['UNSOUND'], hist['FALSE-ALARM']))
    if refused:
        print('REFUSED by reason:')
        for k, v in sorted(refused.items(), key=lambda kv: (-kv[1], kv[0])):
            print('  %4d  %s' % (v, k))
        print('REFUSED by construct tag:')
        print('  ' + ', '.join('%s=%d' % (k, v) for k, v in sorted(refused_tags.items(), key=lambda kv: (-kv[1], kv[0]))))
    print('wall %.1fs' % (time.time() - t0))
    if args.json:
        with open(args.json, 'w') as f:
            json.dump({'seed': args.seed, 'n': n, 'histogram': hist, 'by_origin': by_origin, 'refused_by_reason': refused, 'refused_by_tag': refused_tags, 'cases': [{k: v for k, v in r.items()} for r in results]}, f, indent=1, default=str)
    return 0 if hist['UNSOUND'] == 0 and hist['FALSE-ALARM'] == 0 else 1


if __name__ == '__main__':
    sys.exit(main())
