"""Random program generators for tools/engine_selftest.py.

generate(rng, n): statement-level programs over ints a, b (locals x, y, z, t) from a typed grammar: arithmetic incl. // % divmod
with negative operands, min/max/abs/len/int/bool, comparisons incl. chained, and/or/not incl. value-returning `x or y`,
conditional expressions, walrus, tuples and subscripts, dict displays with literal keys, if/elif/else, try/except/else/finally
with raise of builtin exception classes, early returns inside try/finally, augmented assignment, tuple unpacking, nested defs
and lambdas, a few loops (which the engine refuses without an invariant: counted, not hidden).  A third of the programs call the
stub probe(<int expr>) at random places (random probe model).

generate_symbolic(rng, n): loop-free, exception-free integer programs generated TOGETHER with their closed form: an expression
tree is rendered (1) as Python statements using if-statements, conditional expressions, short-circuit operators, early returns,
try/finally, nested defs, and (2) by `tree_z3` as a z3 term / by `tree_py` as a Python value - neither uses the engine.
"""
import z3

INTS2 = [(0, 0), (1, -1), (-2, 3), (3, 2), (-1, -3), (5, 0), (2, 2), (-4, 1)]
EXCS = ['ValueError', 'KeyError', 'IndexError', 'ZeroDivisionError', 'TypeError', 'RuntimeError', 'LookupError', 'ArithmeticError', 'Exception']
HANDLERS = EXCS + ['(KeyError, ValueError)', '(IndexError, ZeroDivisionError)', 'BaseException', 'OSError']


class G:
    def __init__(self, rng, probe):
        self.rng = rng
        self.probe = probe
        self.tags = set()
        self.ivars = ['a', 'b', 'x', 'y', 'z']
        self.funcs = []  # nested defs / lambdas in scope: (name, arity)
        self.depth_stmt = 0
        self.in_loop = 0
        self.n_loops = 0

    def tag(self, t):
        self.tags.add(t)

    def pick(self, weighted):
        tot = sum(w for _, w in weighted)
        r = self.rng.random() * tot
        for v, w in weighted:
            r -= w
            if r <= 0:
                return v
        return weighted[-1][0]

    # ---- expressions
    def const(self):
        return str(self.rng.choice([0, 1, 2, 3, -1, -2, 5, 7, -3]))

    def iexpr(self, d):
        r = self.rng
        if d <= 0:
            return self.pick([(r.choice(self.ivars), 5), (self.const(), 3)])
        k = self.pick([
            ('leaf', 6), ('add', 4), ('sub', 3), ('mul', 2), ('fdiv', 3), ('mod', 3), ('neg', 1), ('abs', 1), ('minmax', 2), ('ifexp', 4), ('orval', 2), ('andval', 2),
            ('walrus', 1), ('tupidx', 2), ('tuplen', 1), ('intbool', 2), ('divmod', 1), ('lambda', 1), ('call', 2 if self.funcs else 0), ('dict', 1), ('probe', 4 if self.probe else 0),
            ('booladd', 1), ('pow', 0.5), ('listidx', 1),
        ])
        e = lambda: self.iexpr(d - 1)
        if k == 'leaf':
            return self.iexpr(0)
        if k == 'add':
            return '(%s + %s)' % (e(), e())
        if k == 'sub':
            return '(%s - %s)' % (e(), e())
        if k == 'mul':
            return '(%s * %s)' % (e(), self.const())
        if k == 'fdiv':
            self.tag('floordiv')
            return '(%s // %s)' % (e(), self.pick([(self.const(), 3), (e(), 2)]))
        if k == 'mod':
            self.tag('mod')
            return '(%s %% %s)' % (e(), self.pick([(self.const(), 3), (e(), 2)]))
        if k == 'neg':
            return '(-%s)' % e()
        if k == 'abs':
            return 'abs(%s)' % e()
        if k == 'minmax':
            self.tag('minmax')
            return '%s(%s, %s)' % (r.choice(['min', 'max']), e(), e())
        if k == 'ifexp':
            self.tag('ifexp')
            return '(%s if %s else %s)' % (e(), self.bexpr(d - 1), e())
        if k == 'orval':
            self.tag('boolop-value')
            return '(%s or %s)' % (e(), e())
        if k == 'andval':
            self.tag('boolop-value')
            return '(%s and %s)' % (e(), e())
        if k == 'walrus':
            self.tag('walrus')
            return '(%s := %s)' % (r.choice(['x', 'y', 'z']), e())
        if k == 'tupidx':
            self.tag('tuple-subscript')
            n = r.randint(1, 3)
            return '(%s)[%s]' % (''.join(e() + ', ' for _ in range(n)), self.pick([(str(r.randint(-n, n - 1)), 4), (str(n), 0.5), ('(%s %% %d)' % (e(), n), 1)]))
        if k == 'listidx':
            self.tag('list-subscript')
            n = r.randint(1, 3)
            return '[%s][%s]' % (', '.join(e() for _ in range(n)), str(r.randint(-n, n)))
        if k == 'tuplen':
            return 'len((%s))' % ''.join(e() + ', ' for _ in range(r.randint(0, 3)))
        if k == 'intbool':
            self.tag('int-bool')
            return self.pick([('int(%s)' % self.bexpr(d - 1), 2), ('(%s + 1)' % self.bexpr(d - 1), 1), ('int(%s)' % e(), 1)])
        if k == 'booladd':
            return '(%s + %s)' % (self.bexpr(d - 1), self.bexpr(d - 1))
        if k == 'divmod':
            self.tag('divmod')
            return 'divmod(%s, %s)[%d]' % (e(), self.pick([(self.const(), 3), (e(), 1)]), r.randint(0, 1))
        if k == 'lambda':
            self.tag('lambda')
            return '(lambda u: %s)(%s)' % (self.with_var('u', lambda: self.iexpr(d - 1)), e())
        if k == 'call':
            self.tag('local-call')
            name, ar = r.choice(self.funcs)
            return '%s(%s)' % (name, ', '.join(e() for _ in range(ar)))
        if k == 'dict':
            self.tag('dict')
            return "{'k': %s, 'j': %s}[%s]" % (e(), e(), r.choice(["'k'", "'j'", "'k'", "'q'"]))
        if k == 'probe':
            self.tag('probe')
            return 'probe(%s)' % e()
        if k == 'pow':
            return '(%s ** 2)' % e()
        raise AssertionError(k)

    def with_var(self, v, fn):
        self.ivars.append(v)
        try:
            return fn()
        finally:
            self.ivars.pop()

    def bexpr(self, d):
        r = self.rng
        if d <= 0:
            return '%s %s %s' % (self.iexpr(0), r.choice(['<', '<=', '>', '>=', '==', '!=']), self.iexpr(0))
        k = self.pick([('cmp', 6), ('chain', 3), ('not', 2), ('and', 3), ('or', 3), ('in', 2), ('const', 0.5), ('bool', 1), ('isnone', 0.5), ('indict', 0.5)])
        e = lambda: self.iexpr(d - 1)
        b = lambda: self.bexpr(d - 1)
        if k == 'cmp':
            return '(%s %s %s)' % (e(), r.choice(['<', '<=', '>', '>=', '==', '!=']), e())
        if k == 'chain':
            self.tag('chained-compare')
            return '(%s %s %s %s %s)' % (e(), r.choice(['<', '<=', '==', '!=']), e(), r.choice(['<', '<=', '>', '!=']), e())
        if k == 'not':
            return '(not %s)' % self.pick([(b(), 3), (e(), 1)])
        if k == 'and':
            self.tag('boolop')
            return '(%s and %s)' % (b(), b())
        if k == 'or':
            self.tag('boolop')
            return '(%s or %s)' % (b(), b())
        if k == 'in':
            self.tag('in')
            return '(%s %s (%s))' % (e(), r.choice(['in', 'not in']), ''.join(e() + ', ' for _ in range(r.randint(0, 3))))
        if k == 'const':
            return r.choice(['True', 'False'])
        if k == 'bool':
            return 'bool(%s)' % e()
        if k == 'isnone':
            return '(%s %s None)' % (e(), r.choice(['is', 'is not']))
        if k == 'indict':
            return "(%s in {'k': 1, 'j': 2})" % r.choice(["'k'", "'q'"])
        raise AssertionError(k)

    # ---- statements
    def block(self, d, n=None):
        n = n if n is not None else self.rng.randint(1, 3)
        out = []
        for _ in range(n):
            out.extend(self.stmt(d))
        return out or ['pass']

    def ind(self, lines):
        return ['    ' + l for l in lines]

    def stmt(self, d):
        r = self.rng
        lv = lambda: r.choice(['x', 'y', 'z'])
        k = self.pick([
            ('assign', 8), ('aug', 4), ('unpack', 2), ('if', 5 if d > 0 else 0), ('try', 4 if d > 0 else 0), ('return', 1.5), ('raise', 1), ('assert', 0.7),
            ('def', 1.2 if d > 0 and len(self.funcs) < 2 else 0), ('lam', 0.8 if len(self.funcs) < 2 else 0), ('loop', 0.5 if d > 0 and self.n_loops < 1 else 0), ('expr', 1 if self.probe else 0),
            ('brk', 1.5 if self.in_loop else 0), ('list', 1), ('pass', 0.3),
        ])
        if k == 'assign':
            return ['%s = %s' % (lv(), self.iexpr(2))]
        if k == 'aug':
            self.tag('augassign')
            return ['%s %s= %s' % (lv(), r.choice(['+', '-', '*', '//', '%']), self.iexpr(1))]
        if k == 'unpack':
            self.tag('unpack')
            a, b = r.sample(['x', 'y', 'z'], 2)
            return ['%s, %s = %s, %s' % (a, b, self.iexpr(1), self.iexpr(1))]
        if k == 'list':
            self.tag('list')
            return ['t = [%s, %s]' % (self.iexpr(1), self.iexpr(1)), 't[%d] %s %s' % (r.randint(-2, 1), r.choice(['=', '+=']), self.iexpr(1)), '%s = t[%d]' % (lv(), r.randint(0, 1))]
        if k == 'if':
            self.tag('if')
            out = ['if %s:' % self.bexpr(2)] + self.ind(self.block(d - 1))
            if r.random() < 0.3:
                out += ['elif %s:' % self.bexpr(1)] + self.ind(self.block(d - 1))
            if r.random() < 0.6:
                out += ['else:'] + self.ind(self.block(d - 1))
            return out
        if k == 'try':
            self.tag('try')
            out = ['try:'] + self.ind(self.block(d - 1))
            shape = self.pick([('except', 4), ('finally', 2), ('both', 3)])
            if shape in ('except', 'both'):
                for _ in range(r.randint(1, 2)):
                    h = r.choice(HANDLERS)
                    out += ['except %s:' % h] + self.ind(self.block(d - 1, 1) + (['raise'] if r.random() < 0.1 else []))
                if r.random() < 0.3:
                    self.tag('try-else')
                    out += ['else:'] + self.ind(self.block(d - 1, 1))
            if shape in ('finally', 'both'):
                self.tag('finally')
                out += ['finally:'] + self.ind(self.block(d - 1, 1))
            return out
        if k == 'return':
            self.tag('early-return')
            return ['return %s' % self.iexpr(2)]
        if k == 'raise':
            self.tag('raise')
            return ['raise %s' % r.choice(EXCS)]
        if k == 'assert':
            self.tag('assert')
            return ['assert %s' % self.bexpr(1)]
        if k == 'def':
            self.tag('nested-def')
            name = 'g%d' % len(self.funcs)
            dflt = r.random() < 0.3
            hdr = 'def %s(u%s):' % (name, (', v=%s' % self.iexpr(1)) if dflt else ', v')
            saved_funcs = list(self.funcs)
            self.ivars += ['u', 'v']
            inner_loop, self.in_loop = self.in_loop, 0
            body = []
            for _ in range(r.randint(0, 2)):
                s = self.pick([('w = %s' % self.iexpr(1), 2), ('if', 2)])
                if s == 'if':
                    body += ['if %s:' % self.bexpr(1), '    return %s' % self.iexpr(1)]
                else:
                    body += [s]
                    if 'w' not in self.ivars:
                        self.ivars.append('w')
            body += ['return %s' % self.iexpr(2)]
            self.ivars = [v for v in self.ivars if v not in ('u', 'v', 'w')]
            self.in_loop = inner_loop
            self.funcs = saved_funcs + [(name, 1 if dflt and r.random() < 0.5 else 2)]
            return [hdr] + self.ind(body)
        if k == 'lam':
            self.tag('lambda')
            name = 'h%d' % len(self.funcs)
            body = self.with_var('u', lambda: self.iexpr(2))
            self.funcs.append((name, 1))
            return ['%s = lambda u: %s' % (name, body)]
        if k == 'loop':
            self.n_loops += 1
            self.in_loop += 1
            try:
                if r.random() < 0.5:
                    self.tag('for')
                    out = ['for i in %s:' % r.choice(['range(3)', '(1, 2, 3)', 'range(a)', '[x, y]'])] + self.ind(self.block(d - 1))
                else:
                    self.tag('while')
                    out = ['i = 0', 'while i < %s:' % r.choice(['3', '2', 'a'])] + self.ind(['i += 1'] + self.block(d - 1))
            finally:
                self.in_loop -= 1
            if r.random() < 0.3:
                self.tag('loop-else')
                out += ['else:'] + self.ind(self.block(d - 1, 1))
            return out
        if k == 'brk':
            return ['if %s:' % self.bexpr(1), '    ' + r.choice(['break', 'continue'])]
        if k == 'expr':
            return [self.iexpr(2)]
        return ['pass']

    def program(self):
        body = ['x = a', 'y = b', 'z = %s' % self.const()]
        body += self.block(2, self.rng.randint(2, 5))
        ret = self.pick([(self.iexpr(2), 5), ('(%s, %s)' % (self.iexpr(1), self.iexpr(1)), 1), (self.bexpr(2), 1.5), ('(x, y, z)', 1)])
        body += ['return %s' % ret]
        return 'def f(a, b):\n' + '\n'.join('    ' + l for l in body) + '\n'


def generate(rng, n):
    out = []
    for i in range(n):
        use_probe = rng.random() < 0.35
        mode = rng.choice(['count', 'assume', 'fork']) if use_probe else None
        g = G(rng, use_probe)
        src = g.program()
        if use_probe and 'probe(' not in src:
            mode = None
        inputs = list(INTS2)
        rng.shuffle(inputs)
        out.append(dict(name='gen-%04d%s' % (i, ('/' + mode) if mode else ''), tags=sorted(g.tags), src=src, params=[('a', 'int'), ('b', 'int')], inputs=inputs[:5], probe=mode, origin='gen-probe' if mode else 'gen'))
    return out


# ---------------------------------------------------------------------------------------------
# programs with a closed form


def pdiv(a, d):
    return a // d


def zdiv(a, d):
    """Python floor division as a z3 term (z3's div rounds so that the remainder is non-negative)"""
    if isinstance(d, int):
        return a / d if d > 0 else (-a) / (-d)
    return z3.If(d > 0, a / d, (-a) / (-d))


class T:
    """expression tree: ('const', k) ('var', n) ('add'|'sub'|'mul', l, r) ('fdiv'|'mod', l, k) ('neg'|'abs', x) ('min'|'max', l, r)
    ('ite', c, x, y) ('orv'|'andv', x, y); conditions: ('lt'|'le'|'eq'|'ne', l, r) ('and'|'or', c, c) ('not', c) ('chain', l, m, r)
    ('truthy', x)"""


def gen_tree(rng, d, kind='int'):
    if kind == 'int':
        if d <= 0:
            return rng.choice([('var', 'a'), ('var', 'b'), ('const', rng.choice([0, 1, 2, -1, 3, -2, 5]))])
        k = rng.choice(['add', 'sub', 'mul', 'fdiv', 'mod', 'neg', 'abs', 'min', 'max', 'ite', 'ite', 'ite', 'orv', 'andv', 'leaf', 'fdivpos'])
        if k == 'leaf':
            return gen_tree(rng, 0)
        if k in ('add', 'sub', 'min', 'max'):
            return (k, gen_tree(rng, d - 1), gen_tree(rng, d - 1))
        if k == 'mul':
            return ('mul', gen_tree(rng, d - 1), ('const', rng.choice([2, -1, 3, -2])))
        if k in ('fdiv', 'mod'):
            return (k, gen_tree(rng, d - 1), ('const', rng.choice([2, 3, -2, -3, 1, -1, 4])))
        if k == 'fdivpos':
            # a symbolic, provably positive divisor
            return (rng.choice(['fdiv', 'mod']), gen_tree(rng, d - 1), ('add', ('abs', gen_tree(rng, d - 1)), ('const', rng.choice([1, 2]))))
        if k in ('neg', 'abs'):
            return (k, gen_tree(rng, d - 1))
        if k == 'ite':
            return ('ite', gen_tree(rng, d - 1, 'bool'), gen_tree(rng, d - 1), gen_tree(rng, d - 1))
        return (k, gen_tree(rng, d - 1), gen_tree(rng, d - 1))
    if d <= 0:
        return (rng.choice(['lt', 'le', 'eq', 'ne']), gen_tree(rng, 0), gen_tree(rng, 0))
    k = rng.choice(['lt', 'le', 'eq', 'ne', 'and', 'or', 'not', 'chain', 'truthy'])
    if k in ('lt', 'le', 'eq', 'ne'):
        return (k, gen_tree(rng, d - 1), gen_tree(rng, d - 1))
    if k in ('and', 'or'):
        return (k, gen_tree(rng, d - 1, 'bool'), gen_tree(rng, d - 1, 'bool'))
    if k == 'not':
        return ('not', gen_tree(rng, d - 1, 'bool'))
    if k == 'chain':
        return ('chain', gen_tree(rng, d - 1), gen_tree(rng, d - 1), gen_tree(rng, d - 1))
    return ('truthy', gen_tree(rng, d - 1))


def tree_py(t, env):
    k = t[0]
    ev = lambda x: tree_py(x, env)
    if k == 'const':
        return t[1]
    if k == 'var':
        return env[t[1]]
    if k == 'add':
        return ev(t[1]) + ev(t[2])
    if k == 'sub':
        return ev(t[1]) - ev(t[2])
    if k == 'mul':
        return ev(t[1]) * ev(t[2])
    if k == 'fdiv':
        return ev(t[1]) // ev(t[2])
    if k == 'mod':
        return ev(t[1]) % ev(t[2])
    if k == 'neg':
        return -ev(t[1])
    if k == 'abs':
        return abs(ev(t[1]))
    if k == 'min':
        return min(ev(t[1]), ev(t[2]))
    if k == 'max':
        return max(ev(t[1]), ev(t[2]))
    if k == 'ite':
        return ev(t[2]) if ev(t[1]) else ev(t[3])
    if k == 'orv':
        return ev(t[1]) or ev(t[2])
    if k == 'andv':
        return ev(t[1]) and ev(t[2])
    if k == 'lt':
        return ev(t[1]) < ev(t[2])
    if k == 'le':
        return ev(t[1]) <= ev(t[2])
    if k == 'eq':
        return ev(t[1]) == ev(t[2])
    if k == 'ne':
        return ev(t[1]) != ev(t[2])
    if k == 'and':
        return ev(t[1]) and ev(t[2])
    if k == 'or':
        return ev(t[1]) or ev(t[2])
    if k == 'not':
        return not ev(t[1])
    if k == 'chain':
        return ev(t[1]) < ev(t[2]) <= ev(t[3])
    if k == 'truthy':
        return bool(ev(t[1]))
    raise AssertionError(k)


def tree_z3(t, env):
    k = t[0]
    ev = lambda x: tree_z3(x, env)
    if k == 'const':
        return z3.IntVal(t[1])
    if k == 'var':
        return env[t[1]]
    if k == 'add':
        return ev(t[1]) + ev(t[2])
    if k == 'sub':
        return ev(t[1]) - ev(t[2])
    if k == 'mul':
        return ev(t[1]) * ev(t[2])
    if k == 'fdiv':
        return zdiv(ev(t[1]), t[2][1] if t[2][0] == 'const' else ev(t[2]))
    if k == 'mod':
        a, dd = ev(t[1]), (t[2][1] if t[2][0] == 'const' else ev(t[2]))
        return a - dd * zdiv(a, dd)
    if k == 'neg':
        return -ev(t[1])
    if k == 'abs':
        x = ev(t[1])
        return z3.If(x >= 0, x, -x)
    if k == 'min':
        x, y = ev(t[1]), ev(t[2])
        return z3.If(x <= y, x, y)
    if k == 'max':
        x, y = ev(t[1]), ev(t[2])
        return z3.If(x >= y, x, y)
    if k == 'ite':
        return z3.If(ev(t[1]), ev(t[2]), ev(t[3]))
    if k == 'orv':
        x = ev(t[1])
        return z3.If(x != 0, x, ev(t[2]))
    if k == 'andv':
        x = ev(t[1])
        return z3.If(x != 0, ev(t[2]), x)
    if k == 'lt':
        return ev(t[1]) < ev(t[2])
    if k == 'le':
        return ev(t[1]) <= ev(t[2])
    if k == 'eq':
        return ev(t[1]) == ev(t[2])
    if k == 'ne':
        return ev(t[1]) != ev(t[2])
    if k == 'and':
        return z3.And(ev(t[1]), ev(t[2]))
    if k == 'or':
        return z3.Or(ev(t[1]), ev(t[2]))
    if k == 'not':
        return z3.Not(ev(t[1]))
    if k == 'chain':
        return z3.And(ev(t[1]) < ev(t[2]), ev(t[2]) <= ev(t[3]))
    if k == 'truthy':
        return ev(t[1]) != 0
    raise AssertionError(k)


class R:
    """renders a tree as Python; conditionals are rendered in one of several statement-level styles, hoisting their value into
    a fresh temporary (the trees are pure and total, so evaluation order does not matter)"""

    def __init__(self, rng):
        self.rng = rng
        self.pre = []  # statements emitted before the expression being built
        self.n = 0
        self.tags = set()

    def tmp(self):
        self.n += 1
        return 't%d' % self.n

    def sub(self, t):
        """render t in a nested renderer: returns (statements, expr)"""
        saved, self.pre = self.pre, []
        e = self.e(t)
        st, self.pre = self.pre, saved
        return st, e

    def e(self, t):
        k = t[0]
        e = self.e
        if k == 'const':
            return '(%d)' % t[1]
        if k == 'var':
            return t[1]
        if k in ('add', 'sub', 'mul', 'fdiv', 'mod'):
            op = {'add': '+', 'sub': '-', 'mul': '*', 'fdiv': '//', 'mod': '%'}[k]
            if k in ('fdiv', 'mod') and self.rng.random() < 0.2:
                self.tags.add('divmod')
                l = e(t[1])
                return 'divmod(%s, %s)[%d]' % (l, e(t[2]), 0 if k == 'fdiv' else 1)
            if self.rng.random() < 0.15:
                self.tags.add('augassign')
                v = self.tmp()
                l = e(t[1])
                self.pre.append('%s = %s' % (v, l))
                self.pre.append('%s %s= %s' % (v, op, e(t[2])))
                return v
            l = e(t[1])
            return '(%s %s %s)' % (l, op, e(t[2]))
        if k == 'neg':
            return '(-%s)' % e(t[1])
        if k == 'abs':
            return 'abs(%s)' % e(t[1])
        if k in ('min', 'max'):
            l = e(t[1])
            return '%s(%s, %s)' % (k, l, e(t[2]))
        if k == 'orv':
            self.tags.add('boolop-value')
            sl, l = self.sub(t[1])
            sr, rr = self.sub(t[2])
            self.pre += sl + sr
            return '(%s or %s)' % (l, rr)
        if k == 'andv':
            self.tags.add('boolop-value')
            sl, l = self.sub(t[1])
            sr, rr = self.sub(t[2])
            self.pre += sl + sr
            return '(%s and %s)' % (l, rr)
        if k == 'ite':
            style = self.rng.choice(['ifexp', 'ifexp', 'stmt', 'stmt', 'def', 'tryfin', 'walrus', 'tuple'])
            sc, c = self.sub(t[1])
            sx, x = self.sub(t[2])
            sy, y = self.sub(t[3])
            self.pre += sc
            self.tags.add('ite-' + style)
            if style == 'ifexp' or (style in ('walrus', 'tuple') and (sx or sy)):
                self.pre += sx + sy
                return '(%s if %s else %s)' % (x, c, y)
            v = self.tmp()
            ind = lambda ls: ['    ' + l for l in ls]
            if style == 'stmt':
                self.pre += ['if %s:' % c] + ind(sx + ['%s = %s' % (v, x)]) + ['else:'] + ind(sy + ['%s = %s' % (v, y)])
                return v
            if style == 'def':
                g = 'g' + v
                self.pre += ['def %s():' % g] + ind(['if %s:' % c] + ind(sx + ['return %s' % x]) + sy + ['return %s' % y]) + ['%s = %s()' % (v, g)]
                return v
            if style == 'tryfin':
                w = self.tmp()
                self.pre += ['%s = 0' % w, 'try:'] + ind(['if not %s:' % c] + ind(sy + ['%s = %s' % (v, y)]) + ['else:'] + ind(sx + ['%s = %s' % (v, x)])) + ['finally:'] + ind(['%s = %s' % (w, v)])
                return w
            if style == 'walrus':
                return '((%s := %s) if %s else (%s := %s))' % (v, x, c, v, y)
            if style == 'tuple':
                return '(%s, %s)[0 if %s else 1]' % (x, y, c)
        # conditions
        if k in ('lt', 'le', 'eq', 'ne'):
            op = {'lt': '<', 'le': '<=', 'eq': '==', 'ne': '!='}[k]
            l = e(t[1])
            return '(%s %s %s)' % (l, op, e(t[2]))
        if k in ('and', 'or'):
            sl, l = self.sub(t[1])
            sr, rr = self.sub(t[2])
            self.pre += sl + sr
            return '(%s %s %s)' % (l, k, rr)
        if k == 'not':
            return '(not %s)' % e(t[1])
        if k == 'chain':
            self.tags.add('chained-compare')
            l = e(t[1])
            m = e(t[2])
            return '(%s < %s <= %s)' % (l, m, e(t[3]))
        if k == 'truthy':
            style = self.rng.choice(['bool', 'ne', 'notnot'])
            x = e(t[1])
            return {'bool': 'bool(%s)', 'ne': '(%s != 0)', 'notnot': '(not not %s)'}[style] % x
        raise AssertionError(k)


def generate_symbolic(rng, n):
    out = []
    for i in range(n):
        tree = gen_tree(rng, rng.randint(2, 4))
        r = R(rng)
        e = r.e(tree)
        body = r.pre + ['return %s' % e]
        src = 'def f(a, b):\n' + '\n'.join('    ' + l for l in body) + '\n'
        inputs = list(INTS2)
        rng.shuffle(inputs)
        out.append(dict(name='sym-%04d' % i, tags=sorted(r.tags) + ['symbolic'], src=src, params=[('a', 'int'), ('b', 'int')], inputs=inputs[:4], probe=None, origin='symbolic',
                        spec=(lambda tree: lambda env: tree_z3(tree, env))(tree), spec_py=(lambda tree: lambda env: tree_py(tree, env))(tree)))
    return out
