"""CLI: python3-vt -m vc.check <Cxx> [--tier quick|thorough]"""
from __future__ import annotations

import argparse
import importlib
import json
import os
import sys
import time
import traceback

from . import core


def main(argv=None) -> int:
    if argv is None and os.environ.get('PYTHONHASHSEED') != '0':
        # pin str hashing so that set/dict iteration order, and with it the order and numbering of the generated
        # obligations, is the same on every run
        os.environ['PYTHONHASHSEED'] = '0'
        os.execv(sys.executable, [sys.executable, '-m', 'vc.check'] + sys.argv[1:])
    ap = argparse.ArgumentParser()
    ap.add_argument('pid')
    ap.add_argument('--tier', default=os.environ.get('VERIF_TIER', 'quick'))
    args = ap.parse_args(argv)
    tier = 'thorough' if args.tier == 'thorough' else 'quick'
    try:
        seed = int(os.environ.get('VERIF_SEED', '0'))
    except ValueError:
        seed = 0
    pid = args.pid
    ctx = core.Ctx(pid, tier, seed)
    cmd = 'python3-vt -m vc.check %s --tier %s' % (pid, tier)
    ev_path = os.path.join(core.EVIDENCE_DIR, pid + '.json')
    try:
        if os.path.exists(ev_path):
            os.unlink(ev_path)
    except OSError:
        pass
    mod = None
    try:
        mod = importlib.import_module('contracts.' + pid)
        mod.build(ctx)
        if tier == 'thorough':
            # discharge first so cross_check can compare; finish() skips non-pending obligations
            core.discharge(ctx.obls)
            ctx.extra['cross_check'] = core.cross_check(ctx.obls)
            if ctx.extra['cross_check']['disagree']:
                print('CHECKER-ERROR property=%s solver disagreement: %s' % (pid, ctx.extra['cross_check']['disagree'][:3]))
                core.finish(ctx, cmd)
                return 3
            if hasattr(mod, 'thorough'):
                mod.thorough(ctx)
        return core.finish(ctx, cmd)
    except core.Undecided as e:
        if _witness_instead(ctx, mod, 'contracts no longer apply to the code (%s)' % e, cmd):
            return 1
        print('UNDECIDED property=%s %s' % (pid, e))
        _fallback_evidence(ctx, cmd, 'undecided: %s' % e)
        return 2
    except core.CheckerBug as e:
        if _witness_instead(ctx, mod, 'contracts no longer apply to the code (%s)' % e, cmd):
            return 1
        print('CHECKER-ERROR property=%s %s' % (pid, e))
        _fallback_evidence(ctx, cmd, 'checker error: %s' % e)
        return 3
    except Exception:
        traceback.print_exc()
        print('CHECKER-ERROR property=%s internal exception' % pid)
        _fallback_evidence(ctx, cmd, 'checker crash')
        return 3


def _witness_instead(ctx, mod, why, cmd):
    """The code changed so much that the contracts cannot be applied (anchor moved, loop structure changed, syntax outside the
    subset): that alone is UNDECIDED.  If the property's native witness search finds a failing input on the real code, the
    property is violated whatever the contracts say - report it (refutations that replay on the real code are always sound)."""
    # obligations already decided on the AST before the contracts stopped applying (frame scans, closed-world scans) stand
    bad = [o for o in ctx.obls if o.status == 'failed' and o.backend == 'syntactic' and o.kind not in ('canary', 'vacuity')]
    findings = core.load_known_findings()
    bad = [o for o in bad if core.match_known(ctx.pid, o.name, findings) is None]
    if bad:
        os.makedirs(os.path.join(core.VERIF, 'replays'), exist_ok=True)
        # a failing input from the native search, when there is one, goes into the replay files of these obligations
        replay = None
        ws0 = getattr(mod, 'native_witness', None) if mod is not None else None
        if ws0 is not None:
            try:
                r0 = ws0(ctx)
                replay = r0 if isinstance(r0, dict) and r0.get('confirmed') else None
            except Exception:  # pylint: disable=broad-except
                traceback.print_exc()
        for o in bad:
            import re as _re
            path = os.path.join(core.VERIF, 'replays', '%s-%s.json' % (ctx.pid, _re.sub(r'[^A-Za-z0-9_.-]+', '_', o.name)[-120:]))
            json.dump({'property': ctx.pid, 'obligation': o.name, 'kind': o.kind, 'solver': 'syntactic', 'solver_output': o.detail, 'note': 'decided on the real AST; the remaining contracts could not be applied: ' + why, 'replay': replay}, open(path, 'w'), indent=1, default=str)
            print('VIOLATION property=%s replay=%s%s' % (ctx.pid, path, '' if replay else ' no-failing-input-found'))
            print('  failed obligation: %s' % o.name)
            if replay:
                print('  failing input found by the native search on the real code: %s' % json.dumps(replay.get('input', replay.get('what')), default=str)[:300])
        _fallback_evidence(ctx, cmd, 'violation of %d syntactic obligation(s); %s' % (len(bad), why), violations=len(bad))
        return True
    ws = getattr(mod, 'native_witness', None) if mod is not None else None
    if ws is None:
        return False
    try:
        r = ws(ctx)
    except Exception:
        traceback.print_exc()
        return False
    if not (isinstance(r, dict) and r.get('confirmed')):
        return False
    os.makedirs(os.path.join(core.VERIF, 'replays'), exist_ok=True)
    path = os.path.join(core.VERIF, 'replays', '%s-witness-without-contract.json' % ctx.pid)
    json.dump({'property': ctx.pid, 'obligation': '%s/contracts-not-applicable' % ctx.pid, 'why_no_obligation': why, 'replay': r}, open(path, 'w'), indent=1, default=str)
    print('VIOLATION property=%s replay=%s' % (ctx.pid, path))
    print('  %s; failing input found by the native search on the real code: %s' % (why[:200], json.dumps(r.get('input', r.get('what')), default=str)[:300]))
    _fallback_evidence(ctx, cmd, 'violation by native witness; %s' % why, violations=1)
    return True


def _fallback_evidence(ctx, cmd, why, violations=0):
    ev = {
        'property_id': ctx.pid,
        'tier': ctx.tier,
        'seed': ctx.seed,
        'level': 'other',
        'coverage': {'explanation': why, 'checker_cmd': cmd},
        'assumptions': ctx.assumptions,
        'wall_s': round(time.time() - ctx.t0, 3),
        'violations': violations,
    }
    os.makedirs(core.EVIDENCE_DIR, exist_ok=True)
    json.dump(ev, open(os.path.join(core.EVIDENCE_DIR, ctx.pid + '.json'), 'w'), indent=1)


if __name__ == '__main__':
    sys.exit(main())
