"""CLI: python3-vt -m vc.check <Cxx> [--tier quick|thorough]"""
from __future__ import annotations

import argparse
import importlib
import json
import os
import sys
import time
import traceback

from . import core


def main(argv=None) -> int:
    if argv is None and os.environ.get('PYTHONHASHSEED') != '0':
        # pin str hashing so that set/dict iteration order, and with it the order and numbering of the generated
        # obligations, is the same on every run
        os.environ['PYTHONHASHSEED'] = '0'
        os.execv(sys.executable, [sys.executable, '-m', 'vc.check'] + sys.argv[1:])
    ap = argparse.ArgumentParser()
    ap.add_argument('pid')
    ap.add_argument('--tier', default=os.environ.get('VERIF_TIER', 'quick'))
    args = ap.parse_args(argv)
    tier = 'thorough' if args.tier == 'thorough' else 'quick'
    try:
        seed = int(os.environ.get('VERIF_SEED', '0'))
    except ValueError:
        seed = 0
    pid = args.pid
    ctx = core.Ctx(pid, tier, seed)
    cmd = 'python3-vt -m vc.check %s --tier %s' % (pid, tier)
    ev_path = os.path.join(core.EVIDENCE_DIR, pid + '.json')
    try:
        if os.path.exists(ev_path):
            os.unlink(ev_path)
    except OSError:
        pass
    try:
        mod = importlib.import_module('contracts.' + pid)
        mod.build(ctx)
        if tier == 'thorough':
            # discharge first so cross_check can compare; finish() skips non-pending obligations
            core.discharge(ctx.obls)
            ctx.extra['cross_check'] = core.cross_check(ctx.obls)
            if ctx.extra['cross_check']['disagree']:
                print('CHECKER-ERROR property=%s solver disagreement: %s' % (pid, ctx.extra['cross_check']['disagree'][:3]))
                core.finish(ctx, cmd)
                return 3
            if hasattr(mod, 'thorough'):
                mod.thorough(ctx)
        return core.finish(ctx, cmd)
    except core.Undecided as e:
        print('UNDECIDED property=%s %s' % (pid, e))
        _fallback_evidence(ctx, cmd, 'undecided: %s' % e)
        return 2
    except core.CheckerBug as e:
        print('CHECKER-ERROR property=%s %s' % (pid, e))
        _fallback_evidence(ctx, cmd, 'checker error: %s' % e)
        return 3
    except Exception:
        traceback.print_exc()
        print('CHECKER-ERROR property=%s internal exception' % pid)
        _fallback_evidence(ctx, cmd, 'checker crash')
        return 3


def _fallback_evidence(ctx, cmd, why):
    ev = {
        'property_id': ctx.pid,
        'tier': ctx.tier,
        'seed': ctx.seed,
        'level': 'other',
        'coverage': {'explanation': why, 'checker_cmd': cmd},
        'assumptions': ctx.assumptions,
        'wall_s': round(time.time() - ctx.t0, 3),
        'violations': 0,
    }
    os.makedirs(core.EVIDENCE_DIR, exist_ok=True)
    json.dump(ev, open(os.path.join(core.EVIDENCE_DIR, ctx.pid + '.json'), 'w'), indent=1)


if __name__ == '__main__':
    sys.exit(main())
