"""AST for the MySQL subset used by the Hail batch service.

This module only defines data: dataclasses for expressions, table references,
queries, statements, stored routines and table schemas, plus three generic
services every node offers:

  * ``children()`` / ``walk()``   generic traversal (driven by dataclass fields)
  * ``to_sql()``                  pretty printer, re-parseable by vc.sqlparse
  * ``same_expr(a, b)``           syntactic equality modulo whitespace, keyword
                                  case, redundant parentheses and (by default)
                                  identifier case

Conventions
-----------
* Every node has a keyword-only ``line`` field (1-based line in the source file,
  0 when unknown).  ``line`` never takes part in ``==``.
* Parentheses are not represented.  ``to_sql`` re-inserts the parentheses that
  MySQL's precedence rules require (and a few harmless extra ones).
* Keywords are normalised: function names are upper-cased, ``!=`` becomes
  ``<>``, ``&&`` becomes ``AND``.  Identifiers keep their spelling.
* Lists of pairs (assignments, IF branches, ORDER BY items) are plain Python
  tuples inside lists; ``children()`` looks inside them.
"""
from __future__ import annotations

import re
from dataclasses import dataclass, field, fields
from typing import Any, Iterator, Optional, Union as _U

__all__ = [
    'SqlUnsupported', 'SqlSyntaxError', 'Node', 'Expr', 'Stmt', 'FromItem',
    'SqlType', 'Lit', 'Name', 'UserVar', 'AssignExpr', 'Param', 'NamedParam',
    'Hole', 'BinOp', 'UnOp', 'IsNull', 'IsBool', 'In', 'Between', 'Func',
    'WindowSpec', 'Case', 'Exists', 'Subquery', 'Cast', 'Interval', 'Star',
    'Tuple', 'SelectCol', 'IndexHint', 'TableRef', 'HoleRef', 'SubqueryRef',
    'Join', 'Select', 'Union', 'With', 'Block', 'Declare', 'DeclareCursor',
    'DeclareHandler', 'Set', 'If', 'Loop', 'While', 'Repeat', 'Leave',
    'Iterate', 'Open', 'Fetch', 'Close', 'Call', 'Signal', 'StartTransaction',
    'Commit', 'Rollback', 'Return', 'SelectStmt', 'Update', 'Insert', 'Delete',
    'RoutineParam', 'Routine', 'Column', 'ForeignKey', 'Table',
    'same_expr', 'expr_key', 'quote_ident', 'RESERVED', 'BINARY_OPS',
]


# --------------------------------------------------------------------------
# Errors
# --------------------------------------------------------------------------

class SqlUnsupported(Exception):
    """Raised for every construct outside the supported subset.

    The parser never skips input silently: anything it does not understand
    ends up here, carrying the file and 1-based line where it happened.
    """

    def __init__(self, message: str, file: Optional[str] = None, line: Optional[int] = None):
        self.message = message
        self.file = file
        self.line = line
        where = ''
        if file is not None or line is not None:
            where = '%s:%s: ' % (file if file is not None else '<sql>',
                                 line if line is not None else '?')
        super().__init__(where + message)


class SqlSyntaxError(SqlUnsupported):
    """An unexpected token.  Subclass of SqlUnsupported so that callers only
    need one except clause; kept distinct because it usually means the input
    is malformed (or uses syntax we have never heard of) rather than a known
    but deliberately unsupported feature."""


# --------------------------------------------------------------------------
# Identifier helpers shared with the parser
# --------------------------------------------------------------------------

# Words that cannot be used as a bare identifier / implicit alias in the subset
# we parse.  This is (a superset of the relevant part of) MySQL 8's reserved
# word list; being a superset is safe: the worst case is a loud syntax error on
# an exotic unquoted identifier.
RESERVED = frozenset('''
ADD ALL ALTER ANALYZE AND AS ASC BEFORE BETWEEN BOTH BY CALL CASCADE CASE CHANGE
CHECK COLLATE COLUMN CONDITION CONSTRAINT CONTINUE CONVERT CREATE CROSS CURSOR
DATABASE DECLARE DEFAULT DELETE DESC DESCRIBE DISTINCT DISTINCTROW DIV DROP
DUAL EACH ELSE ELSEIF EXISTS EXIT EXPLAIN FALSE FETCH FOR FORCE FOREIGN FROM
FULLTEXT GROUP HAVING IF IGNORE IN INDEX INNER INOUT INSERT INTERVAL INTO IS
ITERATE JOIN KEY KEYS KILL LATERAL LEADING LEAVE LEFT LIKE LIMIT LOCK LOOP
MATCH MOD NATURAL NOT NULL OF ON OPTIMIZE OPTION OR ORDER OUT OUTER OVER
PARTITION PRIMARY PROCEDURE RANGE READ REFERENCES REGEXP RENAME REPEAT REPLACE
REQUIRE RETURN RIGHT RLIKE ROW ROWS SELECT SET SHOW SIGNAL SQL_CALC_FOUND_ROWS
SQLEXCEPTION SQLSTATE SQLWARNING STRAIGHT_JOIN TABLE THEN TO TRAILING TRIGGER
TRUE UNION UNIQUE UNLOCK UPDATE USAGE USE USING VALUES WHEN WHERE WHILE WINDOW
WITH WRITE XOR
'''.split())

_PLAIN_IDENT = re.compile(r'^[A-Za-z_][A-Za-z0-9_$]*$')


def quote_ident(s: str) -> str:
    """Back-quote an identifier if (and only if) it needs it."""
    if _PLAIN_IDENT.match(s) and s.upper() not in RESERVED:
        return s
    return '`' + s.replace('`', '``') + '`'


def _quote_str(s: str) -> str:
    out = s.replace('\\', '\\\\').replace("'", "''").replace('\n', '\\n')
    out = out.replace('\r', '\\r').replace('\t', '\\t').replace('\0', '\\0')
    return "'" + out + "'"


# --------------------------------------------------------------------------
# Base class
# --------------------------------------------------------------------------

def _iter_nodes(v: Any) -> Iterator['Node']:
    if isinstance(v, Node):
        yield v
    elif isinstance(v, (list, tuple)):
        for x in v:
            yield from _iter_nodes(x)


@dataclass
class Node:
    line: int = field(default=0, kw_only=True, compare=False, repr=False)

    def children(self) -> list['Node']:
        """Direct child nodes, in field order (looks inside lists/tuples)."""
        out: list[Node] = []
        for f in fields(self):
            if f.name == 'line':
                continue
            out.extend(_iter_nodes(getattr(self, f.name)))
        return out

    def walk(self) -> Iterator['Node']:
        """Pre-order traversal of this node and all its descendants."""
        stack = [self]
        while stack:
            n = stack.pop()
            yield n
            stack.extend(reversed(n.children()))

    def find(self, *classes) -> list['Node']:
        """All descendants (including self) that are instances of `classes`."""
        return [n for n in self.walk() if isinstance(n, classes)]

    def to_sql(self, indent: int = 0) -> str:  # pragma: no cover - abstract
        raise NotImplementedError(type(self).__name__)

    def __str__(self) -> str:
        return self.to_sql()


class Expr(Node):
    """Marker base class of expressions."""


class FromItem(Node):
    """Marker base class of table references (TableRef, SubqueryRef, Join, HoleRef)."""


class Stmt(Node):
    """Marker base class of statements."""


# --------------------------------------------------------------------------
# Types
# --------------------------------------------------------------------------

@dataclass
class SqlType(Node):
    """A data type as written in DECLARE / parameter lists / CAST / columns.

    base      upper-cased base name, synonyms folded (INTEGER->INT, BOOL->BOOLEAN)
    args      the parenthesised arguments as raw strings: VARCHAR(100) -> ('100',),
              ENUM('a','b') -> ("'a'", "'b'")
    unsigned  UNSIGNED attribute
    attrs     other attributes, upper-cased strings (e.g. 'CHARACTER SET utf8mb4',
              'COLLATE utf8mb4_0900_as_cs', 'ZEROFILL')
    """
    base: str
    args: tuple = ()
    unsigned: bool = False
    attrs: tuple = ()

    def to_sql(self, indent: int = 0) -> str:
        s = self.base
        if self.args:
            s += '(' + ', '.join(self.args) + ')'
        if self.unsigned:
            s += ' UNSIGNED'
        for a in self.attrs:
            s += ' ' + a
        return s


# --------------------------------------------------------------------------
# Expressions
# --------------------------------------------------------------------------

# precedence levels used by the printer (higher binds tighter)
_P_ASSIGN, _P_OR, _P_XOR, _P_AND, _P_NOT, _P_CMP = 0, 1, 2, 3, 4, 5
_P_BITOR, _P_BITAND, _P_SHIFT, _P_ADD, _P_MUL, _P_UNARY, _P_ATOM = 6, 7, 8, 9, 10, 12, 100

BINARY_OPS = {
    'OR': _P_OR, 'XOR': _P_XOR, 'AND': _P_AND,
    '=': _P_CMP, '<=>': _P_CMP, '<>': _P_CMP, '<': _P_CMP, '<=': _P_CMP,
    '>': _P_CMP, '>=': _P_CMP, 'LIKE': _P_CMP,
    '|': _P_BITOR, '&': _P_BITAND, '<<': _P_SHIFT, '>>': _P_SHIFT,
    '+': _P_ADD, '-': _P_ADD,
    '*': _P_MUL, '/': _P_MUL, 'DIV': _P_MUL, '%': _P_MUL, 'MOD': _P_MUL,
}


def _prec(e: Node) -> int:
    if isinstance(e, BinOp):
        return BINARY_OPS[e.op]
    if isinstance(e, UnOp):
        return _P_NOT if e.op == 'NOT' else _P_UNARY
    if isinstance(e, (IsNull, IsBool, In, Between)):
        return _P_CMP
    if isinstance(e, AssignExpr):
        return _P_ASSIGN
    if isinstance(e, Exists) and e.negated:
        return _P_NOT
    return _P_ATOM


def _sub(e: Node, min_prec: int) -> str:
    """Print sub-expression `e`, parenthesised unless it binds at least as
    tightly as `min_prec`."""
    s = e.to_sql()
    if _prec(e) < min_prec:
        return '(' + s + ')'
    return s


@dataclass
class Lit(Expr):
    """Literal.  kind in {'int','float','str','null','bool'}; value is the Python
    value (int / float / str / None / bool).  `raw` keeps the source spelling of
    numbers (MySQL treats 0.5 as an exact DECIMAL, not a float)."""
    value: Any
    kind: str
    raw: Optional[str] = field(default=None, compare=False)

    def to_sql(self, indent: int = 0) -> str:
        if self.kind == 'null':
            return 'NULL'
        if self.kind == 'bool':
            return 'TRUE' if self.value else 'FALSE'
        if self.kind == 'str':
            return _quote_str(self.value)
        if self.raw is not None:
            return self.raw
        return repr(self.value)


@dataclass
class Name(Expr):
    """A possibly qualified identifier: ('NEW','batch_id'), ('jobs','state'),
    ('cur_user',).  Case is preserved; use `.lower` for comparisons."""
    parts: tuple

    @property
    def lower(self) -> tuple:
        return tuple(p.lower() for p in self.parts)

    @property
    def last(self) -> str:
        return self.parts[-1]

    @property
    def qualifier(self) -> Optional[str]:
        return self.parts[-2] if len(self.parts) > 1 else None

    def to_sql(self, indent: int = 0) -> str:
        return '.'.join(quote_ident(p) for p in self.parts)


@dataclass
class UserVar(Expr):
    """Session variable @name."""
    name: str

    @property
    def lower(self) -> str:
        return self.name.lower()

    def to_sql(self, indent: int = 0) -> str:
        if _PLAIN_IDENT.match(self.name) or re.match(r'^[A-Za-z0-9_.$]+$', self.name):
            return '@' + self.name
        return '@`' + self.name.replace('`', '``') + '`'


@dataclass
class AssignExpr(Expr):
    """`@v := expr` used as an expression (value of expr, side effect on @v)."""
    target: UserVar
    value: Expr

    def to_sql(self, indent: int = 0) -> str:
        return '%s := %s' % (self.target.to_sql(), self.value.to_sql())


@dataclass
class Param(Expr):
    """Positional driver placeholder `%s`; numbered left to right from 0 within
    one parse_statement(s) call."""
    index: int

    def to_sql(self, indent: int = 0) -> str:
        return '%s'


@dataclass
class NamedParam(Expr):
    """Named driver placeholder `%(name)s`."""
    name: str

    def to_sql(self, indent: int = 0) -> str:
        return '%(' + self.name + ')s'


@dataclass
class Hole(Expr):
    """A Python format hole `{...}` left in embedded SQL.

    text    the hole including braces (and a `qualifier.` prefix for `t.{x}`)
    clause  True when the hole stands where a whole optional clause (e.g. the
            entire `WHERE ...`) would be, rather than a single expression.
    """
    text: str
    clause: bool = False

    def to_sql(self, indent: int = 0) -> str:
        return self.text


@dataclass
class BinOp(Expr):
    op: str
    left: Expr
    right: Expr

    def to_sql(self, indent: int = 0) -> str:
        p = BINARY_OPS[self.op]
        if p == _P_CMP:
            # bool_pri comp_op predicate: parenthesise anything at or below
            # comparison level on either side (unambiguous, if verbose)
            return '%s %s %s' % (_sub(self.left, p + 1), self.op, _sub(self.right, p + 1))
        # left associative
        return '%s %s %s' % (_sub(self.left, p), self.op, _sub(self.right, p + 1))


@dataclass
class UnOp(Expr):
    """op in {'NOT', '-', '+', '!'}"""
    op: str
    operand: Expr

    def to_sql(self, indent: int = 0) -> str:
        if self.op == 'NOT':
            return 'NOT ' + _sub(self.operand, _P_NOT)
        # avoid `--x` (a comment) and friends: parenthesise every non-atom
        return self.op + _sub(self.operand, _P_ATOM)


@dataclass
class IsNull(Expr):
    expr: Expr
    negated: bool = False

    def to_sql(self, indent: int = 0) -> str:
        return _sub(self.expr, _P_CMP + 1) + (' IS NOT NULL' if self.negated else ' IS NULL')


@dataclass
class IsBool(Expr):
    """expr IS [NOT] TRUE|FALSE|UNKNOWN; value is that keyword."""
    expr: Expr
    value: str
    negated: bool = False

    def to_sql(self, indent: int = 0) -> str:
        return '%s IS %s%s' % (_sub(self.expr, _P_CMP + 1), 'NOT ' if self.negated else '', self.value)


@dataclass
class In(Expr):
    """expr [NOT] IN (items...) | (subquery) | %s

    items is a list of expressions, a Select/Union, or a bare Param/NamedParam/
    Hole (a sequence expanded by the database driver or by Python)."""
    expr: Expr
    items: Any
    negated: bool = False

    def to_sql(self, indent: int = 0) -> str:
        head = _sub(self.expr, _P_CMP + 1) + (' NOT IN ' if self.negated else ' IN ')
        if isinstance(self.items, list):
            return head + '(' + ', '.join(i.to_sql() for i in self.items) + ')'
        if isinstance(self.items, (Select, Union)):
            return head + '(' + self.items.to_sql() + ')'
        return head + self.items.to_sql()


@dataclass
class Between(Expr):
    expr: Expr
    lo: Expr
    hi: Expr
    negated: bool = False

    def to_sql(self, indent: int = 0) -> str:
        return '%s %sBETWEEN %s AND %s' % (
            _sub(self.expr, _P_CMP + 1), 'NOT ' if self.negated else '',
            _sub(self.lo, _P_CMP + 1), _sub(self.hi, _P_CMP + 1))


@dataclass
class WindowSpec(Node):
    """OVER (PARTITION BY ... ORDER BY ...) - no frames."""
    partition_by: list = field(default_factory=list)
    order_by: list = field(default_factory=list)   # [(expr, 'ASC'|'DESC')]

    def to_sql(self, indent: int = 0) -> str:
        parts = []
        if self.partition_by:
            parts.append('PARTITION BY ' + ', '.join(e.to_sql() for e in self.partition_by))
        if self.order_by:
            parts.append('ORDER BY ' + _order_sql(self.order_by))
        return '(' + ' '.join(parts) + ')'


@dataclass
class Func(Expr):
    """Function call.  name is upper-cased.  star is COUNT(*); distinct is
    COUNT(DISTINCT ...) etc.  over is a WindowSpec for window functions."""
    name: str
    args: list = field(default_factory=list)
    distinct: bool = False
    star: bool = False
    over: Optional[WindowSpec] = None
    raw_name: Optional[str] = field(default=None, compare=False)   # spelling in the source

    def to_sql(self, indent: int = 0) -> str:
        if self.star:
            inner = '*'
        else:
            inner = ', '.join(a.to_sql() for a in self.args)
            if self.distinct:
                inner = 'DISTINCT ' + inner
        s = '%s(%s)' % (self.name, inner)
        if self.over is not None:
            s += ' OVER ' + self.over.to_sql()
        return s


@dataclass
class Case(Expr):
    """CASE [operand] WHEN c THEN v ... [ELSE e] END; whens = [(cond, value)]"""
    operand: Optional[Expr]
    whens: list
    else_: Optional[Expr] = None

    def to_sql(self, indent: int = 0) -> str:
        s = 'CASE'
        if self.operand is not None:
            s += ' ' + self.operand.to_sql()
        for c, v in self.whens:
            s += ' WHEN %s THEN %s' % (c.to_sql(), v.to_sql())
        if self.else_ is not None:
            s += ' ELSE ' + self.else_.to_sql()
        return s + ' END'


@dataclass
class Exists(Expr):
    """EXISTS (select).  `NOT EXISTS` is parsed as UnOp('NOT', Exists(...));
    negated is kept for builders that want the fused form."""
    select: Any
    negated: bool = False

    def to_sql(self, indent: int = 0) -> str:
        return ('NOT ' if self.negated else '') + 'EXISTS (' + self.select.to_sql() + ')'


@dataclass
class Subquery(Expr):
    """Scalar (or row) subquery used as an expression."""
    select: Any

    def to_sql(self, indent: int = 0) -> str:
        return '(' + self.select.to_sql() + ')'


@dataclass
class Cast(Expr):
    """CAST(expr AS type) (also CONVERT(expr, type))."""
    expr: Expr
    type: SqlType

    def to_sql(self, indent: int = 0) -> str:
        return 'CAST(%s AS %s)' % (self.expr.to_sql(), self.type.to_sql())


@dataclass
class Interval(Expr):
    """INTERVAL expr unit (only meaningful next to +/- or in DATE_ADD etc.)."""
    expr: Expr
    unit: str

    def to_sql(self, indent: int = 0) -> str:
        return 'INTERVAL %s %s' % (_sub(self.expr, _P_ATOM), self.unit)


@dataclass
class Star(Expr):
    """`*` or `tbl.*` in a select list."""
    table: Optional[str] = None

    def to_sql(self, indent: int = 0) -> str:
        return (quote_ident(self.table) + '.*') if self.table else '*'


@dataclass
class Tuple(Expr):
    """Row constructor (a, b)."""
    items: list

    def to_sql(self, indent: int = 0) -> str:
        return '(' + ', '.join(i.to_sql() for i in self.items) + ')'


# --------------------------------------------------------------------------
# Queries
# --------------------------------------------------------------------------

def _order_sql(order_by: list) -> str:
    return ', '.join(e.to_sql() + (' DESC' if d == 'DESC' else ' ASC') for e, d in order_by)


@dataclass
class SelectCol(Node):
    expr: Expr
    alias: Optional[str] = None

    def to_sql(self, indent: int = 0) -> str:
        s = self.expr.to_sql()
        if self.alias is not None:
            s += ' AS ' + quote_ident(self.alias)
        return s


@dataclass
class IndexHint(Node):
    """USE|FORCE|IGNORE INDEX (names)"""
    kind: str
    names: tuple

    def to_sql(self, indent: int = 0) -> str:
        return '%s INDEX (%s)' % (self.kind, ', '.join(quote_ident(n) for n in self.names))


@dataclass
class TableRef(FromItem):
    name: str
    alias: Optional[str] = None
    index_hints: list = field(default_factory=list)
    schema: Optional[str] = None

    @property
    def ref_name(self) -> str:
        """The name by which columns of this table are qualified."""
        return self.alias or self.name

    def to_sql(self, indent: int = 0) -> str:
        s = quote_ident(self.name)
        if self.schema:
            s = quote_ident(self.schema) + '.' + s
        if self.alias:
            s += ' AS ' + quote_ident(self.alias)
        for h in self.index_hints:
            s += ' ' + h.to_sql()
        return s


@dataclass
class HoleRef(FromItem):
    """A Python format hole in table-reference position."""
    text: str
    alias: Optional[str] = None

    def to_sql(self, indent: int = 0) -> str:
        return self.text + (' AS ' + quote_ident(self.alias) if self.alias else '')


@dataclass
class SubqueryRef(FromItem):
    select: Any           # Select | Union | Hole
    alias: Optional[str]
    lateral: bool = False

    def to_sql(self, indent: int = 0) -> str:
        s = ('LATERAL ' if self.lateral else '') + '(' + self.select.to_sql() + ')'
        if self.alias:
            s += ' AS ' + quote_ident(self.alias)
        return s


@dataclass
class Join(FromItem):
    """kind in {'INNER','LEFT','RIGHT','CROSS','STRAIGHT'}.  A comma join is
    Join('CROSS', ..., comma=True)."""
    kind: str
    left: FromItem
    right: FromItem
    on: Optional[Expr] = None
    using: Optional[list] = None
    comma: bool = False

    def to_sql(self, indent: int = 0) -> str:
        r = self.right.to_sql()
        if isinstance(self.right, Join):
            r = '(' + r + ')'
        if self.comma:
            return self.left.to_sql() + ', ' + r
        kw = {'INNER': 'INNER JOIN', 'LEFT': 'LEFT JOIN', 'RIGHT': 'RIGHT JOIN',
              'CROSS': 'CROSS JOIN', 'STRAIGHT': 'STRAIGHT_JOIN'}[self.kind]
        left = self.left.to_sql()
        if isinstance(self.left, Join) and self.left.comma:
            left = '(' + left + ')'
        s = '%s %s %s' % (left, kw, r)
        if self.on is not None:
            s += ' ON ' + self.on.to_sql()
        if self.using is not None:
            s += ' USING (' + ', '.join(quote_ident(c) for c in self.using) + ')'
        return s

    def tables(self) -> list:
        """Leaf FromItems, left to right."""
        out = []
        for side in (self.left, self.right):
            out.extend(side.tables() if isinstance(side, Join) else [side])
        return out


@dataclass
class Select(Node):
    """One SELECT query block.

    modifiers     e.g. ['STRAIGHT_JOIN', 'SQL_CALC_FOUND_ROWS'] (DISTINCT has its own flag)
    into          targets of SELECT ... INTO (Name | UserVar), [] for a result set
    locking       'FOR UPDATE' | 'FOR SHARE' | 'LOCK IN SHARE MODE' | None
    lock_option   'NOWAIT' | 'SKIP LOCKED' | None
    where/having/limit/offset may be a Hole in embedded SQL
    """
    columns: list = field(default_factory=list)
    distinct: bool = False
    into: list = field(default_factory=list)
    from_: Optional[FromItem] = None
    where: Optional[Expr] = None
    group_by: list = field(default_factory=list)
    having: Optional[Expr] = None
    order_by: list = field(default_factory=list)
    limit: Optional[Expr] = None
    offset: Optional[Expr] = None
    locking: Optional[str] = None
    lock_option: Optional[str] = None
    modifiers: list = field(default_factory=list)

    def to_sql(self, indent: int = 0) -> str:
        parts = ['SELECT']
        if self.distinct:
            parts.append('DISTINCT')
        parts.extend(self.modifiers)
        head = ' '.join(parts) + ' ' + ', '.join(c.to_sql() for c in self.columns)
        out = [head]
        if self.into:
            out.append('INTO ' + ', '.join(t.to_sql() for t in self.into))
        if self.from_ is not None:
            out.append('FROM ' + self.from_.to_sql())
        out.extend(_tail_clauses(self.where, self.group_by, self.having, self.order_by,
                                 self.limit, self.offset))
        if self.locking:
            out.append(self.locking + (' ' + self.lock_option if self.lock_option else ''))
        return ' '.join(out)


def _tail_clauses(where, group_by, having, order_by, limit, offset) -> list:
    out = []
    if where is not None:
        if isinstance(where, Hole) and where.clause:
            out.append(where.to_sql())
        else:
            out.append('WHERE ' + where.to_sql())
    if group_by:
        out.append('GROUP BY ' + ', '.join(e.to_sql() for e in group_by))
    if having is not None:
        out.append('HAVING ' + having.to_sql())
    if order_by:
        out.append('ORDER BY ' + _order_sql(order_by))
    if limit is not None:
        out.append('LIMIT ' + limit.to_sql())
        if offset is not None:
            out.append('OFFSET ' + offset.to_sql())
    return out


@dataclass
class Union(Node):
    """select UNION [ALL] select ... [ORDER BY ...] [LIMIT ...].

    selects     operands (Select | Union | Hole); each printed in parentheses
    all_flags   all_flags[i] is True when the operator before selects[i+1] is UNION ALL
    order_by / limit / offset apply to the whole union.
    """
    selects: list
    all_flags: list
    order_by: list = field(default_factory=list)
    limit: Optional[Expr] = None
    offset: Optional[Expr] = None

    def to_sql(self, indent: int = 0) -> str:
        def one(s):
            return s.to_sql() if isinstance(s, Hole) else '(' + s.to_sql() + ')'
        s = one(self.selects[0])
        for flag, sel in zip(self.all_flags, self.selects[1:]):
            s += (' UNION ALL ' if flag else ' UNION ') + one(sel)
        tail = _tail_clauses(None, [], None, self.order_by, self.limit, self.offset)
        return ' '.join([s] + tail)


@dataclass
class With(Node):
    """WITH name AS (query), ... query   (non-recursive CTEs only).
    ctes = [(name, Select|Union|Hole)]"""
    ctes: list
    body: Any

    def to_sql(self, indent: int = 0) -> str:
        cs = ', '.join('%s AS (%s)' % (quote_ident(n), q.to_sql()) for n, q in self.ctes)
        return 'WITH %s %s' % (cs, self.body.to_sql())


# --------------------------------------------------------------------------
# Statements
# --------------------------------------------------------------------------

def _ind(indent: int) -> str:
    return '  ' * indent


def _assign_sql(assignments: list) -> str:
    return ', '.join('%s = %s' % (t.to_sql(), e.to_sql()) for t, e in assignments)


@dataclass
class Block(Stmt):
    """[label:] BEGIN stmts END.  Also used (label None) for the statement lists
    of IF branches and loop bodies; `explicit` is True only for a real
    BEGIN ... END in the source."""
    label: Optional[str]
    stmts: list
    explicit: bool = field(default=True, compare=False)

    def body_sql(self, indent: int) -> str:
        return ''.join(s.to_sql(indent) + ';\n' for s in self.stmts)

    def to_sql(self, indent: int = 0) -> str:
        head = _ind(indent) + (quote_ident(self.label) + ': ' if self.label else '') + 'BEGIN\n'
        return head + self.body_sql(indent + 1) + _ind(indent) + 'END'


@dataclass
class Declare(Stmt):
    names: list
    type: SqlType
    default: Optional[Expr] = None

    def to_sql(self, indent: int = 0) -> str:
        s = _ind(indent) + 'DECLARE %s %s' % (', '.join(quote_ident(n) for n in self.names), self.type.to_sql())
        if self.default is not None:
            s += ' DEFAULT ' + self.default.to_sql()
        return s


@dataclass
class DeclareCursor(Stmt):
    name: str
    select: Any

    def to_sql(self, indent: int = 0) -> str:
        return _ind(indent) + 'DECLARE %s CURSOR FOR %s' % (quote_ident(self.name), self.select.to_sql())


@dataclass
class DeclareHandler(Stmt):
    """kind 'CONTINUE'|'EXIT'; conditions are normalised strings: 'NOT FOUND',
    'SQLEXCEPTION', 'SQLWARNING', "SQLSTATE '23000'", '1062', or a condition name."""
    kind: str
    conditions: tuple
    stmt: Stmt

    @property
    def condition(self) -> str:
        return ', '.join(self.conditions)

    def to_sql(self, indent: int = 0) -> str:
        return _ind(indent) + 'DECLARE %s HANDLER FOR %s\n%s' % (
            self.kind, self.condition, self.stmt.to_sql(indent + 1))


@dataclass
class Set(Stmt):
    """SET t1 = e1, t2 = e2; targets are Name (local variable, NEW.col, system
    variable) or UserVar."""
    assignments: list

    def to_sql(self, indent: int = 0) -> str:
        return _ind(indent) + 'SET ' + _assign_sql(self.assignments)


@dataclass
class If(Stmt):
    """branches = [(cond, Block)] for IF / ELSEIF; orelse is the ELSE Block."""
    branches: list
    orelse: Optional[Block] = None

    def to_sql(self, indent: int = 0) -> str:
        s = ''
        for i, (c, b) in enumerate(self.branches):
            s += _ind(indent) + ('IF ' if i == 0 else 'ELSEIF ') + c.to_sql() + ' THEN\n' + b.body_sql(indent + 1)
        if self.orelse is not None:
            s += _ind(indent) + 'ELSE\n' + self.orelse.body_sql(indent + 1)
        return s + _ind(indent) + 'END IF'


@dataclass
class Loop(Stmt):
    label: Optional[str]
    body: Block

    def to_sql(self, indent: int = 0) -> str:
        return (_ind(indent) + (quote_ident(self.label) + ': ' if self.label else '') + 'LOOP\n'
                + self.body.body_sql(indent + 1) + _ind(indent) + 'END LOOP')


@dataclass
class While(Stmt):
    label: Optional[str]
    cond: Expr
    body: Block

    def to_sql(self, indent: int = 0) -> str:
        return (_ind(indent) + (quote_ident(self.label) + ': ' if self.label else '')
                + 'WHILE ' + self.cond.to_sql() + ' DO\n'
                + self.body.body_sql(indent + 1) + _ind(indent) + 'END WHILE')


@dataclass
class Repeat(Stmt):
    label: Optional[str]
    body: Block
    until: Expr

    def to_sql(self, indent: int = 0) -> str:
        return (_ind(indent) + (quote_ident(self.label) + ': ' if self.label else '') + 'REPEAT\n'
                + self.body.body_sql(indent + 1) + _ind(indent) + 'UNTIL ' + self.until.to_sql()
                + ' END REPEAT')


@dataclass
class Leave(Stmt):
    label: str

    def to_sql(self, indent: int = 0) -> str:
        return _ind(indent) + 'LEAVE ' + quote_ident(self.label)


@dataclass
class Iterate(Stmt):
    label: str

    def to_sql(self, indent: int = 0) -> str:
        return _ind(indent) + 'ITERATE ' + quote_ident(self.label)


@dataclass
class Open(Stmt):
    cursor: str

    def to_sql(self, indent: int = 0) -> str:
        return _ind(indent) + 'OPEN ' + quote_ident(self.cursor)


@dataclass
class Fetch(Stmt):
    cursor: str
    into: list

    def to_sql(self, indent: int = 0) -> str:
        return _ind(indent) + 'FETCH %s INTO %s' % (quote_ident(self.cursor), ', '.join(t.to_sql() for t in self.into))


@dataclass
class Close(Stmt):
    cursor: str

    def to_sql(self, indent: int = 0) -> str:
        return _ind(indent) + 'CLOSE ' + quote_ident(self.cursor)


@dataclass
class Call(Stmt):
    name: str
    args: list = field(default_factory=list)

    def to_sql(self, indent: int = 0) -> str:
        return _ind(indent) + 'CALL %s(%s)' % (quote_ident(self.name), ', '.join(a.to_sql() for a in self.args))


@dataclass
class Signal(Stmt):
    """SIGNAL SQLSTATE 'xxxxx' [SET item = value, ...].  items = [(ITEM_NAME, expr)].
    For `SIGNAL condition_name`, sqlstate is None and condition holds the name."""
    sqlstate: Optional[str]
    items: list = field(default_factory=list)
    condition: Optional[str] = None

    def to_sql(self, indent: int = 0) -> str:
        s = _ind(indent) + 'SIGNAL '
        s += ('SQLSTATE ' + _quote_str(self.sqlstate)) if self.sqlstate is not None else quote_ident(self.condition)
        if self.items:
            s += ' SET ' + ', '.join('%s = %s' % (k, v.to_sql()) for k, v in self.items)
        return s


@dataclass
class StartTransaction(Stmt):
    options: tuple = ()

    def to_sql(self, indent: int = 0) -> str:
        return _ind(indent) + 'START TRANSACTION' + (' ' + ', '.join(self.options) if self.options else '')


@dataclass
class Commit(Stmt):
    def to_sql(self, indent: int = 0) -> str:
        return _ind(indent) + 'COMMIT'


@dataclass
class Rollback(Stmt):
    def to_sql(self, indent: int = 0) -> str:
        return _ind(indent) + 'ROLLBACK'


@dataclass
class Return(Stmt):
    expr: Expr

    def to_sql(self, indent: int = 0) -> str:
        return _ind(indent) + 'RETURN ' + self.expr.to_sql()


@dataclass
class SelectStmt(Stmt):
    """A SELECT used as a statement: a result set returned to the client, or
    SELECT ... INTO (select.into non-empty).  select is Select | Union | With."""
    select: Any

    @property
    def into(self) -> list:
        return self.select.into if isinstance(self.select, Select) else []

    def to_sql(self, indent: int = 0) -> str:
        return _ind(indent) + self.select.to_sql()


@dataclass
class Update(Stmt):
    """UPDATE tables SET assignments [WHERE] [ORDER BY] [LIMIT]; tables is a
    FromItem (a single TableRef or a Join tree for multi-table updates)."""
    tables: FromItem
    assignments: list
    where: Optional[Expr] = None
    order_by: list = field(default_factory=list)
    limit: Optional[Expr] = None
    ignore: bool = False

    def to_sql(self, indent: int = 0) -> str:
        out = ['UPDATE ' + ('IGNORE ' if self.ignore else '') + self.tables.to_sql(),
               'SET ' + _assign_sql(self.assignments)]
        out.extend(_tail_clauses(self.where, [], None, self.order_by, self.limit, None))
        return _ind(indent) + ' '.join(out)


@dataclass
class Insert(Stmt):
    """INSERT [IGNORE] INTO table [(columns)] source [AS row_alias] [ON DUPLICATE KEY UPDATE ...]

    columns       list of column names, or None when no column list was given
    source        list of value tuples (each a list of Expr; the keyword DEFAULT
                  is Name(('DEFAULT',))), or a Select/Union, or a Param/Hole
                  standing for a driver-expanded VALUES list
    on_duplicate  [(Name, expr)]
    replace       True for REPLACE INTO
    """
    table: str
    columns: Optional[list]
    source: Any
    on_duplicate: list = field(default_factory=list)
    ignore: bool = False
    row_alias: Optional[str] = None
    replace: bool = False
    schema: Optional[str] = None

    def to_sql(self, indent: int = 0) -> str:
        s = ('REPLACE' if self.replace else 'INSERT') + (' IGNORE' if self.ignore else '') + ' INTO '
        s += (quote_ident(self.schema) + '.' if self.schema else '') + quote_ident(self.table)
        if self.columns is not None:
            s += ' (' + ', '.join(quote_ident(c) for c in self.columns) + ')'
        if isinstance(self.source, list):
            s += ' VALUES ' + ', '.join('(' + ', '.join(e.to_sql() for e in row) + ')' for row in self.source)
        elif isinstance(self.source, (Select, Union, With)):
            s += ' ' + self.source.to_sql()
        else:
            s += ' VALUES ' + self.source.to_sql()
        if self.row_alias:
            s += ' AS ' + quote_ident(self.row_alias)
        if self.on_duplicate:
            s += ' ON DUPLICATE KEY UPDATE ' + _assign_sql(self.on_duplicate)
        return _ind(indent) + s


@dataclass
class Delete(Stmt):
    """Single table:  DELETE FROM table [AS alias] [WHERE] [ORDER BY] [LIMIT]
    Multi table:      DELETE t1[, t2] FROM joins [WHERE]      (targets, using)
                      DELETE FROM t1[, t2] USING joins [WHERE]
    For the multi-table forms `table` is the first target, `targets` lists all
    of them and `using` is the join tree."""
    table: str
    alias: Optional[str] = None
    where: Optional[Expr] = None
    order_by: list = field(default_factory=list)
    limit: Optional[Expr] = None
    targets: list = field(default_factory=list)
    using: Optional[FromItem] = None

    def to_sql(self, indent: int = 0) -> str:
        if self.using is not None:
            out = ['DELETE ' + ', '.join(quote_ident(t) for t in self.targets), 'FROM ' + self.using.to_sql()]
        else:
            out = ['DELETE FROM ' + quote_ident(self.table) + (' AS ' + quote_ident(self.alias) if self.alias else '')]
        out.extend(_tail_clauses(self.where, [], None, self.order_by, self.limit, None))
        return _ind(indent) + ' '.join(out)


# --------------------------------------------------------------------------
# Routines and tables
# --------------------------------------------------------------------------

@dataclass
class RoutineParam(Node):
    """A formal parameter of a procedure/function.  (The spec calls this
    `Param(mode, name, type)`; it is named RoutineParam here because `Param` is
    the `%s` placeholder expression.)  mode is always 'IN' for functions."""
    mode: str
    name: str
    type: SqlType

    def to_sql(self, indent: int = 0) -> str:
        return '%s %s %s' % (self.mode, quote_ident(self.name), self.type.to_sql())


@dataclass
class Routine(Node):
    kind: str                          # 'procedure' | 'function' | 'trigger'
    name: str
    params: list = field(default_factory=list)
    returns: Optional[SqlType] = None
    trigger_time: Optional[str] = None     # 'BEFORE' | 'AFTER'
    trigger_event: Optional[str] = None    # 'INSERT' | 'UPDATE' | 'DELETE'
    table: Optional[str] = None
    body: Optional[Stmt] = None
    characteristics: tuple = ()
    source_file: Optional[str] = field(default=None, compare=False)
    first_line: int = field(default=0, compare=False)
    last_line: int = field(default=0, compare=False)
    raw_text: str = field(default='', compare=False, repr=False)
    body_line: int = field(default=0, compare=False)      # line where the body starts
    body_text: str = field(default='', compare=False, repr=False)
    parse_error: Optional[SqlUnsupported] = field(default=None, compare=False)

    def statements(self) -> list:
        """All statements in the body (pre-order), including the body itself.
        The implicit Blocks that merely group IF branches / loop bodies are not
        counted; real BEGIN ... END blocks are."""
        if self.body is None:
            return []
        return [n for n in self.body.walk()
                if isinstance(n, Stmt) and not (isinstance(n, Block) and not n.explicit)]

    def header_sql(self) -> str:
        if self.kind == 'trigger':
            return 'CREATE TRIGGER %s %s %s ON %s FOR EACH ROW' % (
                quote_ident(self.name), self.trigger_time, self.trigger_event, quote_ident(self.table))
        s = 'CREATE %s %s(%s)' % (
            self.kind.upper(), quote_ident(self.name),
            ', '.join((p.to_sql() if self.kind == 'procedure'
                       else '%s %s' % (quote_ident(p.name), p.type.to_sql())) for p in self.params))
        if self.returns is not None:
            s += ' RETURNS ' + self.returns.to_sql()
        for c in self.characteristics:
            s += ' ' + c
        return s

    def to_sql(self, indent: int = 0) -> str:
        return self.header_sql() + '\n' + (self.body.to_sql(indent) if self.body is not None else '<unparsed>')


@dataclass
class Column:
    name: str
    type: str                      # upper-cased base type: 'BIGINT', 'VARCHAR', ...
    nullable: bool = True
    default: Optional[str] = None  # raw text of the DEFAULT clause value, or None
    generated: bool = False
    type_args: tuple = ()          # ('100',) for VARCHAR(100); enum members for ENUM
    unsigned: bool = False
    auto_increment: bool = False
    generated_expr: Optional[str] = None
    raw: str = ''                  # the full column definition as written (normalised spacing)


@dataclass
class ForeignKey:
    name: Optional[str]
    columns: tuple
    ref_table: str
    ref_columns: tuple
    on_delete: Optional[str] = None
    on_update: Optional[str] = None


@dataclass
class Table:
    name: str
    columns: dict = field(default_factory=dict)       # name -> Column, in definition order
    primary_key: tuple = ()
    unique_keys: dict = field(default_factory=dict)   # index name -> tuple of column names
    indexes: dict = field(default_factory=dict)       # non-unique index name -> tuple of column names
    foreign_keys: list = field(default_factory=list)  # list[ForeignKey]
    unparsed: list = field(default_factory=list)      # DDL fragments tolerated but not interpreted
    source: list = field(default_factory=list)        # [(file, line)] of every DDL statement applied

    def column(self, name: str) -> Optional[Column]:
        """Case-insensitive column lookup."""
        for k, c in self.columns.items():
            if k.lower() == name.lower():
                return c
        return None


# --------------------------------------------------------------------------
# Syntactic equality
# --------------------------------------------------------------------------

def expr_key(n: Any, case_sensitive_names: bool = False) -> Any:
    """A hashable canonical form of an AST (nested tuples).  Line numbers, raw
    number spellings and redundant parentheses do not appear in it; with
    case_sensitive_names=False (default) identifier case is ignored too, which
    matches MySQL's treatment of column, alias and variable names."""
    if isinstance(n, Node):
        items = [type(n).__name__]
        for f in fields(n):
            if not f.compare:
                continue
            v = getattr(n, f.name)
            if not case_sensitive_names and isinstance(v, str) and isinstance(n, (UserVar,)):
                v = v.lower()
            items.append(expr_key(v, case_sensitive_names))
        if isinstance(n, Name) and not case_sensitive_names:
            return ('Name', n.lower)
        return tuple(items)
    if isinstance(n, (list, tuple)):
        return tuple(expr_key(x, case_sensitive_names) for x in n)
    if isinstance(n, dict):
        return tuple(sorted((k, expr_key(v, case_sensitive_names)) for k, v in n.items()))
    if isinstance(n, bool) or n is None or isinstance(n, (int, float)):
        return (type(n).__name__, n)   # keep 1 and TRUE apart
    return n


def same_expr(a: Any, b: Any, case_sensitive_names: bool = False) -> bool:
    """Syntactic equality of two ASTs (expressions, queries or statements):
    ignores whitespace, keyword case, comments, redundant parentheses, source
    lines and - unless case_sensitive_names=True - the case of identifiers.
    Aliases, table names and string literals are compared exactly."""
    return expr_key(a, case_sensitive_names) == expr_key(b, case_sensitive_names)
