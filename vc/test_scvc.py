"""Self test of vc.scvc:   python3-vt -m vc.test_scvc   (cwd = /verif)

  (i)   lists every function of Call.scala / Genotype.scala with its subset status;
  (ii)  cross-validates the symbolic translation against the concrete evaluator: the concrete
        arguments are substituted into the z3 terms, which must simplify to the concrete result
        (value AND throws).  Functions that are symbolic only modulo Genotype.allelePairSqrt
        (Double arithmetic) are validated with that callee replaced by an uninterpreted function
        whose applications are then concretised;
  (iii) golden values worked out by hand from the Scala text;
  (iv)  unit tests of the front end on small Scala snippets (JVM arithmetic, newline rules,
        lambdas, value classes, recursion, fail-loud behaviour).

Exit status is non-zero on any disagreement.
"""

import itertools
import random
import sys
import time

import z3

from vc import scvc
from vc.scvc import ScThrow, ScUnsupported, ScUFStub, i32

CALL = '/repo/hail/hail/src/is/hail/variant/Call.scala'
GENO = '/repo/hail/hail/src/is/hail/variant/Genotype.scala'
UTILS = '/repo/hail/hail/utils/src/is/hail/utils/package.scala'   # provides triangle()

N_TUPLES = 2400
FAILURES = []


def fail(msg):
    FAILURES.append(msg)
    print('  FAIL: ' + msg)


def check(cond, msg):
    if not cond:
        fail(msg)
    return cond


# ----------------------------------------------------------------------------------------------
# (ii) cross validation machinery
# ----------------------------------------------------------------------------------------------

BOUNDARY = [0, 1, -1, 2, 3, 4, 5, 6, 7, 8, 16, 31, 32, 33, 35, 36, 37, -2,
            2 ** 31 - 1, -2 ** 31, 2 ** 29 - 1, 2 ** 29, 2 ** 29 + 1, 2 ** 28, 0xFFFF, 0x10000,
            0xFFFF0000 - 2 ** 32, 0x7FFF0000, 46340, 46341, 65535 * 32768]


def valid_calls(objs, rng):
    """encodings produced by the Scala constructors themselves (deep paths of the decoders)"""
    c1, c2 = objs['Call1'].funcs['apply'], objs['Call2'].funcs['apply']
    out = [objs['Call0'].funcs['apply'].eval(False), objs['Call0'].funcs['apply'].eval(True)]
    for _ in range(60):
        big = rng.random() < 0.4
        j = rng.randrange(0, 30000 if big else 9)
        k = rng.randrange(0, 2700 if big else 9)
        ph = rng.random() < 0.5
        for f, a in ((c1, (j, ph)), (c2, (j, k, ph)), (c2, (k, j, ph))):
            try:
                out.append(f.eval(*a))
            except ScThrow:
                pass
    return out


def arg_tuples(func, pool, rng, n):
    kinds = func.param_kinds
    doms = [[False, True] if k == 'bool' else BOUNDARY for k in kinds]
    size = 1
    for d in doms:
        size *= len(d)
    tuples = []
    if size <= n // 2:
        tuples.extend(itertools.product(*doms))
    else:
        for _ in range(n // 2):
            tuples.append(tuple(rng.choice(d) for d in doms))
    while len(tuples) < n:
        t = []
        for k, (_p, ty) in zip(kinds, func.params):
            if k == 'bool':
                t.append(rng.random() < 0.5)
            elif ty == 'Call' and rng.random() < 0.5:
                t.append(rng.choice(pool))          # an encoding built by Call0/Call1/Call2
            else:
                r = rng.random()
                if r < 0.22:
                    t.append(rng.randrange(-2 ** 31, 2 ** 31))
                elif r < 0.40:
                    t.append(rng.randrange(0, 3))
                elif r < 0.55:
                    t.append(rng.randrange(-4, 60))
                elif r < 0.65:
                    t.append(rng.choice(BOUNDARY))
                elif r < 0.75:
                    t.append(rng.randrange(0, 2 ** 29))
                else:
                    t.append(rng.choice(pool))
        tuples.append(tuple(t))
    return tuples


def z3_args(func):
    vs = []
    for (p, _), k in zip(func.params, func.param_kinds):
        vs.append(z3.Bool('a_' + p) if k == 'bool' else z3.BitVec('a_' + p, 32))
    return vs


def lit(v):
    return z3.BoolVal(v) if type(v) is bool else z3.BitVecVal(v & 0xFFFFFFFF, 32)


def term_value(t):
    """python value of a z3 literal, or None if the term is not a literal"""
    if z3.is_true(t):
        return True
    if z3.is_false(t):
        return False
    if z3.is_bv_value(t):
        return t.as_signed_long()
    return None


def concrete_of(func, args):
    try:
        return ('ok', func.eval(*args))
    except ScThrow as e:
        return ('throw', e.kind)


def cross_validate(func, tuples, stubs=None, stub_impl=None, direct_every=8, fail=None):
    """returns (number of tuples, number of throwing tuples)"""
    fail = fail or globals()['fail']
    stubs = stubs or {}
    vs = z3_args(func)
    res = func.sym(*vs, stubs=stubs)

    def conc(term, sub):
        t = z3.substitute(term, *sub) if sub else term
        for qn, st in stubs.items():
            t = st.concretize(t, stub_impl[qn])
        return z3.simplify(t)

    nthrow = 0
    for n, args in enumerate(tuples):
        exp = concrete_of(func, args)
        sub = [(v, lit(a)) for v, a in zip(vs, args)]
        results = [('subst', res)]
        if n % direct_every == 0:
            # second route: translate again with literal arguments (exercises branch pruning)
            results.append(('direct', func.sym(*args, stubs=stubs)))
        for how, r in results:
            s = sub if how == 'subst' else []
            thr = term_value(conc(r.throws, s))
            if thr is None:
                fail('%s%r [%s]: throws does not simplify to a literal' % (func.qualname, args,
                                                                          how))
                continue
            if exp[0] == 'throw':
                if thr is not True:
                    fail('%s%r [%s]: Scala throws %s but throws=%s' % (func.qualname, args, how,
                                                                      exp[1], thr))
                continue
            if thr is not False:
                fail('%s%r [%s]: Scala returns %r but throws=%s' % (func.qualname, args, how,
                                                                    exp[1], thr))
                continue
            want = exp[1]
            if want is None:
                got = r.value
            elif isinstance(r.value, scvc.SymSeq):
                got = None
                for guard, elems in r.value.alts:
                    if term_value(conc(guard, s)) is True:
                        got = tuple(term_value(conc(e, s)) for e in elems)
            else:
                got = term_value(conc(r.value, s))
            if got != want or type(got) is not type(want):
                fail('%s%r [%s]: concrete %r, symbolic %r' % (func.qualname, args, how, want,
                                                              got))
        if exp[0] == 'throw':
            nthrow += 1
    return len(tuples), nthrow


# ----------------------------------------------------------------------------------------------
# (i) + (ii) on the real sources
# ----------------------------------------------------------------------------------------------

def describe(f):
    sig = '%s(%s)%s' % (f.qualname, ', '.join('%s: %s' % p for p in f.params),
                        (': ' + f.ret) if f.ret else '')
    if f.in_subset:
        st = 'in_subset'
    elif f.concrete_ok:
        st = 'concrete-only  [sym: %s]' % f.reason
    else:
        st = 'OUT  [%s]' % f.concrete_reason
    return '  %-66s L%d-%d  %s' % (sig, f.first_line, f.last_line, st)


def real_sources():
    objs = scvc.load_objects([CALL, GENO])
    print('== (i) functions found in Call.scala / Genotype.scala ==')
    for o in objs.values():
        print('object %s  (%s:%d-%d)' % (o.name, o.file.split('/')[-1], o.first_line,
                                         o.last_line))
        for f in o.funcs.values():
            print(describe(f))
        for name, v in o.vals.items():
            sv = repr(v)
            print('  val %-25s = %s' % (name, sv if len(sv) < 60 else sv[:57] + '...'))
        for name, why in o.unsupported_vals.items():
            print('  val %-25s OUT [%s]' % (name, why))
        for a, t in o.types.items():
            print('  type %s = %s' % (a, t))

    # the same files plus is.hail.utils (triangle): Call.check becomes evaluable
    objs2 = scvc.load_objects([CALL, GENO, UTILS])
    chk = objs2['Call'].funcs['check']
    print('with utils/package.scala loaded: ' + describe(chk).strip())
    check(chk.concrete_ok, 'Call.check should be concretely evaluable once triangle is loaded')
    check(objs2['utils'].funcs['triangle'].in_subset, 'utils.triangle in subset')

    print('\n== (ii) cross validation sym vs eval ==')
    rng = random.Random(20260921)
    pool = valid_calls(objs, rng)
    stubname = 'Genotype.allelePairSqrt'
    total = 0
    work = [(objs, f) for o in objs.values() for f in o.funcs.values()]
    work += [(objs2, objs2['Call'].funcs['check'])]
    work += [(objs2, f) for f in objs2['utils'].funcs.values()]
    stub = ScUFStub(stubname, 1)
    for universe, f in work:
        impl = {stubname: universe['Genotype'].funcs['allelePairSqrt']}
        if not all(k in ('int', 'bool') for k in f.param_kinds):
            continue
        if f.in_subset:
            stubs, tag = {}, 'in_subset'
        elif f.concrete_ok and f.qualname != stubname and \
                f.sym_unsupported({stubname: stub}) is None:
            stubs, tag = {stubname: stub}, 'modulo ' + stubname
        else:
            continue
        t0 = time.time()
        n, nthrow = cross_validate(f, arg_tuples(f, pool, rng, N_TUPLES), stubs, impl)
        total += n
        print('  %-40s %5d tuples (%4d throw)  %-32s %.1fs'
              % (f.qualname, n, nthrow, tag, time.time() - t0))
        check(n >= 2000, '%s: fewer than 2000 tuples' % f.qualname)
    print('  total tuples: %d' % total)
    harness_sanity(objs, pool, rng)
    return objs, objs2


def harness_sanity(objs, pool, rng):
    """the cross validation must notice a wrong translation: inject three bugs into the symbolic
    evaluator (one at a time) and require disagreements"""
    S = scvc.SymEval
    C, G = objs['Call'].funcs, objs['Genotype'].funcs
    orig_binop, orig_index = S.binop, S.seq_index

    def bad_ushr(self, op, a, b, line, ctx):        # >>> translated as >>
        return orig_binop(self, '>>' if op == '>>>' else op, a, b, line, ctx)

    def bad_div(self, op, a, b, line, ctx):         # / never throws
        v, t = orig_binop(self, op, a, b, line, ctx)
        return (v, scvc.FALSE) if op == '/' else (v, t)

    def bad_index(self, seq, i, line):              # negative index not out of bounds
        v, t = orig_index(self, seq, i, line)
        return v, z3.And(t, i >= 0)

    for what, attr, bad, f in (('>>> as >>', 'binop', bad_ushr, C['alleleRepr']),
                               ('no throw on negative index', 'seq_index', bad_index,
                                G['cachedAlleleJ']),
                               ('no ArithmeticException', 'binop', bad_div,
                                scvc.load_source('object D { def d(a: Int, b: Int): Int = a / b }')
                                ['D'].funcs['d'])):
        caught = []
        setattr(S, attr, bad)
        try:
            cross_validate(f, arg_tuples(f, pool, rng, 600), fail=caught.append)
        finally:
            S.binop, S.seq_index = orig_binop, orig_index
        check(caught, 'harness did not notice the injected bug: ' + what)
        print('  injected bug %-28s -> %3d disagreements reported (expected > 0)'
              % (repr(what), len(caught)))


# ----------------------------------------------------------------------------------------------
# (iii) golden values (computed by hand from the Scala text)
# ----------------------------------------------------------------------------------------------

def golden(objs, objs2):
    print('\n== (iii) golden values ==')
    C, G, AP = objs['Call'].funcs, objs['Genotype'].funcs, objs['AllelePair'].funcs
    C0, C1, C2 = (objs[n].funcs['apply'] for n in ('Call0', 'Call1', 'Call2'))
    before = len(FAILURES)

    def eq(got, want, what):
        check(got == want and type(got) is type(want), '%s: got %r, want %r' % (what, got, want))

    def throws(fn, kind, what):
        try:
            r = fn()
        except ScThrow as e:
            check(e.kind == kind, '%s: threw %s, want %s' % (what, e.kind, kind))
        else:
            fail('%s: returned %r, want %s' % (what, r, kind))

    # Genotype.diploidGtIndex(j, k) = k*(k+1)/2 + j
    for j, k in [(0, 0), (0, 1), (1, 1), (0, 2), (1, 2), (2, 2), (3, 7), (100, 200)]:
        eq(G['diploidGtIndex/2'].eval(j, k), k * (k + 1) // 2 + j, 'diploidGtIndex(%d,%d)' % (j, k))
    throws(lambda: G['diploidGtIndex/2'].eval(2, 1), 'AssertionError', 'diploidGtIndex(2,1)')
    throws(lambda: G['diploidGtIndex/2'].eval(-1, 1), 'AssertionError', 'diploidGtIndex(-1,1)')
    eq(G['diploidGtIndexWithSwap'].eval(2, 1), 4, 'diploidGtIndexWithSwap(2,1)')
    # k*(k+1) wraps for k = 46341:  46341*46342 = 2147534622 -> -2147432674, /2 -> -1073716337
    eq(G['diploidGtIndex/2'].eval(0, 46341), -1073716337, 'diploidGtIndex(0,46341) wraps')
    # AllelePair(j, k) = j | k << 16
    eq(AP['apply'].eval(1, 2), 0x20001, 'AllelePair(1,2)')
    eq(AP['j'].eval(0x20001), 1, 'AllelePair.j')
    eq(AP['k'].eval(0x20001), 2, 'AllelePair.k')
    eq(AP['k'].eval(-1), 0xFFFF, 'AllelePair.k(-1): (p >> 16) & 0xffff')
    throws(lambda: AP['apply'].eval(0x10000, 0), 'IllegalArgumentException', 'AllelePair(65536,0)')
    eq(AP['alleleIndices'].eval(0x20001), (1, 2), 'alleleIndices')
    eq(AP['nNonRefAlleles'].eval(0x20000), 1, 'nNonRefAlleles')
    # tables
    eq(objs['Genotype'].vals['smallAllelePair'][4], 0x20001, 'smallAllelePair(4) = AllelePair(1,2)')
    eq(len(objs['Genotype'].vals['smallAllelePair']), 36, 'smallAllelePair.length')
    eq(objs['Genotype'].vals['nCachedAllelePairs'], 36, 'nCachedAllelePairs')
    eq(objs['Genotype'].vals['smallAlleleK'][35], 7, 'smallAlleleK(35)')
    eq(objs['Genotype'].vals['maxPhredInTable'], 8192, 'maxPhredInTable')
    eq(G['cachedAlleleJ'].eval(7), 1, 'cachedAlleleJ(7)')
    throws(lambda: G['cachedAlleleJ'].eval(36), 'ArrayIndexOutOfBoundsException', 'cachedAlleleJ(36)')
    throws(lambda: G['allelePair'].eval(-1), 'ArrayIndexOutOfBoundsException', 'allelePair(-1)')
    # allelePair is the inverse of diploidGtIndex (table below 36, sqrt above)
    for j, k in [(0, 0), (1, 2), (7, 7), (0, 8), (8, 8), (5, 1000), (1000, 1000), (0, 32767),
                 (32767, 32767)]:
        i = k * (k + 1) // 2 + j
        eq(G['allelePair'].eval(i), j | (k << 16), 'allelePair(%d)' % i)
        eq(G['allelePairSqrt'].eval(i), j | (k << 16), 'allelePairSqrt(%d)' % i)
        if k <= 1000:
            eq(G['allelePairRecursive'].eval(i), j | (k << 16), 'allelePairRecursive(%d)' % i)
    # Call encoding: bit 0 phased, bits 1-2 ploidy, bits 3.. allele representation
    eq(C0.eval(), 0, 'Call0()')
    eq(C0.eval(True), 1, 'Call0(phased)')
    eq(C1.eval(5), (5 << 3) | (1 << 1), 'Call1(5)')
    eq(C1.eval(5, True), (5 << 3) | (1 << 1) | 1, 'Call1(5, phased)')
    # Call2(1, 2): gt index = 2*3/2 + 1 = 4 -> 4 << 3 | 2 << 1 = 36
    eq(C2.eval(1, 2), 36, 'Call2(1,2)')
    eq(C2.eval(2, 1), 36, 'Call2(2,1) unphased swaps')
    eq(C2.eval(1, 2, phased=False), 36, 'Call2(1,2,phased=false)')
    # phased: repr = diploidGtIndex(1, 1+2) = 3*4/2+1 = 7 -> 7<<3 | 2<<1 | 1 = 61
    eq(C2.eval(1, 2, True), 61, 'Call2(1,2,phased)')
    eq(C2.eval(2, 1, True), (8 << 3) | 5, 'Call2(2,1,phased): diploidGtIndex(2,3) = 8')
    throws(lambda: C2.eval(-1, 0), 'HailException', 'Call2(-1,0)')
    throws(lambda: C1.eval(-1), 'HailException', 'Call1(-1)')
    throws(lambda: C['apply'].eval(0, False, 3), 'HailException', 'Call(0,false,3)')
    throws(lambda: C['apply'].eval(1 << 29, False, 1), 'HailException', 'Call(2^29,..)')
    eq(C['apply'].eval((1 << 29) - 1, True, 2), i32(0xFFFFFFFD), 'Call(2^29-1, true, 2)')
    eq(objs['Call2'].funcs['withErrorID'].eval(1, 2, True, 17), 61, 'Call2.withErrorID')
    eq(objs['CallN'].funcs['apply/2#2'].eval([1, 2], False), 36, 'CallN([1,2])')
    eq(objs['CallN'].funcs['apply/2#2'].eval([], True), 1, 'CallN([], phased)')
    throws(lambda: objs['CallN'].funcs['apply/2#2'].eval([1, 2, 3], False),
           'UnsupportedOperationException', 'CallN([1,2,3])')
    # decoders
    eq(C['ploidy'].eval(36), 2, 'ploidy(36)')
    eq(C['ploidy'].eval(-1), 3, 'ploidy(-1)')
    eq(C['isPhased'].eval(61), True, 'isPhased(61)')
    eq(C['isPhased'].eval(36), False, 'isPhased(36)')
    eq(C['alleleRepr'].eval(61), 7, 'alleleRepr(61)')
    eq(C['alleleRepr'].eval(-1), (1 << 29) - 1, 'alleleRepr(-1) is a logical shift')
    eq(C['isDiploid'].eval(36), True, 'isDiploid(36)')
    eq(C['isHaploid'].eval(42), True, 'isHaploid(Call1(5))')
    eq(C['isUnphasedDiploid'].eval(36), True, 'isUnphasedDiploid(36)')
    eq(C['isPhasedDiploid'].eval(61), True, 'isPhasedDiploid(61)')
    eq(C['allelePair'].eval(36), 0x20001, 'allelePair(Call2(1,2))')
    eq(C['allelePair'].eval(61), 0x20001, 'allelePair(Call2(1,2,phased))')
    eq(C['alleles'].eval(61), (1, 2), 'alleles(Call2(1,2,phased))')
    eq(C['alleles'].eval(C2.eval(2, 1, True)), (2, 1), 'alleles(Call2(2,1,phased)) keeps order')
    eq(C['alleles'].eval(0), (), 'alleles(Call0)')
    eq(C['alleles'].eval(42), (5,), 'alleles(Call1(5))')
    eq(C['alleleByIndex'].eval(61, 1), 2, 'alleleByIndex')
    throws(lambda: C['alleleByIndex'].eval(61, 2), 'HailException', 'alleleByIndex(.., 2)')
    throws(lambda: C['alleleByIndex'].eval(0, 0), 'UnsupportedOperationException',
           'alleleByIndex(Call0, 0)')
    throws(lambda: C['alleles'].eval(6), 'UnsupportedOperationException', 'alleles(ploidy 3)')
    throws(lambda: C['allelePair'].eval(42), 'HailException', 'allelePair(haploid)')
    throws(lambda: C['unphase'].eval(6), 'MatchError', 'unphase(ploidy 3): no case')
    eq(C['unphase'].eval(C2.eval(2, 1, True)), 36, 'unphase(2|1) = 1/2')
    eq(C['unphasedDiploidGtIndex'].eval(C2.eval(2, 1, True)), 4, 'unphasedDiploidGtIndex(2|1)')
    eq(C['downcode'].eval(36, 2), C2.eval(0, 1), 'downcode(1/2, 2) = 0/1')
    eq(C['downcode'].eval(C2.eval(2, 1, True), 2), C2.eval(1, 0, True), 'downcode(2|1, 2) = 1|0')
    eq(C['containsAllele'].eval(36, 2), True, 'containsAllele')
    eq(C['isHet'].eval(36), True, 'isHet(1/2)')
    eq(C['isHomVar'].eval(C2.eval(2, 2)), True, 'isHomVar(2/2)')
    eq(C['isHomRef'].eval(C2.eval(0, 0)), True, 'isHomRef(0/0)')
    eq(C['isNonRef'].eval(C2.eval(0, 0)), False, 'isNonRef(0/0)')
    eq(C['isHetNonRef'].eval(36), True, 'isHetNonRef(1/2)')
    eq(C['isHetRef'].eval(C2.eval(0, 2)), True, 'isHetRef(0/2)')
    eq(C['nNonRefAlleles'].eval(C2.eval(0, 2)), 1, 'nNonRefAlleles(0/2)')
    eq(C['nNonRefAlleles'].eval(42), 1, 'nNonRefAlleles(Call1(5)): Boolean.toInt')
    # Call.check with triangle() from is.hail.utils
    chk = objs2['Call'].funcs['check']
    eq(chk.eval(36, 3), None, 'check(1/2, 3 alleles)')
    throws(lambda: chk.eval(36, 2), 'AssertionError', 'check(1/2, 2 alleles)')
    throws(lambda: chk.eval(42, 5), 'AssertionError', 'check(Call1(5), 5 alleles)')
    # symbolic spot checks: theorem-style uses of the translation
    j, k = z3.BitVecs('j k', 32)
    r = G['diploidGtIndex/2'].sym(j, k)
    s = z3.Solver()
    s.add(z3.Not(r.throws), k < 46341, r.value != k * (k + 1) / 2 + j)
    eq(s.check(), z3.unsat, 'prove diploidGtIndex = k*(k+1)/2 + j when it returns')
    s = z3.Solver()
    s.add(r.throws != z3.Or(j < 0, j > k))
    eq(s.check(), z3.unsat, 'prove diploidGtIndex throws iff j < 0 | j > k')
    c = z3.BitVec('c', 32)
    r = C['ploidy'].sym(c)
    s = z3.Solver()
    s.add(z3.Or(r.throws, z3.Not(z3.And(r.value >= 0, r.value <= 3))))
    eq(s.check(), z3.unsat, 'prove 0 <= ploidy <= 3')
    r = C2.sym(j, k, False)
    s = z3.Solver()
    s.add(z3.Not(r.throws), z3.Not(z3.And(C['ploidy'].sym(r.value).value == 2,
                                          z3.Not(C['isPhased'].sym(r.value).value))))
    eq(s.check(), z3.unsat, 'prove Call2(j,k) is an unphased diploid call when it returns')
    # unsupported things stay unsupported
    for name in ('toString', 'parse', 'toUTF8', 'vcfString', 'oneHotAlleles'):
        f = C[name]
        check(not f.in_subset and not f.concrete_ok and f.reason, '%s must be out of subset' % name)
        try:
            f.eval(0)
            fail('%s.eval did not raise' % name)
        except ScUnsupported:
            pass
    try:
        G['allelePairSqrt'].sym(j)
        fail('allelePairSqrt.sym did not raise')
    except ScUnsupported:
        pass
    print('  %d golden checks failed' % (len(FAILURES) - before))


# ----------------------------------------------------------------------------------------------
# (iv) front-end unit tests on snippets
# ----------------------------------------------------------------------------------------------

OPS = '''
package t
import is.hail.utils.implicits.toRichBoolean
object Ops {
  def add(a: Int, b: Int): Int = a + b
  def sub(a: Int, b: Int): Int = a - b
  def mul(a: Int, b: Int): Int = a * b
  def div(a: Int, b: Int): Int = a / b
  def rem(a: Int, b: Int): Int = a % b
  def and(a: Int, b: Int): Int = a & b
  def or(a: Int, b: Int): Int = a | b
  def xor(a: Int, b: Int): Int = a ^ b
  def shl(a: Int, b: Int): Int = a << b
  def shr(a: Int, b: Int): Int = a >> b
  def ushr(a: Int, b: Int): Int = a >>> b
  def neg(a: Int): Int = -a
  def inv(a: Int): Int = ~a
  def lt(a: Int, b: Int): Boolean = a < b
  def le(a: Int, b: Int): Boolean = a <= b
  def gt(a: Int, b: Int): Boolean = a > b
  def ge(a: Int, b: Int): Boolean = a >= b
  def eq(a: Int, b: Int): Boolean = a == b
  def ne(a: Int, b: Int): Boolean = a != b
  def prec(a: Int, b: Int): Int = a + b * 2 << 1 | a & 3   // ((a + b*2) << 1) | (a & 3)
  def prec2(a: Int, b: Int): Boolean = a < 0 | a > b && b != 3 || a == 7
  def hexes(a: Int): Int = (a & 0xFFFFFFFF) + 0x7fffffff + -2147483648
  def bools(p: Boolean, q: Boolean): Int =
    (p & q).toInt + (p | q).toInt * 2 + (p ^ q).toInt * 4 + (!p).toInt * 8 + (p == q).toInt * 16 +
      (p != q).toInt * 32
  def shortAnd(a: Int, b: Int): Boolean = b != 0 && a / b > 1
  def shortOr(a: Int, b: Int): Boolean = b == 0 || a / b > 1
  def strictOr(a: Int, b: Int): Boolean = b == 0 | a / b > 1
  def vars(a: Int, b: Boolean): Int = {
    var c = 1
    var d = a
    c |= b.toInt << 4
    if (a > 10)
      c += a
    else if (a < -10) {
      c -= a
      d = 5
    }
    if (b) d *= 3
    c ^= d
    c <<= 1
    c
  }
  def mtch(a: Int): Int = (a: @switch) match {
    case 0 => 10
    case 1 | 2 =>
      val t = a * 100
      t + 1
    case -1 => throw new IllegalStateException("minus one")
    case 5 => fatal(s"five $a")
    case _ => if (a > 100) a else -a
  }
  def noDefault(a: Int): Int = a match { case 0 => 1
    case 1 => 2 }
  def dflt(a: Int, b: Int = 7, c: Boolean = false): Int = if (c) a - b else a + b
  def useDflt(a: Int): Int = dflt(a) + dflt(a, c = true) + dflt(b = a, a = 1) + dflt(a, 2, true)
  val tbl = Array(10, 20, 30)
  val tbl2: Array[Int] = tbl.map(x => x + 1)
  val n = tbl.length
  def idx(i: Int): Int = tbl(i) + tbl2(i) + n
  def nested(a: Int): Int = {
    def sq(x: Int): Int = x * x
    val f = sq(a)
    sq(f) + sq(2)
  }
  def hof(a: Int, b: Int): Int = {
    val s = if (a < b) ArraySeq(a, b) else ArraySeq(b, a, 1)
    val t = s.map(_ + 1)
    val u = t.map(x => 100 / x)
    (if (u.forall(_ > 3)) 1 else 0) + (if (s.exists(x => 7 / x == 1)) 2 else 0) + u.count(_ == 1) * 4 +
      t.length * 8 + u(2)
  }
  def each(a: Int, b: Int): Unit = ArraySeq(a, b).foreach(x => require(x >= 0, "neg"))
  def sqrt(a: Int): Int = (Math.sqrt(a.toDouble) * 2.5 - 0.25).toInt
  def sat(a: Int): Int = (a.toDouble * 4.0).toInt + (0.0 / 0.0).toInt
  def loop(a: Int): Int = if (a <= 0) 0 else loop(a - 1) + 2
  def ping(a: Int): Int = if (a <= 0) 0 else pong(a - 1) + 1
  def pong(a: Int): Int = ping(a)
  def viaLoop(a: Int): Int = ping(a) + 1
  def blockArg(a: Int): Boolean = a > 0 && {
      val h = a / 2
      h * 2 == a
    }
  def unitIf(a: Int): Int = {
    if (a < 0)
      fatal("neg")
    if (a == 3) assert(a != 3)
    a
  }
}
'''

JVM_GOLDEN = [
    ('div', (-7, 2), -3), ('div', (7, -2), -3), ('rem', (-7, 2), -1), ('rem', (7, -2), 1),
    ('div', (-2 ** 31, -1), -2 ** 31), ('rem', (-2 ** 31, -1), 0),
    ('mul', (65536, 65536), 0), ('mul', (46341, 46341), -2147479015),
    ('add', (2 ** 31 - 1, 1), -2 ** 31), ('sub', (-2 ** 31, 1), 2 ** 31 - 1),
    ('neg', (-2 ** 31,), -2 ** 31), ('inv', (0,), -1),
    ('shl', (1, 33), 2), ('shl', (1, 31), -2 ** 31), ('shl', (1, -1), -2 ** 31),
    ('shr', (-8, 1), -4), ('shr', (-1, 40), -1), ('ushr', (-1, 28), 15), ('ushr', (-8, 33), 2 ** 31 - 4),
    ('ushr', (-1, 32), -1),
    ('lt', (-1, 0), True), ('gt', (-2 ** 31, 2 ** 31 - 1), False),
    ('prec', (5, 3), ((5 + 3 * 2) << 1) | (5 & 3)),
    ('prec2', (7, 3), True), ('prec2', (5, 3), False), ('prec2', (5, 4), True), ('prec2', (-1, 3), True),
    ('hexes', (-1,), i32(-1 + 0x7fffffff - 2 ** 31)),
    ('bools', (True, False), 0 + 2 + 4 + 0 + 0 + 32), ('bools', (False, False), 8 + 16),
    ('shortAnd', (5, 0), False), ('shortOr', (5, 0), True),
    ('vars', (20, True), ((1 | 16) + 20 ^ 60) << 1), ('vars', (-20, False), ((1 + 20) ^ 5) << 1),
    ('vars', (3, False), (1 ^ 3) << 1),
    ('mtch', (0,), 10), ('mtch', (2,), 201), ('mtch', (200,), 200), ('mtch', (50,), -50),
    ('noDefault', (1,), 2),
    ('useDflt', (10,), 17 + 3 + 11 + 8),
    ('idx', (1,), 20 + 21 + 3),
    ('nested', (3,), 81 + 4),
    ('hof', (4, 1), 1 + 2 + 0 + 24 + 50),
    ('sqrt', (16,), 9), ('sqrt', (2,), 3), ('sqrt', (-4,), 0),
    ('sat', (2 ** 30,), 2 ** 31 - 1), ('sat', (-2 ** 30,), -2 ** 31), ('sat', (5,), 20),
    ('loop', (10,), 20), ('viaLoop', (3,), 4),
    ('blockArg', (6,), True), ('blockArg', (7,), False), ('blockArg', (-2,), False),
    ('unitIf', (4,), 4),
]
JVM_THROWS = [
    ('div', (1, 0), 'ArithmeticException'), ('rem', (1, 0), 'ArithmeticException'),
    ('strictOr', (5, 0), 'ArithmeticException'),
    ('mtch', (-1,), 'IllegalStateException'), ('mtch', (5,), 'HailException'),
    ('noDefault', (2,), 'MatchError'),
    ('idx', (3,), 'ArrayIndexOutOfBoundsException'), ('idx', (-1,), 'ArrayIndexOutOfBoundsException'),
    ('hof', (1, 4), 'ArrayIndexOutOfBoundsException'), ('hof', (-1, 4), 'ArithmeticException'),
    ('each', (1, -1), 'IllegalArgumentException'),
    ('unitIf', (-1,), 'HailException'), ('unitIf', (3,), 'AssertionError'),
]

VALUE_CLASS = '''
package is.hail.variant
object AllelePair {
  def apply(j: Int, k: Int): AllelePair = {
    require(j >= 0 && j <= 0xffff, s"GTPair invalid j value $j")
    require(k >= 0 && k <= 0xffff, s"GTPair invalid k value $k")
    new AllelePair(j | (k << 16))
  }
}
class AllelePair(val p: Int) extends AnyVal {
  def j: Int = p & 0xffff
  def k: Int = (p >> 16) & 0xffff
  def nNonRefAlleles: Int =
    (if (j != 0) 1 else 0) + (if (k != 0) 1 else 0)
  def plus(d: Int): Int = j + k + d
}
object User {
  def swap(p: AllelePair): AllelePair = AllelePair(p.k, p.j)
  def total(a: Int, b: Int): Int = {
    val q = AllelePair(a, b)
    q.nNonRefAlleles * 1000 + q.plus(1)
  }
}
'''

REJECTED = [
    ('def f(a: Int): Int = {\n  val x = a\n  + 1\n  x\n}', 'statement starting with operator'),
    ('def f(a: Int): Int = { var i = 0; while (i < a) i += 1; i }', "'while'"),
    ('def f(a: Int): Int = a max 3', 'alphanumeric infix'),
    ('def f(a: Int): Long = a.toLong', 'return type Long'),
    ('def f(a: Int): Int = (a + 1L).toInt', 'Long literal'),
    ('def f(a: Int): Int = a.abs', 'member .abs'),
    ('def f(a: Int): Int = g(a)', 'unknown function g'),
    ('def f(a: Int): Int = Foo.g(a)', 'unknown object or value Foo'),
    ('def f(a: Int): Int = math.pow(a, 2).toInt', 'math.pow'),
    ('def f(a: Int): Int = { val (x, y) = (a, a); x }', 'pattern definition'),
    ('def f(a: Int): Int = try a catch { case _: Exception => 0 }', "'try'"),
    ('def f(a: Int): Int = a match { case x if x > 0 => 1; case _ => 0 }', 'pattern'),
    ('def f(a: String): Int = a.length', 'type String'),
    ('def f[T](a: Int): Int = a', 'type parameters'),
    ('def f(a: Int)(b: Int): Int = a', 'multiple parameter lists'),
    ('def f(a: Int): Int = { a = 3; a }', 'not a local var'),
    ('def f(a: Int): Int = if (a) 1 else 0', None),       # kind error: found at evaluation time
    ('def f(a: Int): Int = 2147483648', 'out of range'),
    ('def f(a: Int): Int = a.toString.length', 'member .toString'),
    ('def f(a: Int): Int = List(a).head', 'unknown function List'),
    ('def f(a: Int): Int = { var c = 0; val g = (x: Int) => x + c; c = 1; g(a) }', None),
]


def snippets():
    print('\n== (iv) front-end unit tests ==')
    before = len(FAILURES)
    objs = scvc.load_source(OPS, 'Ops.scala')
    F = objs['Ops'].funcs
    for name, args, want in JVM_GOLDEN:
        try:
            got = F[name].eval(*args)
        except (ScThrow, ScUnsupported) as e:
            got = e
        check(got == want and type(got) is type(want), 'Ops.%s%r: got %r, want %r'
              % (name, args, got, want))
    for name, args, kind in JVM_THROWS:
        try:
            got = F[name].eval(*args)
            fail('Ops.%s%r returned %r, want %s' % (name, args, got, kind))
        except ScThrow as e:
            check(e.kind == kind, 'Ops.%s%r threw %s, want %s' % (name, args, e.kind, kind))
    check(objs['Ops'].vals == {'tbl': (10, 20, 30), 'tbl2': (11, 21, 31), 'n': 3},
          'Ops vals: %r' % objs['Ops'].vals)
    # subset flags
    for name in ('sqrt', 'sat', 'loop', 'ping', 'pong', 'viaLoop'):
        check(F[name].concrete_ok and not F[name].in_subset,
              'Ops.%s must be concrete-only, is %s / %s' % (name, F[name].in_subset, F[name].reason))
    rng = random.Random(7)
    n = 0
    for f in F.values():
        if f.in_subset:
            small = [rng.randrange(-40, 40) for _ in range(30)]
            k, _ = cross_validate(f, arg_tuples(f, small, rng, N_TUPLES), direct_every=16)
            n += k
        else:
            check(f.name in ('sqrt', 'sat', 'loop', 'ping', 'pong', 'viaLoop'),
                  'Ops.%s unexpectedly out of subset: %s' % (f.name, f.reason))
    print('  Ops: %d golden JVM values, %d throw cases, %d cross-validation tuples over %d '
          'functions' % (len(JVM_GOLDEN), len(JVM_THROWS), n, sum(f.in_subset for f in F.values())))

    # value class lifting (upstream Hail's AllelePair is `class AllelePair(val p: Int) extends AnyVal`)
    vc = scvc.load_source(VALUE_CLASS, 'AllelePairClass.scala')
    A, U = vc['AllelePair'].funcs, vc['User'].funcs
    check(A['j'].params == [('p', 'Int')] and A['j'].in_subset, 'lifted AllelePair.j(p)')
    check(A['j'].eval(0x50003) == 3 and A['k'].eval(0x50003) == 5, 'AllelePair.j/k(p)')
    check(A['nNonRefAlleles'].eval(0x50000) == 1, 'lifted sibling call with implicit receiver')
    check(A['apply'].eval(3, 5) == 0x50003, 'companion apply with `new AllelePair(x)`')
    check(U['swap'].eval(0x50003) == 0x30005, 'p.k / p.j on a value of value-class type')
    check(U['total'].eval(0, 9) == 1000 + 10, 'method with argument on value class')
    for f in list(A.values()) + list(U.values()):
        check(f.in_subset, '%s should be in subset: %s' % (f.qualname, f.reason))
        k, _ = cross_validate(f, arg_tuples(f, [0x50003, 7, 0x10000], rng, 2000), direct_every=16)
    # fail-loud behaviour
    for body, needle in REJECTED:
        src = 'package t\nobject R {\n%s\n}\n' % body
        try:
            f = scvc.load_source(src, 'R.scala')['R'].funcs['f']
        except ScUnsupported as e:
            fail('loading %r raised instead of flagging: %s' % (body, e))
            continue
        if needle is None:
            ok = False
            try:
                f.eval(1)
            except ScUnsupported:
                ok = True
            except ScThrow:
                pass
            check(ok, 'rejected-at-evaluation snippet was evaluated: %r' % body)
            ok = False
            try:
                f.sym(z3.BitVec('a', 32))
            except ScUnsupported:
                ok = True
            check(ok, 'rejected-at-evaluation snippet was translated: %r' % body)
            continue
        check(not f.in_subset and not f.concrete_ok and needle in (f.reason or ''),
              'snippet %r: in_subset=%s reason=%r (wanted %r)' % (body, f.in_subset, f.reason,
                                                                needle))
        try:
            f.eval(1)
            fail('snippet %r was evaluated' % body)
        except ScUnsupported:
            pass
    # a neighbour of an unparsable member is not disturbed, and lines are right
    two = scvc.load_source('object T {\n  def bad(a: Int): Int = a ?? 3\n\n  def good(a: Int): Int =\n'
                           '    a + 1\n  private[this] val s = "x"\n  def g2(a: Int): Int = good(a) }', 'T.scala')
    T = two['T'].funcs
    check(not T['bad'].in_subset and 'line 2' in T['bad'].reason, 'bad member reason: %r' % T['bad'].reason)
    check(T['good'].in_subset and (T['good'].first_line, T['good'].last_line) == (4, 5), 'good member lines')
    check(T['g2'].eval(1) == 2, 'member after a val')
    check('s' in two['T'].unsupported_vals, 'String val is unsupported')
    print('  %d unit checks failed' % (len(FAILURES) - before))


def main():
    t0 = time.time()
    objs, objs2 = real_sources()
    golden(objs, objs2)
    snippets()
    print('\n%s: %d failure(s), %.1fs' % ('FAILED' if FAILURES else 'OK', len(FAILURES),
                                         time.time() - t0))
    if FAILURES:
        for m in FAILURES[:40]:
            print('  - ' + m)
        sys.exit(1)


if __name__ == '__main__':
    main()
