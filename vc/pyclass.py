"""Class-aware layer over pyvc: an index of the classes of some repository modules (bases, class-level constants, methods with
their defining class, C3 linearisation) and *inlining* of real methods - a call model that executes the callee's real body with
the caller's symbolic arguments and hands every outcome back to the caller as a Fork alternative.  Nothing of a class is
modelled by hand: constructors run the real __init__, class constants are read from the class body on every run.
"""
from __future__ import annotations

import ast
from typing import Any, Dict, List, Optional

import z3

from vc import core, pyvc
from vc.pyvc import Contract, Fork, SExc, SRecord, Undecided


class ClassIndex:
    def __init__(self, paths: List[str]):
        self.classes: Dict[str, Any] = {}
        self.path_of: Dict[str, str] = {}
        self.funcs: Dict[str, Any] = {}  # module-level functions: name -> (path, node)
        self.paths = list(paths)
        for p in paths:
            tree = ast.parse(core.read_repo(p))
            for n in tree.body:
                if isinstance(n, ast.ClassDef):
                    self.classes[n.name] = n
                    self.path_of[n.name] = p
                elif isinstance(n, (ast.FunctionDef, ast.AsyncFunctionDef)):
                    self.funcs[n.name] = (p, n)

    def bases(self, cls):
        out = []
        for b in self.classes[cls].bases:
            name = b.id if isinstance(b, ast.Name) else (b.attr if isinstance(b, ast.Attribute) else None)
            if name in self.classes:
                out.append(name)
        return out

    def mro(self, cls) -> List[str]:
        """C3 linearisation over the indexed classes (bases outside the index - abc.ABC, TypedDict - carry no behaviour used here)"""
        bs = self.bases(cls)
        seqs = [self.mro(b) for b in bs] + [list(bs)]
        res = [cls]
        while True:
            seqs = [s for s in seqs if s]
            if not seqs:
                return res
            for s in seqs:
                cand = s[0]
                if not any(cand in t[1:] for t in seqs):
                    break
            else:
                raise Undecided('inconsistent class hierarchy at %s' % cls)
            res.append(cand)
            for s in seqs:
                if s[0] == cand:
                    del s[0]

    def find(self, cls, meth, after: Optional[str] = None):
        """(path, owner, FunctionDef) of cls.meth by the MRO; `after` = owner class of the caller for super()"""
        order = self.mro(cls)
        if after is not None:
            order = order[order.index(after) + 1:]
        for c in order:
            found = None
            for n in self.classes[c].body:
                if isinstance(n, (ast.FunctionDef, ast.AsyncFunctionDef)) and n.name == meth:
                    found = n
            if found is not None:
                return self.path_of[c], c, found
        raise Undecided('anchor-moved: no method %s on %s' % (meth, cls))

    def is_abstract(self, fn) -> bool:
        return any('abstractmethod' in ast.unparse(d) for d in fn.decorator_list)

    def is_static(self, fn) -> bool:
        return any(ast.unparse(d) in ('staticmethod', 'classmethod') for d in fn.decorator_list)

    def consts(self, cls) -> Dict[str, Any]:
        out: Dict[str, Any] = {}
        for c in reversed(self.mro(cls)):
            for n in self.classes[c].body:
                if isinstance(n, ast.Assign) and len(n.targets) == 1 and isinstance(n.targets[0], ast.Name) and isinstance(n.value, ast.Constant):
                    out[n.targets[0].id] = n.value.value
        return out

    def class_object(self, cls) -> SRecord:
        return SRecord('classobj:' + cls, self.consts(cls))

    def new_instance(self, cls, fields=None) -> SRecord:
        r = SRecord(cls, dict(self.consts(cls)))
        r.fields.update(fields or {})
        return r

    def concrete(self) -> List[str]:
        """classes with no abstract method left"""
        out = []
        for c in self.classes:
            abstract = False
            seen = set()
            for k in self.mro(c):
                for n in self.classes[k].body:
                    if isinstance(n, (ast.FunctionDef, ast.AsyncFunctionDef)) and n.name not in seen:
                        seen.add(n.name)
                        if self.is_abstract(n):
                            abstract = True
            if not abstract:
                out.append(c)
        return out


class Inliner:
    """executes real functions / methods of the indexed modules symbolically; usable stand-alone (outcomes()) and as call
    models inside another engine (call models raise Fork with one alternative per outcome of the callee)"""

    def __init__(self, ctx, cx: ClassIndex, calls=None, consts=None, types=None, raises_ok=None, shared=()):
        self.ctx = ctx
        self.cx = cx
        self.extra_calls = dict(calls or {})
        self.extra_consts = dict(consts or {})
        self.types = dict(types or {})
        self.seq = 0
        self.depth = 0
        self.raises_ok = raises_ok  # None: exceptions are outcomes handed to the caller
        self.shared = list(shared)  # ghost globals of the caller visible to (and written back from) inlined bodies
        self.engine_cls = pyvc.Engine
        self.contract_kw = {}  # extra Contract fields for inlined bodies (e.g. bv_checked, strings)

    # ---- call models shared by every inlined body
    def call_models(self, owner: Optional[str], self_rec: Optional[SRecord]):
        calls: Dict[str, Any] = {}
        for cls in self.cx.classes:
            calls[cls] = (lambda cls: lambda eng, st, args, kw, node: self.construct(cls, args, kw, st, node))(cls)
            for n in self.cx.classes[cls].body:
                if isinstance(n, (ast.FunctionDef, ast.AsyncFunctionDef)) and self.cx.is_static(n):
                    calls['%s.%s' % (cls, n.name)] = (lambda cls, m: lambda eng, st, args, kw, node: self.call(cls, m, None, args, kw, st, node))(cls, n.name)
        for fname in self.cx.funcs:
            calls[fname] = (lambda f: lambda eng, st, args, kw, node: self.call_function(f, args, kw, st, node))(fname)
        if owner is not None and self_rec is not None:
            for c in self.cx.mro(self_rec.cls):
                for n in self.cx.classes[c].body:
                    if isinstance(n, (ast.FunctionDef, ast.AsyncFunctionDef)) and not self.cx.is_static(n):
                        calls['super().%s' % n.name] = (lambda m: lambda eng, st, args, kw, node: self.call(st.env['self'].cls, m, st.env['self'], args, kw, st, node, after=owner))(n.name)
                        calls['self.%s' % n.name] = (lambda m: lambda eng, st, args, kw, node: self.call(st.env['self'].cls, m, st.env['self'], args, kw, st, node))(n.name)
        calls.update(self.extra_calls)
        return calls

    def consts(self):
        env = {c: self.cx.class_object(c) for c in self.cx.classes}
        env.update(self.extra_consts)
        return env

    # ---- running one body
    def outcomes(self, path, qualname, fn, env, pc, label, owner=None, self_rec=None):
        """-> list of (kind 'value'|'raise', payload, state)"""
        self.seq += 1
        names = [a.arg for a in fn.args.posonlyargs + fn.args.args + fn.args.kwonlyargs]

        def setup(eng, st):
            for k, v in env.items():
                st.env[k] = v
            for c in pc:
                st.assume(c)

        c = Contract(
            path=path,
            qualname=qualname,
            label=label,
            types=dict({n: 'U' for n in names}, **self.types),
            setup=setup,
            calls=self.call_models(owner, self_rec),
            consts=self.consts(),
            raises={'*': True},
            **self.contract_kw,
        )
        eng = self.engine_cls(self.ctx, c)
        outs = []
        eng.at_return = lambda st, res: outs.append(('value', res, st))
        eng.at_raise = lambda st, exc: outs.append(('raise', exc, st))
        self.depth += 1
        if self.depth > 8:
            raise Undecided('inlining depth exceeded at %s' % qualname)
        try:
            eng.run()
        finally:
            self.depth -= 1
        return outs

    def bind(self, fn, args, kw, skip_self, eng_for_defaults=None):
        a = fn.args
        names = [x.arg for x in a.posonlyargs + a.args]
        if skip_self and names and names[0] in ('self', 'cls'):
            names = names[1:]
        env = {}
        defaults = a.defaults
        for n_, d in zip(names[len(names) - len(defaults):], defaults):
            if isinstance(d, ast.Constant):
                env[n_] = d.value
        for n_, v in zip(names, args):
            env[n_] = v
        for k_, v in kw.items():
            env[k_] = v
        missing = [n for n in names if n not in env]
        if missing:
            raise Undecided('inlined call of %s: no value for parameter(s) %s' % (fn.name, missing))
        return env

    def _writeback(self, caller, sub, with_self):
        if with_self and isinstance(sub.env.get('self'), SRecord) and isinstance(caller.env.get('self'), SRecord):
            caller.env['self'].fields.update(sub.env['self'].fields)
        for n in self.shared:
            if n in sub.env:
                caller.env[n] = sub.env[n]

    def _fork(self, outs, st, node, pick=lambda kind, payload, s: payload, with_self=False):
        base = len(st.pc)
        alts = []
        for i, (kind, payload, s) in enumerate(outs):
            extra = list(s.pc[base:])
            cond = z3.And(*extra) if extra else None
            alts.append(('inl%d' % i, cond, kind, pick(kind, payload, s), (lambda sub: lambda caller: self._writeback(caller, sub, with_self))(s)))
        if len(alts) == 1 and alts[0][1] is None:
            kind, payload = alts[0][2], alts[0][3]
            self._writeback(st, outs[0][2], with_self)
            if kind == 'raise':
                raise pyvc.PyRaise(payload)
            return payload
        raise Fork(node, alts)

    # ---- call models
    def call(self, cls, meth, self_rec, args, kw, st, node, after=None):
        path, owner, fn = self.cx.find(cls, meth, after=after)
        static = self.cx.is_static(fn)
        env = self.bind(fn, args, kw, skip_self=not static)
        if not static:
            env['self'] = self_rec.clone() if isinstance(self_rec, SRecord) else self_rec  # effects reach the caller through _writeback only
        for n in self.shared:
            if n in st.env:
                env[n] = st.env[n]
        outs = self.outcomes(path, '%s.%s' % (owner, meth), fn, env, list(st.pc), '%s.%s#%d' % (owner, meth, self.seq), owner=owner, self_rec=self_rec)
        return self._fork(outs, st, node, with_self=(not static and self_rec is st.env.get('self')))

    def call_function(self, fname, args, kw, st, node):
        path, fn = self.cx.funcs[fname]
        env = self.bind(fn, args, kw, skip_self=False)
        outs = self.outcomes(path, fname, fn, env, list(st.pc), '%s#%d' % (fname, self.seq))
        return self._fork(outs, st, node)

    def construct(self, cls, args, kw, st, node):
        rec = self.cx.new_instance(cls)
        path, owner, fn = self.cx.find(cls, '__init__')
        env = self.bind(fn, args, kw, skip_self=True)
        env['self'] = rec
        outs = self.outcomes(path, '%s.__init__' % owner, fn, env, list(st.pc), '%s.__init__#%d' % (owner, self.seq), owner=owner, self_rec=rec)
        return self._fork(outs, st, node, pick=lambda kind, payload, s: s.env['self'] if kind == 'value' else payload)

    # ---- stand-alone entry points (used by contract modules)
    def run_method(self, self_rec: SRecord, meth, args=(), kw=None, pc=(), label=None):
        path, owner, fn = self.cx.find(self_rec.cls, meth)
        static = self.cx.is_static(fn)
        env = self.bind(fn, list(args), dict(kw or {}), skip_self=not static)
        if not static:
            env['self'] = self_rec.clone()
        self.ctx.under_contract(path, '%s.%s' % (owner, meth))
        return self.outcomes(path, '%s.%s' % (owner, meth), fn, env, list(pc), label or '%s.%s#%d' % (owner, meth, self.seq), owner=owner, self_rec=self_rec)

    def run_function(self, fname, args=(), kw=None, pc=(), label=None):
        path, fn = self.cx.funcs[fname]
        env = self.bind(fn, list(args), dict(kw or {}), skip_self=False)
        return self.outcomes(path, fname, fn, env, list(pc), label or '%s#%d' % (fname, self.seq))

    def run_ctor(self, cls, args=(), kw=None, pc=(), label=None):
        rec = self.cx.new_instance(cls)
        path, owner, fn = self.cx.find(cls, '__init__')
        env = self.bind(fn, list(args), dict(kw or {}), skip_self=True)
        env['self'] = rec
        outs = self.outcomes(path, '%s.__init__' % owner, fn, env, list(pc), label or '%s.__init__#%d' % (owner, self.seq), owner=owner, self_rec=rec)
        return [(k, (s.env['self'] if k == 'value' else p), s) for k, p, s in outs]
