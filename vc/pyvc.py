"""pyvc: Python AST -> verification conditions.

A forward symbolic executor over the REAL source of one function (re-read from /repo on every run), cut at loops by
contract-supplied invariants and at calls by contract-supplied callee models (modular: a caller sees the callee's
contract only).  Every assertion point yields a named obligation `pc => goal` that is discharged by z3 / cvc5.

Semantics assumed of Python (stated in evidence): ints are mathematical integers (exact for Python); `//` and `%`
are floor division/modulo; floats, when a contract opts in, are reals and the use is listed as an assumption; a list
is a pair (length, Int-indexed array) with value semantics and no aliasing between distinct variables (the executor
refuses programs that mutate a list after storing it in another container); exceptions are control flow.
"""
from __future__ import annotations

import ast
import builtins
import copy
import itertools
from dataclasses import dataclass, field
from typing import Any, Callable, Dict, List, Optional, Tuple

import z3

from . import core
from .core import Obl, Undecided, valid

U = z3.DeclareSort('U')
_fresh_counter = itertools.count()


def fresh_name(base):
    return '%s!%d' % (base, next(_fresh_counter))


# ---------------------------------------------------------------------------------------------
# types

_DT_CACHE: Dict[str, Any] = {}


def parse_type(t) -> Any:
    """'int' | 'bool' | 'real' | 'U' | 'str' | ('list', T) | ('tuple', (T,...)) | ('array', K, V)"""
    if not isinstance(t, str):
        return t
    node = ast.parse(t, mode='eval').body
    return _type_of_node(node)


def _type_of_node(node) -> Any:
    if isinstance(node, ast.Name):
        n = node.id
        if n == 'bv64':
            return 'bv64'
        if n in ('int',):
            return 'int'
        if n in ('bool',):
            return 'bool'
        if n in ('float', 'real'):
            return 'real'
        if n in ('str',):
            return 'str'
        return 'U'
    if isinstance(node, ast.Constant) and node.value is None:
        return 'U'
    if isinstance(node, ast.Constant) and isinstance(node.value, str):
        return parse_type(node.value)
    if isinstance(node, ast.Attribute):
        return 'U'
    if isinstance(node, ast.Subscript):
        base = node.value.id if isinstance(node.value, ast.Name) else getattr(node.value, 'attr', '')
        if base in ('List', 'list', 'Deque', 'deque', 'Sequence', 'Iterable'):
            return ('list', _type_of_node(node.slice))
        if base in ('Dict', 'dict', 'Mapping'):
            k, v = node.slice.elts
            return ('dict', _type_of_node(k), _type_of_node(v))
        if base in ('Tuple', 'tuple'):
            elts = node.slice.elts if isinstance(node.slice, ast.Tuple) else [node.slice]
            return ('tuple', tuple(_type_of_node(e) for e in elts))
        if base in ('Array',):
            k, v = node.slice.elts
            return ('array', _type_of_node(k), _type_of_node(v))
        if base in ('Map',):
            k, v = node.slice.elts
            return ('map', _type_of_node(k), _type_of_node(v))
        return 'U'
    return 'U'


def type_key(t) -> str:
    if isinstance(t, str):
        return t
    if t[0] == 'rec':
        return 'rec<%s>' % ','.join('%s:%s' % (n, type_key(x)) for n, x in t[1])
    return '%s<%s>' % (t[0], ','.join(type_key(x) for x in (t[1] if t[0] == 'tuple' else t[1:])))


def rec_type(**fields):
    return ('rec', tuple((n, parse_type(t)) for n, t in fields.items()))


def sort_of(t):
    if t == 'int':
        return z3.IntSort()
    if t == 'bool':
        return z3.BoolSort()
    if t == 'real':
        return z3.RealSort()
    if t == 'str':
        return z3.StringSort()
    if t == 'U':
        return U
    if t == 'bv64':
        return z3.BitVecSort(64)
    k = type_key(t)
    if k in _DT_CACHE:
        return _DT_CACHE[k]
    if t[0] == 'list':
        dt = z3.Datatype('List_' + k)
        dt.declare('mk', ('len', z3.IntSort()), ('arr', z3.ArraySort(z3.IntSort(), sort_of(t[1]))))
        s = dt.create()
    elif t[0] == 'tuple':
        dt = z3.Datatype('Tup_' + k)
        dt.declare('mk', *[('f%d' % i, sort_of(x)) for i, x in enumerate(t[1])])
        s = dt.create()
    elif t[0] == 'array':
        s = z3.ArraySort(sort_of(t[1]), sort_of(t[2]))
    elif t[0] == 'rec':
        dt = z3.Datatype('Rec_' + k)
        dt.declare('mk', *[(n, sort_of(x)) for n, x in t[1]])
        s = dt.create()
    else:
        raise Undecided('type %r' % (t,))
    _DT_CACHE[k] = s
    return s


# ---------------------------------------------------------------------------------------------
# values


class SList:
    """immutable symbolic list value"""

    def __init__(self, length, arr, et):
        self.len = length
        self.arr = arr
        self.et = et

    def __repr__(self):
        return 'SList(len=%s, et=%s)' % (self.len, type_key(self.et) if self.et else None)


class SFrac:
    """an exact rational (fractions.Fraction / decimal value); plain z3 Real terms are Python floats"""

    def __init__(self, term):
        self.term = term

    def __repr__(self):
        return 'SFrac(%s)' % self.term


class SRecord:
    """a mutable object whose fields the executor tracks (e.g. `self`)"""

    def __init__(self, cls, fields=None):
        self.cls = cls
        self.fields: Dict[str, Any] = dict(fields or {})
        self.rtype = None

    def clone(self):
        r = SRecord(self.cls, dict(self.fields))
        r.rtype = getattr(self, 'rtype', None)
        return r


class SDict:
    """a symbolic dict: insertion-ordered item list + lookup function + membership predicate (kept consistent by wf facts)"""

    def __init__(self, items, kt, vt, val, has):
        self.items = items  # SList of ('tuple', (kt, vt))
        self.kt, self.vt = kt, vt
        self.val = val  # z3 Function K -> V
        self.has = has  # z3 Function K -> Bool


class SMap:
    """a mutable finite map (dict / set) as total arrays: has: K -> Bool, val: K -> V, and its cardinality `size`, which the
    executor updates on every insertion of a new key / deletion of a present key (size is the cardinality by construction;
    a fresh map only knows size >= 0)"""

    def __init__(self, has, val, size, kt, vt):
        self.has, self.val, self.size, self.kt, self.vt = has, val, size, kt, vt


def merge_maps(a: 'SMap', b: 'SMap', st=None) -> 'SMap':
    """(C23) `{**a, **b}` / `a.update(b)` on finite maps with the same key and value types: b's entries win.  The cardinality of
    the union is a fresh integer between max(|a|, |b|) and |a| + |b|, tied to the key set by the usual well-formedness facts
    (assumed on `st` when given; without a state the size is merely unconstrained, which over-approximates)"""
    k = z3.Const(fresh_name('mk'), sort_of(a.kt))
    has = z3.Lambda([k], z3.Or(z3.Select(a.has, k), z3.Select(b.has, k)))
    val = z3.Lambda([k], z3.If(z3.Select(b.has, k), z3.Select(b.val, k), z3.Select(a.val, k)))
    m = SMap(has, val, z3.Int(fresh_name('merged.size')), a.kt, a.vt)
    if st is not None:
        for w in wf_constraints(m):
            st.assume(w)
        st.assume(z3.And(m.size >= a.size, m.size >= b.size, m.size <= a.size + b.size))
    return m


class SDotted:
    """an unresolved dotted name (module attribute, class, enum member...)"""

    def __init__(self, name):
        self.name = name

    def __repr__(self):
        return 'SDotted(%s)' % self.name


class SFunc:
    def __init__(self, name, fn):
        self.name = name
        self.fn = fn  # fn(engine, st, args, kwargs, node) -> value


class SExc:
    """an exception value: concrete class name, or symbolic (a U term with isinstance predicates)"""

    def __init__(self, cls: Optional[str] = None, term=None, args=()):
        self.cls = cls
        self.term = term
        self.args = args

    def __repr__(self):
        return 'SExc(%s)' % (self.cls or self.term)


class Fork(Exception):
    """raised by a call model that has several outcomes; the statement is re-executed once per alternative"""

    def __init__(self, node, alts):
        self.node = node
        self.alts = alts  # list of (label, cond or None, kind 'value'|'raise', payload)


class _SplitKey:
    """identity of one path-split decision that is not tied to an AST node of its own"""

    def __init__(self, lineno):
        self.lineno = lineno


class PyRaise(Exception):
    def __init__(self, exc: SExc, line=None):
        self.exc = exc
        self.line = line


class _MaybeUnbound:
    def __repr__(self):
        return 'MAYBE_UNBOUND'


MAYBE_UNBOUND = _MaybeUnbound()  # environment entry of a name that the loop being cut may or may not have bound


def _local_names(fn) -> set:
    """names that are local variables of `fn` by Python's scoping rule: parameters and every name bound somewhere in its body
    (not inside nested functions, lambdas, classes or comprehensions), minus those declared global / nonlocal"""
    out, skip = set(), set()
    a = fn.args
    for x in a.posonlyargs + a.args + a.kwonlyargs:
        out.add(x.arg)  # (*args / **kwargs are not bound by the executor: they stay opaque names)
    stack = list(fn.body)
    while stack:
        n = stack.pop()
        if isinstance(n, (ast.FunctionDef, ast.AsyncFunctionDef, ast.ClassDef)):
            out.add(n.name)
            continue
        if isinstance(n, (ast.Lambda, ast.ListComp, ast.SetComp, ast.DictComp, ast.GeneratorExp)):
            # their targets are local to them; a walrus inside a comprehension binds in the enclosing function
            out.update(t.target.id for t in ast.walk(n) if isinstance(t, ast.NamedExpr) and isinstance(t.target, ast.Name) and not isinstance(n, ast.Lambda))
            continue
        if isinstance(n, (ast.Global, ast.Nonlocal)):
            skip.update(n.names)
        elif isinstance(n, ast.Name) and isinstance(n.ctx, (ast.Store, ast.Del)):
            out.add(n.id)
        elif isinstance(n, ast.ExceptHandler) and n.name:
            out.add(n.name)
        elif isinstance(n, (ast.Import, ast.ImportFrom)):
            out.update((al.asname or al.name).split('.')[0] for al in n.names)
        stack.extend(ast.iter_child_nodes(n))
    return out - skip - {x.arg for x in (a.vararg, a.kwarg) if x is not None}


INTERNED_STRINGS = set()  # string literals encoded as constants of the opaque sort; distinct literals denote distinct values


def interned_distinct(formulas=None):
    """distinct string literals (and None) denote distinct values.  With `formulas`, only the constants that occur in them are
    listed: the hypothesis is as strong for that obligation and does not change with what other contracts of the same run interned
    (an obligation must not become harder because an unrelated engine ran before it)"""
    names = ['str_' + v for v in sorted(INTERNED_STRINGS)] + ['const_None']
    if formulas is not None:
        want = set(names)
        seen, found, stack = set(), set(), [f for f in formulas if isinstance(f, z3.ExprRef)]
        while stack:
            x = stack.pop()
            i = x.get_id()
            if i in seen:
                continue
            seen.add(i)
            if z3.is_quantifier(x):
                stack.append(x.body())
                continue
            if z3.is_app(x):
                if x.num_args() == 0 and x.sort() == U and x.decl().name() in want:
                    found.add(x.decl().name())
                stack.extend(x.children())
        names = [n for n in names if n in found]
    cs = [z3.Const(n, U) for n in names]
    return [z3.Distinct(*cs)] if len(cs) > 1 else []


def to_z3(v, t=None):
    """encode a Python-level value as a z3 term of sort_of(t) (t may be None for scalars)"""
    if t == 'bv64':
        if isinstance(v, bool):
            return z3.BitVecVal(int(v), 64)
        if isinstance(v, int):
            return z3.BitVecVal(v, 64)
        if isinstance(v, z3.ExprRef) and z3.is_bv(v):
            return v
        if isinstance(v, z3.ExprRef) and z3.is_int(v):
            return z3.Int2BV(v, 64)
        if isinstance(v, z3.ExprRef) and z3.is_bool(v):
            return z3.If(v, z3.BitVecVal(1, 64), z3.BitVecVal(0, 64))
    if isinstance(v, bool):
        if t == 'int':
            return z3.IntVal(int(v))
        return z3.BoolVal(v)
    if isinstance(v, int):
        if t == 'real':
            return z3.RealVal(v)
        return z3.IntVal(v)
    if isinstance(v, float):
        return z3.RealVal(repr(v))
    if isinstance(v, str):
        if t == 'U':
            INTERNED_STRINGS.add(v)
            return z3.Const('str_' + v, U)
        return z3.StringVal(v)
    if isinstance(v, bytes):
        return z3.Const('bytes_' + v.hex(), U)  # a bytes literal is an opaque constant (distinct literals are not assumed distinct)
    if isinstance(v, SFrac):
        return v.term
    if isinstance(v, SRecord) and (t is not None and isinstance(t, tuple) and t[0] == 'rec' or getattr(v, 'rtype', None) is not None):
        tt = t if (t is not None and isinstance(t, tuple) and t[0] == 'rec') else v.rtype
        return sort_of(tt).mk(*[to_z3(v.fields[n], tx) for n, tx in tt[1]])
    if t == 'bv64' and isinstance(v, int) and not isinstance(v, bool):
        return z3.BitVecVal(v, 64)
    if t == 'bv64' and isinstance(v, z3.ExprRef) and z3.is_int(v):
        return z3.Int2BV(v, 64)
    if isinstance(v, SList):
        tt = t or ('list', v.et)
        if v.et is None:
            if t is None:
                raise Undecided('empty list with unknown element type stored')
            arr = z3.Const(fresh_name('emptyarr'), z3.ArraySort(z3.IntSort(), sort_of(t[1])))
            return sort_of(tt).mk(v.len, arr)
        return sort_of(tt).mk(v.len, v.arr)
    if isinstance(v, tuple):
        if t is None:
            t = ('tuple', tuple(type_of_value(x) for x in v))
        return sort_of(t).mk(*[to_z3(x, tx) for x, tx in zip(v, t[1])])
    if isinstance(v, SDotted):
        # a free name (module object, or - in fragment mode - a local assigned outside the fragment) is an opaque constant; it
        # cannot be stored where an int/str/... is expected (was: z3 sort-mismatch crash, i.e. CHECKER-ERROR instead of undecided)
        if t is not None and t != 'U' and sort_of(t) != U:
            raise Undecided('free name %s used where a value of type %r is expected: it is not an input of the contract (assigned outside the verified fragment?)' % (v.name, t))
        return z3.Const('const_' + v.name, U)
    if v is None:
        return z3.Const('const_None', U)
    if isinstance(v, SExc):
        return v.term if v.term is not None else z3.Const('exc_' + v.cls, U)
    if isinstance(v, z3.ExprRef):
        if t == 'int' and z3.is_bool(v):
            return z3.If(v, 1, 0)
        if t == 'real' and z3.is_int(v):
            return z3.ToReal(v)
        return v
    raise Undecided('cannot encode value %r' % (v,))


def from_z3(term, t):
    if isinstance(t, tuple) and t[0] == 'list':
        s = sort_of(t)
        return SList(s.len(term), s.arr(term), t[1])
    if isinstance(t, tuple) and t[0] == 'tuple':
        s = sort_of(t)
        return tuple(from_z3(s.accessor(0, i)(term), tx) for i, tx in enumerate(t[1]))
    if isinstance(t, tuple) and t[0] == 'rec':
        s = sort_of(t)
        r = SRecord('rec', {n: from_z3(s.accessor(0, i)(term), tx) for i, (n, tx) in enumerate(t[1])})
        r.rtype = t
        return r
    return term


def type_of_value(v):
    if isinstance(v, SFrac):
        return 'real'
    if isinstance(v, SRecord) and getattr(v, 'rtype', None) is not None:
        return v.rtype
    if isinstance(v, SRecord):
        return ('rec', tuple((n, type_of_value(x)) for n, x in v.fields.items()))
    if isinstance(v, z3.ExprRef) and z3.is_bv(v):
        return 'bv64'
    if isinstance(v, bool):
        return 'bool'
    if isinstance(v, int):
        return 'int'
    if isinstance(v, float):
        return 'real'
    if isinstance(v, str):
        return 'str'
    if isinstance(v, SList):
        return ('list', v.et)
    if isinstance(v, SMap):
        return ('map', v.kt, v.vt)
    if isinstance(v, tuple):
        return ('tuple', tuple(type_of_value(x) for x in v))
    if isinstance(v, z3.ExprRef):
        s = v.sort()
        if s == z3.IntSort():
            return 'int'
        if s == z3.BoolSort():
            return 'bool'
        if s == z3.RealSort():
            return 'real'
        if s == z3.StringSort():
            return 'str'
        if s == U:
            return 'U'
        if s.kind() == z3.Z3_ARRAY_SORT:
            return ('array', _type_of_sort(s.domain()), _type_of_sort(s.range()))
        return _type_of_sort(s)
    return 'U'


def _type_of_sort(s):
    for k, v in _DT_CACHE.items():
        if v == s:
            return _parse_key(k)
    if s == z3.IntSort():
        return 'int'
    if s == z3.BoolSort():
        return 'bool'
    if s == z3.RealSort():
        return 'real'
    if s == U:
        return 'U'
    if s == z3.StringSort():
        return 'str'
    if z3.is_bv_sort(s):
        return 'bv64'
    raise Undecided('unknown sort %s' % s)


def _parse_key(k):
    # inverse of type_key for the cache (small recursive descent)
    def p(i):
        for base in ('int', 'bool', 'real', 'str', 'U'):
            if k.startswith(base, i) and (i + len(base) == len(k) or k[i + len(base)] in ',>'):
                return base, i + len(base)
        if k.startswith('rec<', i):
            i2 = i + 4
            items = []
            while True:
                j = k.index(':', i2)
                nm = k[i2:j]
                t, i2 = p(j + 1)
                items.append((nm, t))
                if k[i2] == ',':
                    i2 += 1
                else:
                    break
            assert k[i2] == '>'
            return ('rec', tuple(items)), i2 + 1
        for base in ('bv64',):
            if k.startswith(base, i):
                return base, i + len(base)
        for base in ('list', 'tuple', 'array'):
            if k.startswith(base + '<', i):
                i2 = i + len(base) + 1
                items = []
                while True:
                    t, i2 = p(i2)
                    items.append(t)
                    if k[i2] == ',':
                        i2 += 1
                    else:
                        break
                assert k[i2] == '>'
                if base == 'list':
                    return ('list', items[0]), i2 + 1
                if base == 'tuple':
                    return ('tuple', tuple(items)), i2 + 1
                return ('array', items[0], items[1]), i2 + 1
        raise Undecided('type key %s' % k)

    return p(0)[0]


def fresh_value(t, base):
    if isinstance(t, tuple) and t[0] == 'list':
        return SList(z3.Int(fresh_name(base + '.len')), z3.Const(fresh_name(base + '.arr'), z3.ArraySort(z3.IntSort(), sort_of(t[1]))), t[1])
    if isinstance(t, tuple) and t[0] == 'tuple':
        return tuple(fresh_value(tx, '%s.%d' % (base, i)) for i, tx in enumerate(t[1]))
    if isinstance(t, tuple) and t[0] == 'rec':
        r = SRecord('rec', {n: fresh_value(tx, '%s.%s' % (base, n)) for n, tx in t[1]})
        r.rtype = t
        return r
    if isinstance(t, tuple) and t[0] == 'map':
        return SMap(z3.Const(fresh_name(base + '.has'), z3.ArraySort(sort_of(t[1]), z3.BoolSort())), z3.Const(fresh_name(base + '.val'), z3.ArraySort(sort_of(t[1]), sort_of(t[2]))), z3.Int(fresh_name(base + '.size')), t[1], t[2])
    if isinstance(t, tuple) and t[0] == 'dict':
        items = fresh_value(('list', ('tuple', (t[1], t[2]))), base + '.items')
        val = z3.Function(fresh_name(base + '.val'), sort_of(t[1]), sort_of(t[2]))
        has = z3.Function(fresh_name(base + '.has'), sort_of(t[1]), z3.BoolSort())
        return SDict(items, t[1], t[2], val, has)
    return z3.Const(fresh_name(base), sort_of(t))


def wf_constraints(v) -> List[Any]:
    """well-formedness facts of a fresh value (list lengths are non-negative, recursively for top-level lists)"""
    out = []
    if isinstance(v, SList):
        out.append(v.len >= 0)
        if isinstance(v.et, tuple) and v.et[0] == 'list':
            j = z3.Int(fresh_name('wf_j'))
            s = sort_of(v.et)
            out.append(z3.ForAll([j], s.len(z3.Select(v.arr, j)) >= 0))
    if isinstance(v, tuple):
        for x in v:
            out.extend(wf_constraints(x))
    if isinstance(v, SMap):
        out.append(v.size >= 0)
        # size is the cardinality of the key set: it is zero exactly when there is no key
        wk = z3.Const(fresh_name('wf_k'), sort_of(v.kt))
        out.append(z3.ForAll([wk], z3.Implies(z3.Select(v.has, wk), v.size >= 1)))
        out.append(z3.Implies(v.size >= 1, z3.Exists([wk], z3.Select(v.has, wk))))
    if isinstance(v, SDict):
        it = v.items
        out.append(it.len >= 0)
        i, j = z3.Int(fresh_name('d_i')), z3.Int(fresh_name('d_j'))
        ts = sort_of(it.et)
        key = lambda x: ts.accessor(0, 0)(z3.Select(it.arr, x))
        valx = lambda x: ts.accessor(0, 1)(z3.Select(it.arr, x))
        out.append(z3.ForAll([i], z3.Implies(z3.And(i >= 0, i < it.len), z3.And(v.has(key(i)), v.val(key(i)) == valx(i)))))
        out.append(z3.ForAll([i, j], z3.Implies(z3.And(0 <= i, i < j, j < it.len), key(i) != key(j))))
        k = z3.Const(fresh_name('d_k'), sort_of(v.kt))
        out.append(z3.ForAll([k], z3.Implies(v.has(k), z3.Exists([i], z3.And(i >= 0, i < it.len, key(i) == k)))))
    return out


# ---------------------------------------------------------------------------------------------
# contracts


@dataclass
class LoopSpec:
    index: Optional[str] = None  # name of the ghost iteration counter of a `for` loop
    invariants: List[Tuple[str, str]] = field(default_factory=list)
    modifies: Optional[List[str]] = None  # extra names to havoc (beyond those assigned syntactically)
    unroll: bool = False
    decreases: Optional[str] = None


@dataclass
class Ghost:
    anchor: str  # ast.unparse text of the statement it is attached to
    code: str  # python statements executed as ghost code
    where: str = 'after'
    occurrence: int = 0


@dataclass
class Contract:
    path: str
    qualname: str
    types: Dict[str, str] = field(default_factory=dict)
    requires: List[str] = field(default_factory=list)
    ensures: List[Tuple[str, str]] = field(default_factory=list)
    # exception class name -> condition (str) under which raising it is allowed; True = always allowed
    raises: Dict[str, Any] = field(default_factory=dict)
    on_raise: List[Tuple[str, str]] = field(default_factory=list)  # obligations at every exceptional exit (name `exc` bound)
    loops: Dict[int, LoopSpec] = field(default_factory=dict)
    ghosts: List[Ghost] = field(default_factory=list)
    ghost_init: Dict[str, str] = field(default_factory=dict)
    spec_funcs: Dict[str, Tuple[List[str], str]] = field(default_factory=dict)
    axioms: List[str] = field(default_factory=list)
    calls: Dict[str, Callable] = field(default_factory=dict)
    consts: Dict[str, Any] = field(default_factory=dict)
    self_fields: Dict[str, str] = field(default_factory=dict)  # for methods: field name -> type
    extra_inputs: Dict[str, str] = field(default_factory=dict)  # free (closure/global) variables treated as symbolic inputs
    fragment: Optional[Tuple[str, str]] = None  # verify only the consecutive statements from/to these anchors (header texts)
    setup: Optional[Callable] = None  # setup(engine, state): bind extra environment entries after the inputs exist
    drop_decorators: bool = True
    float_as_real: bool = False
    bv_checked: bool = False  # arithmetic on 64-bit vectors standing for Python ints emits no-overflow obligations
    opaque_methods: bool = False  # unmodelled methods of opaque (U) receivers are recorded as unmodelled calls instead of Undecided
    strings: bool = False  # f-strings / str() / + on strings build z3 String terms (str of an int is the uninterpreted str_int)
    float_model: str = 'exact'  # 'exact': float ops are real ops (assumption recorded by the contract module);
    #                             'relerr': every float operation result is the real result times (1+d), |d| <= 2**-53
    label: Optional[str] = None
    canaries: List[Tuple[str, str]] = field(default_factory=list)  # false "postconditions" that must be refuted


# ---------------------------------------------------------------------------------------------
# source location


def find_function(tree: ast.AST, qualname: str):
    parts = qualname.split('.')
    node = tree
    for p in parts:
        found = None
        for ch in ast.walk(node) if node is tree and False else _direct_defs(node):
            if isinstance(ch, (ast.FunctionDef, ast.AsyncFunctionDef, ast.ClassDef)) and ch.name == p:
                found = ch  # the last definition wins (typing.overload stubs precede the implementation)
        if found is None:
            raise Undecided('anchor-moved: %s not found' % qualname)
        node = found
    return node


def _direct_defs(node):
    """definitions nested directly (through if/try/with blocks but not through other defs) in node's body"""
    out = []
    stack = list(getattr(node, 'body', []))
    while stack:
        n = stack.pop(0)
        if isinstance(n, (ast.FunctionDef, ast.AsyncFunctionDef, ast.ClassDef)):
            out.append(n)
        else:
            for f in ('body', 'orelse', 'finalbody', 'handlers'):
                stack.extend(getattr(n, f, []) or [])
    return out


def module_constants(tree: ast.Module) -> Dict[str, Any]:
    """module-level NAME = <constant expression> bindings, evaluated (ints/strs/tuples of them, simple arithmetic)"""
    out: Dict[str, Any] = {}
    for st in tree.body:
        tgt = None
        if isinstance(st, ast.Assign) and len(st.targets) == 1 and isinstance(st.targets[0], ast.Name):
            tgt, val = st.targets[0].id, st.value
        elif isinstance(st, ast.AnnAssign) and isinstance(st.target, ast.Name) and st.value is not None:
            tgt, val = st.target.id, st.value
        if tgt is None:
            continue
        try:
            out[tgt] = _const_eval(val, out)
        except Exception:
            pass
    return out


import logging as _logging

# integer constants of the standard library that repository code uses by name (values read from the running interpreter)
STDLIB_INT_CONSTS = {'logging.' + n: getattr(_logging, n) for n in ('NOTSET', 'DEBUG', 'INFO', 'WARNING', 'ERROR', 'CRITICAL')}
import os as _os

STDLIB_INT_CONSTS.update({'os.' + n: getattr(_os, n) for n in ('O_RDONLY', 'O_WRONLY', 'O_RDWR', 'O_CREAT', 'O_TRUNC', 'O_APPEND', 'O_EXCL') if hasattr(_os, n)})


def _const_eval(node, env):
    if isinstance(node, ast.Constant) and isinstance(node.value, (int, float, str, bool, type(None), bytes)):
        return node.value
    if isinstance(node, ast.Name) and node.id in env:
        return env[node.id]
    if isinstance(node, ast.Attribute) and _dotted(node) in STDLIB_INT_CONSTS:
        return STDLIB_INT_CONSTS[_dotted(node)]
    if isinstance(node, ast.UnaryOp) and isinstance(node.op, ast.USub):
        return -_const_eval(node.operand, env)
    if isinstance(node, ast.BinOp):
        a, b = _const_eval(node.left, env), _const_eval(node.right, env)
        ops = {ast.Add: lambda: a + b, ast.Sub: lambda: a - b, ast.Mult: lambda: a * b, ast.FloorDiv: lambda: a // b, ast.Pow: lambda: a**b, ast.LShift: lambda: a << b, ast.Div: lambda: a / b}
        if type(node.op) in ops and isinstance(a, (int, float)) and isinstance(b, (int, float)):
            return ops[type(node.op)]()
    if isinstance(node, (ast.Tuple, ast.List)):
        return tuple(_const_eval(e, env) for e in node.elts)
    if isinstance(node, ast.Set):
        return frozenset(_const_eval(e, env) for e in node.elts)
    if isinstance(node, ast.Dict) and all(k is not None for k in node.keys):
        return {_const_eval(k, env): _const_eval(v, env) for k, v in zip(node.keys, node.values)}
    raise ValueError('not constant')


# ---------------------------------------------------------------------------------------------
# state


def _clone_shared(v, memo):
    """copy of a value in which every record is copied exactly once (aliasing between records is preserved); see State.fork"""
    if isinstance(v, SRecord):
        r = memo.get(id(v))
        if r is None:
            r = SRecord(v.cls, {})
            r.rtype = getattr(v, 'rtype', None)
            memo[id(v)] = r
            for k, x in v.fields.items():
                r.fields[k] = _clone_shared(x, memo)
        return r
    if type(v) is tuple and any(isinstance(x, (SRecord, tuple)) for x in v):
        return tuple(_clone_shared(x, memo) for x in v)
    return v


class State:
    def __init__(self, env=None, pc=None):
        self.env: Dict[str, Any] = env if env is not None else {}
        self.pc: List[Any] = pc if pc is not None else []
        self.decided: Dict[int, Any] = {}
        self.decided_used: Dict[int, int] = {}
        self.trace: List[str] = []

    def take_decided(self, node):
        """the outcome chosen for `node` by the path split that is re-executing the current statement.  One outcome stands for
        one evaluation: a node evaluated twice within the same statement (a lambda called twice, a comprehension) would
        silently get the same outcome both times, so that is refused"""
        k = id(node)
        if self.decided_used.get(k, 0) >= 1:
            raise Undecided('L%s: expression evaluated more than once in a statement whose path was split on it' % getattr(node, 'lineno', '?'))
        self.decided_used[k] = 1
        return self.decided[k]

    def fork(self):
        s = State(dict(self.env), list(self.pc))
        if self.env.get('__shared_records__'):
            # (C12, opt-in via Contract.consts) reference semantics for records: the whole graph of records reachable from
            # the environment is copied once, so that two names / fields bound to the SAME record before the fork are still
            # bound to one record after it (`r = d.get('k'); ...; r['x'] = v` must be seen through `d['k']`), and a nested
            # record is never shared between the two sides of a path split
            memo: Dict[int, Any] = {}
            for k, v in s.env.items():
                s.env[k] = _clone_shared(v, memo)
            s.decided = dict(self.decided)
            s.decided_used = dict(self.decided_used)
            s.trace = list(self.trace)
            return s
        for k, v in s.env.items():
            if isinstance(v, SRecord):
                s.env[k] = v.clone()
        s.decided = dict(self.decided)
        s.decided_used = dict(self.decided_used)
        s.trace = list(self.trace)
        return s

    def assume(self, c):
        if c is True or (z3.is_bool(c) and z3.is_true(c)):
            return
        self.pc.append(c)


def feasible(pc, timeout_ms=1500) -> bool:
    s = z3.Solver()
    s.set('timeout', timeout_ms)
    for c in pc:
        s.add(c)
    return s.check() != z3.unsat


# ---------------------------------------------------------------------------------------------
# the executor

EXC_NAMES = {n for n in dir(builtins) if isinstance(getattr(builtins, n), type) and issubclass(getattr(builtins, n), BaseException)}


class Engine:
    def __init__(self, ctx: core.Ctx, contract: Contract, callee_contracts: Dict[str, Contract] = None, src: str = None):
        self.ctx = ctx
        self.c = contract
        self.callees = callee_contracts or {}
        self.src = src if src is not None else core.read_repo(contract.path)
        self.tree = ast.parse(self.src)
        self.fn = find_function(self.tree, contract.qualname)
        if not isinstance(self.fn, (ast.FunctionDef, ast.AsyncFunctionDef)):
            raise Undecided('anchor-moved: %s is not a function' % contract.qualname)
        self.modconsts = module_constants(self.tree)
        self.label = contract.label or contract.qualname
        self.loop_ordinals: Dict[int, int] = {}
        k = 0
        for n in ast.walk(self.fn):
            if isinstance(n, (ast.For, ast.While, ast.AsyncFor)):
                pass
        for n in self._loops_preorder(self.fn):
            self.loop_ordinals[id(n)] = k
            k += 1
        self.n_loops = k
        self.unmodelled: List[str] = []
        self.ufs: Dict[str, Any] = {}
        self.inputs: Dict[str, Any] = {}
        self.entry_env: Dict[str, Any] = {}
        self.normal_exits = 0
        self.exc_exits = 0
        self.obl_count = 0
        self.ghost_hits: Dict[int, int] = {}
        self.canary_paths: Dict[str, List[Any]] = {}
        self.anchor_counts: Dict[str, int] = {}
        ctx.under_contract(contract.path, contract.qualname)

    def _loops_preorder(self, fn):
        out = []

        def rec(stmts):
            for s in stmts:
                if isinstance(s, (ast.FunctionDef, ast.AsyncFunctionDef, ast.ClassDef)):
                    continue
                if isinstance(s, (ast.For, ast.While, ast.AsyncFor)):
                    out.append(s)
                for f in ('body', 'orelse', 'finalbody'):
                    rec(getattr(s, f, []) or [])
                for h in getattr(s, 'handlers', []) or []:
                    rec(h.body)

        rec(fn.body)
        return out

    # ---- obligations
    def oblige(self, st: State, name: str, goal, kind='vc', **info):
        if isinstance(goal, bool):
            goal = z3.BoolVal(goal)
        self.obl_count += 1
        info = dict(getattr(self, 'obl_info', None) or {}, **info)  # (C21) per-engine defaults, e.g. {'cvc5_first': True} for string VCs
        info['trace'] = ' > '.join(st.trace[-12:])
        none_false = [z3.Not(self.ufs['truthy'](z3.Const('const_None', U)))] if 'truthy' in self.ufs else []  # None is false
        o = valid('%s/%s' % (self.label, name), list(st.pc) + none_false + interned_distinct(list(st.pc) + none_false + [goal]), goal, kind=kind, **info)
        self.ctx.add(o, replay=getattr(self, 'replayer', None))
        return o

    def uf(self, name, arg_types, ret_type):
        key = name
        if key not in self.ufs:
            self.ufs[key] = z3.Function(name, *[sort_of(parse_type(a)) for a in arg_types], sort_of(parse_type(ret_type)))
        return self.ufs[key]

    # ---- entry point
    def run(self):
        c = self.c
        st = State()
        # environment: module constants, contract constants, spec functions
        fn_locals = _local_names(self.fn) if c.fragment is None else set()
        for k, v in self.modconsts.items():
            if k not in fn_locals:  # a local variable of that name shadows the module constant in the whole function
                st.env[k] = v
        for k, v in c.consts.items():
            st.env[k] = v
        if c.fragment is None:
            st.env['__locals__'] = frozenset(fn_locals)
        for name, (ats, rt) in c.spec_funcs.items():
            f = self.uf(name, ats, rt)
            rtp = parse_type(rt)
            st.env[name] = SFunc(name, (lambda f, rtp: lambda eng, s, args, kw, node: from_z3(f(*[to_z3(a) for a in args]), rtp))(f, rtp))
        # parameters
        a = self.fn.args
        params = [x for x in a.posonlyargs + a.args + a.kwonlyargs] if c.fragment is None else []
        for p in params:
            tstr = c.types.get(p.arg)
            if p.arg == 'self' and tstr is None:
                rec = SRecord(c.qualname.split('.')[0])
                for fname, ft in c.self_fields.items():
                    v = fresh_value(parse_type(ft), 'self.' + fname)
                    rec.fields[fname] = v
                    for w in wf_constraints(v):
                        st.assume(w)
                    self.inputs['self.' + fname] = v
                st.env['self'] = rec
                continue
            t = parse_type(tstr) if tstr else (_type_of_node(p.annotation) if p.annotation is not None else 'U')
            v = fresh_value(t, 'in_' + p.arg)
            for w in wf_constraints(v):
                st.assume(w)
            st.env[p.arg] = v
            self.inputs[p.arg] = v
        for name, tstr in c.extra_inputs.items():
            v = fresh_value(parse_type(tstr), 'in_' + name)
            for w in wf_constraints(v):
                st.assume(w)
            st.env[name] = v
            self.inputs[name] = v
        if c.setup is not None:
            c.setup(self, st)
        for g, code in c.ghost_init.items():
            self.assign(ast.Name(id=g, ctx=ast.Store()), self.ev(ast.parse(code, mode='eval').body, st), st)
        self.entry_env = dict(st.env)
        if isinstance(st.env.get('self'), SRecord):
            self.entry_env['self'] = st.env['self'].clone()
        for ax in c.axioms:
            st.assume(self.ev_bool_str(ax, st))
        for r in c.requires:
            st.assume(self.ev_bool_str(r, st))
        # vacuity: the precondition is satisfiable
        self.ctx.add(core.satisfiable('%s/vacuity/requires-satisfiable' % self.label, list(st.pc) or [z3.BoolVal(True)]))
        body = self.fn.body
        if c.fragment is not None:
            body = self._find_fragment(self.fn.body, c.fragment)
            if body is None:
                raise Undecided('anchor-moved: fragment %r .. %r not found as consecutive statements of one block in %s' % (c.fragment[0], c.fragment[1], c.qualname))
        outs = self.exec_block(body, st)
        reach = []
        for s2, oc in outs:
            if oc[0] in ('next', 'return'):
                self.normal_exits += 1
                res = oc[1] if oc[0] == 'return' else None
                self.at_return(s2, res)
                reach.append(z3.And(*s2.pc) if s2.pc else z3.BoolVal(True))
            elif oc[0] == 'raise':
                self.exc_exits += 1
                self.at_raise(s2, oc[1])
            else:
                raise Undecided('%s outside a loop' % oc[0])
        if c.ensures:
            if not reach:
                raise core.CheckerBug('%s: no normal exit path generated' % self.label)
            self.ctx.add(core.satisfiable('%s/vacuity/normal-exit-reachable' % self.label, z3.Or(*reach)))
        for g in c.ghosts:
            if self.ghost_hits.get(id(g), 0) == 0:
                raise Undecided('anchor-moved: ghost anchor %r not found in %s' % (g.anchor, c.qualname))
        # canaries: a deliberately false postcondition must be refutable on at least one normal exit path (the query
        # "some path reaches its exit with the clause false" must be satisfiable); a canary that verifies means the
        # pipeline proves anything for this function
        for name, _e in c.canaries:
            paths = self.canary_paths.get(name, [])
            self.ctx.add(core.satisfiable('%s/canary/%s' % (self.label, name), z3.Or(*paths) if paths else z3.BoolVal(False), kind='canary'))
        self.canaries_emitted = True
        for name in self.unmodelled:
            self.ctx.assume('%s: unmodelled call %s (result havocked)' % (self.label, name))
        return self

    def _find_fragment(self, stmts, frag):
        texts = [_header_text(x) for x in stmts]
        starts = [i for i, t in enumerate(texts) if _anchor_match(frag[0], t)]
        if starts:
            i = starts[0]
            if isinstance(frag[1], int):
                if i + frag[1] <= len(stmts):
                    return stmts[i: i + frag[1]]
            else:
                ends = [j for j in range(i, len(texts)) if _anchor_match(frag[1], texts[j])]
                if ends:
                    return stmts[i: ends[0] + 1]
        for x in stmts:
            if isinstance(x, (ast.FunctionDef, ast.AsyncFunctionDef, ast.ClassDef)):
                continue
            for f in ('body', 'orelse', 'finalbody'):
                sub = getattr(x, f, None)
                if sub:
                    r = self._find_fragment(sub, frag)
                    if r is not None:
                        return r
            for h in getattr(x, 'handlers', []) or []:
                r = self._find_fragment(h.body, frag)
                if r is not None:
                    return r
        return None

    def at_return(self, st: State, res):
        env = st.env
        st2 = st
        st2.env = dict(env)
        rt = self.c.types.get('result')
        if rt and isinstance(res, SList) and res.et is None:
            t = parse_type(rt)
            res = SList(res.len, z3.Const(fresh_name('emptyarr'), z3.ArraySort(z3.IntSort(), sort_of(t[1]))), t[1])
        st2.env['result'] = res
        for name, e in self.c.ensures:
            self.oblige(st2, 'post/' + name, self.ev_bool_str(e, st2), clause=e)
        for name, e in self.c.canaries:
            g = self.ev_bool_str(e, st2)
            self.canary_paths.setdefault(name, []).append(z3.And(*(list(st2.pc) + [z3.Not(g)])))

    def at_raise(self, st: State, exc: SExc):
        st.env = dict(st.env)
        st.env['exc'] = exc
        for name, e in self.c.on_raise:
            self.oblige(st, 'raise/' + name, self.ev_bool_str(e, st), clause=e)
        cls = exc.cls
        if cls is not None:
            cond = self.c.raises.get(cls, self.c.raises.get('*'))
            if cond is None:
                self.oblige(st, 'raise/unexpected-%s' % cls, z3.BoolVal(False), line=getattr(exc, 'line', None))
            elif cond is not True:
                self.oblige(st, 'raise/%s-only-when' % cls, self.ev_bool_str(cond, st), clause=cond)
        else:
            # an exception value of unknown class (raised by a modelled callee): allowed only by the contract's '*' entry
            cond = self.c.raises.get('*')
            if cond is None:
                self.oblige(st, 'raise/unexpected-exception-of-a-callee', z3.BoolVal(False), line=getattr(exc, 'line', None))
            elif cond is not True:
                self.oblige(st, 'raise/callee-exception-only-when', self.ev_bool_str(cond, st), clause=cond)

    # ---- contract expressions
    def ev_bool_str(self, s: str, st: State):
        node = ast.parse(s.strip(), mode='eval').body
        was = getattr(self, 'in_spec', False)
        self.in_spec = True
        try:
            return self.ev_cond(node, st)
        except PyRaise as r:
            raise Undecided('contract expression %r raises %s' % (s[:80], r.exc))
        finally:
            self.in_spec = was

    # ---- statements
    def exec_block(self, stmts, st: State):
        """returns list of (state, outcome); outcome = ('next',) | ('return', v) | ('raise', SExc) | ('break',) | ('continue',)"""
        states = [(st, ('next',))]
        for s in stmts:
            nxt = []
            for (s1, oc) in states:
                if oc[0] != 'next':
                    nxt.append((s1, oc))
                    continue
                nxt.extend(self.exec_stmt_ghosted(s, s1))
            states = nxt
        return states

    def exec_stmt_ghosted(self, node, st):
        if not self.c.ghosts or isinstance(node, (ast.FunctionDef, ast.AsyncFunctionDef, ast.ClassDef)):
            return self.exec_stmt(node, st)
        txt = None
        before, after = [], []
        for g in self.c.ghosts:
            if txt is None:
                txt = ast.unparse(node) if not isinstance(node, (ast.For, ast.While, ast.If, ast.Try, ast.With, ast.AsyncWith, ast.AsyncFor)) else _header_text(node)
            if _anchor_match(g.anchor, txt):
                (before if g.where == 'before' else after).append(g)
        if not before and not after:
            return self.exec_stmt(node, st)
        for g in before:
            self.ghost_hits[id(g)] = self.ghost_hits.get(id(g), 0) + 1
            for s in ast.parse(_dedent(g.code)).body:
                (st, _), = self.exec_stmt(s, st)
        outs = self.exec_stmt(node, st)
        res = []
        for s1, oc in outs:
            if oc[0] == 'next':
                for g in after:
                    self.ghost_hits[id(g)] = self.ghost_hits.get(id(g), 0) + 1
                    for s in ast.parse(_dedent(g.code)).body:
                        (s1, _), = self.exec_stmt(s, s1)
            res.append((s1, oc))
        return res

    def exec_stmt(self, node, st: State):
        # the state before the statement: a path split re-executes the statement from HERE, not from the state the abandoned
        # first attempt left behind (ghost counters bumped, lists appended to by call models evaluated before the split point
        # would otherwise be applied twice)
        st0 = st.fork()
        try:
            return self._exec_stmt(node, st)
        except Fork as f:
            outs = []
            for alt in f.alts:
                label, cond, kind, payload = alt[:4]
                s2 = st0.fork()
                # ... but the facts recorded by the first attempt stay: the outcomes (conditions, values) are written in terms of
                # the symbols it introduced (a modelled call's result, a divmod quotient), and what is known about those symbols
                # must not be lost
                s2.pc = list(st.pc)
                if len(alt) > 4 and alt[4] is not None:
                    alt[4](s2)
                if cond is not None:
                    s2.assume(cond)
                    if not feasible(s2.pc):
                        continue
                s2.decided[id(f.node)] = (kind, payload)
                s2.decided_used = {}
                s2.trace.append('L%d:%s' % (getattr(node, 'lineno', 0), label))
                done = self.exec_stmt(node, s2)
                for s3, _ in done:
                    # the outcome was for this execution of the statement only (a later execution of the same statement,
                    # e.g. the next round of an unrolled loop, decides again)
                    s3.decided = {k: v for k, v in s3.decided.items() if k != id(f.node)}
                outs.extend(done)
            return outs
        except PyRaise as r:
            st.trace.append('L%d:raise %s' % (getattr(node, 'lineno', 0), r.exc))
            return [(st, ('raise', r.exc))]

    def _exec_stmt(self, node, st: State):
        if isinstance(node, ast.Expr):
            if isinstance(node.value, ast.Constant):
                return [(st, ('next',))]
            self.ev(node.value, st, stmt=True)
            return [(st, ('next',))]
        if isinstance(node, ast.Assign):
            v = self.ev(node.value, st)
            for t in node.targets:
                self.assign(t, v, st)
            return [(st, ('next',))]
        if isinstance(node, ast.AnnAssign):
            if node.value is not None:
                v = self.ev(node.value, st)
                if isinstance(v, SList) and v.et is None and isinstance(node.target, ast.Name) and node.target.id not in self.c.types:
                    t = _type_of_node(node.annotation)
                    if isinstance(t, tuple) and t[0] == 'list':
                        v = SList(v.len, z3.Const(fresh_name('emptyarr'), z3.ArraySort(z3.IntSort(), sort_of(t[1]))), t[1])
                self.assign(node.target, v, st)
            return [(st, ('next',))]
        if isinstance(node, ast.AugAssign):
            tgt = node.target
            if not isinstance(tgt, ast.Name) and any(isinstance(n, (ast.Call, ast.Await, ast.NamedExpr, ast.IfExp, ast.BoolOp)) for n in ast.walk(tgt)):
                # `x[f()] += v` evaluates f() once; reading and then storing through the target would evaluate it twice
                if isinstance(tgt, ast.Subscript) and isinstance(tgt.value, ast.Name) and not isinstance(tgt.slice, ast.Slice):
                    cont = self.ev(tgt.value, st)
                    idx = self.ev(tgt.slice, st)
                    cur = self.index(cont, idx, st, tgt)
                    rhs = self.ev(node.value, st)
                    v = self.binop(node.op, cur, rhs, st, node)
                    self._unaliased(tgt.value, cont, st, 'item assignment')
                    self.assign(tgt.value, self.store(cont, idx, v, st, tgt), st)
                    return [(st, ('next',))]
                raise Undecided('L%d: augmented assignment whose target contains a call' % node.lineno)
            cur = self.ev(_load(node.target), st)
            rhs = self.ev(node.value, st)
            v = self.binop(node.op, cur, rhs, st, node)
            if isinstance(tgt, ast.Name) and isinstance(cur, (SList, tuple)):
                self._unaliased(tgt, cur, st, 'in-place +=')
            self.assign(node.target, v, st)
            return [(st, ('next',))]
        if isinstance(node, ast.Return):
            v = self.ev(node.value, st) if node.value is not None else None
            return [(st, ('return', v))]
        if isinstance(node, ast.Pass):
            return [(st, ('next',))]
        if isinstance(node, ast.Break):
            return [(st, ('break',))]
        if isinstance(node, ast.Continue):
            return [(st, ('continue',))]
        if isinstance(node, ast.Assert):
            c = self.ev_cond(node.test, st)
            outs = []
            s_ok = st.fork()
            s_ok.assume(c)
            s_bad = st.fork()
            s_bad.assume(z3.Not(c))
            if feasible(s_bad.pc):
                s_bad.trace.append('L%d:assert-fails' % node.lineno)
                e = SExc('AssertionError')
                e.line = node.lineno
                if node.msg is not None and not isinstance(node.msg, ast.Constant):
                    was = getattr(self, 'in_spec', False)
                    self.in_spec = True  # (no safety obligations for the message: the path raises in any case)
                    try:
                        self.ev(node.msg, s_bad)  # the message is evaluated when (and only when) the assertion fails
                    except PyRaise as r:
                        e = r.exc
                    finally:
                        self.in_spec = was
                outs.append((s_bad, ('raise', e)))
            if feasible(s_ok.pc):
                outs.append((s_ok, ('next',)))
            return outs
        if isinstance(node, ast.Raise):
            if node.exc is None:
                e = st.env.get('__current_exc__')
                if e is None:
                    raise Undecided('bare raise outside handler')
                return [(st, ('raise', e))]
            e = self.make_exc(node.exc, st)
            e.line = node.lineno
            if node.cause is not None:
                self.ev(node.cause, st)  # `raise X from Y`: Y is evaluated (it may call something, or raise itself)
            return [(st, ('raise', e))]
        if isinstance(node, ast.If):
            c = self.ev_cond(node.test, st)
            outs = []
            s1 = st.fork()
            s1.assume(c)
            if feasible(s1.pc):
                s1.trace.append('L%d:T' % node.lineno)
                outs.extend(self.exec_block(node.body, s1))
            s2 = st.fork()
            s2.assume(z3.Not(c))
            if feasible(s2.pc):
                s2.trace.append('L%d:F' % node.lineno)
                outs.extend(self.exec_block(node.orelse, s2))
            return outs
        if isinstance(node, (ast.For, ast.While, ast.AsyncFor)):
            return self.exec_loop(node, st)
        if isinstance(node, ast.Try):
            return self.exec_try(node, st)
        if isinstance(node, (ast.With, ast.AsyncWith)):
            return self.exec_with(node, st)
        if isinstance(node, (ast.FunctionDef, ast.AsyncFunctionDef)):
            ignored = self.c.consts.get('__ignored_nested_decorators__', ())
            if any(ast.unparse(d) not in ignored for d in node.decorator_list):
                # a decorator replaces the function by whatever it returns (and evaluating it may have effects): not modelled,
                # unless the contract lists the decorator text as one whose effect it models elsewhere
                raise Undecided('L%d: nested function %s is decorated (%s)' % (node.lineno, node.name, ', '.join(ast.unparse(d) for d in node.decorator_list)))
            # default values are evaluated once, when the def statement is executed
            dvals = tuple(self.ev(d, st) for d in node.args.defaults)
            st.env[node.name] = ('localdef', node, dvals)
            return [(st, ('next',))]
        if isinstance(node, (ast.Import, ast.ImportFrom)):
            for al in node.names:
                nm = (al.asname or al.name).split('.')[0]
                if nm not in st.env:
                    st.env[nm] = SDotted(nm)  # the imported name is bound (to the opaque module / object of that name)
            return [(st, ('next',))]
        if isinstance(node, (ast.Global, ast.Nonlocal)):
            return [(st, ('next',))]
        if isinstance(node, ast.Delete):
            for t in node.targets:
                self.delete(t, st)
            return [(st, ('next',))]
        raise Undecided('statement not in the pyvc subset: %s (line %d)' % (type(node).__name__, node.lineno))

    def delete(self, t, st):
        if isinstance(t, ast.Name):
            if t.id not in st.env:
                raise PyRaise(SExc('UnboundLocalError' if t.id in st.env.get('__locals__', ()) else 'NameError'))
            del st.env[t.id]  # a later read of the name is an unresolved name (SDotted), never the old value
            return
        if isinstance(t, (ast.Tuple, ast.List)):
            for x in t.elts:
                self.delete(x, st)
            return
        if isinstance(t, ast.Subscript):
            cont = self.ev(t.value, st)
            if isinstance(cont, SMap):
                self._unaliased(t.value, cont, st, 'del of an item')
                self.assign(t.value, self.map_remove(cont, self.ev(t.slice, st), st, t), st)
                return
            if isinstance(cont, SRecord) and not any(k.startswith('has_') for k in cont.fields):
                # (C12) `del d['key']` on a dict tracked as a record with a definite key set: the key goes, KeyError if absent
                key = self.ev(t.slice, st)
                if isinstance(key, str):
                    if key not in cont.fields:
                        raise PyRaise(SExc('KeyError'))
                    del cont.fields[key]
                    return
        raise Undecided('del not supported here: %s' % ast.unparse(t))

    def map_remove(self, m, key, st, node):
        k = to_z3(key, m.kt)
        self.oblige(st, 'safety/key-present@L%d' % getattr(node, 'lineno', 0), z3.Select(m.has, k), kind='safety')
        st.assume(z3.Implies(z3.Select(m.has, k), m.size >= 1))  # size is the cardinality: a map with a member is not empty
        return SMap(z3.Store(m.has, k, False), m.val, m.size - 1, m.kt, m.vt)

    def make_exc(self, node, st) -> SExc:
        bare = node.func if isinstance(node, ast.Call) and not node.args and not node.keywords else node
        if isinstance(bare, ast.Name) and bare.id in EXC_NAMES and bare.id not in st.env:
            try:
                getattr(builtins, bare.id)()
            except TypeError:
                return SExc('TypeError')  # a builtin exception class that cannot be instantiated without arguments
            except Exception:
                pass
        if isinstance(node, ast.Call) and _dotted(node.func) is not None and 'raise:' + _dotted(node.func) in self.c.calls:
            # (C21) `raise Cls(args, key=value)` where the contract models the constructor (key 'raise:Cls'): the model sees the
            # positional AND keyword arguments (the default below drops keywords) and returns the SExc that is raised
            args = [self.ev_lenient(a_, st) for a_ in node.args]
            kw = {k.arg: self.ev_lenient(k.value, st) for k in node.keywords if k.arg is not None}
            exc = self.c.calls['raise:' + _dotted(node.func)](self, st, args, kw, node)
            if not isinstance(exc, SExc):
                raise core.CheckerBug('constructor model raise:%s did not return an SExc' % _dotted(node.func))
            return exc
        if isinstance(node, ast.Call):
            name = _dotted(node.func)
            if name is not None and isinstance(st.env.get(name, None) if '.' not in name else None, (type(None), SDotted)):
                # the constructor's arguments are evaluated (left to right) before the exception exists
                return SExc(name.split('.')[-1], args=tuple(self.ev(a_, st) for a_ in node.args if not isinstance(a_, ast.Starred)))
        if isinstance(node, ast.Name):
            v = st.env.get(node.id)
            if isinstance(v, SExc):
                return v
            if isinstance(v, z3.ExprRef) and v.sort() == U:
                return SExc(term=v)  # `raise exc` of an exception object obtained from a modelled call
            return SExc(node.id)
        if isinstance(node, (ast.Attribute, ast.Subscript)):
            v = self.ev(node, st)
            if isinstance(v, SExc):
                return v
            if isinstance(v, z3.ExprRef) and v.sort() == U:
                return SExc(term=v)  # `raise self._stored_exception`
        raise Undecided('raise of %s' % ast.unparse(node))

    # ---- assignment
    def assign(self, target, v, st: State):
        if isinstance(target, ast.Name):
            if self.c.types.get(target.id) == 'bv64' and isinstance(v, (int, bool)):
                v = to_z3(v, 'bv64')  # a local declared as a machine-width integer
            if isinstance(v, SRecord) and v.cls == 'dict' and not v.fields and target.id in self.c.types:
                t = parse_type(self.c.types[target.id])
                if isinstance(t, tuple) and t[0] == 'map':  # `{}` bound to a name declared as a finite map
                    v = SMap(z3.K(sort_of(t[1]), z3.BoolVal(False)), z3.Const(fresh_name(target.id + '.val0'), z3.ArraySort(sort_of(t[1]), sort_of(t[2]))), z3.IntVal(0), t[1], t[2])
            if isinstance(v, SList) and v.et is None and target.id in self.c.types:
                t = parse_type(self.c.types[target.id])
                if isinstance(t, tuple) and t[0] == 'list':
                    v = SList(v.len, z3.Const(fresh_name('emptyarr'), z3.ArraySort(z3.IntSort(), sort_of(t[1]))), t[1])
            st.env[target.id] = v
            return
        if isinstance(target, (ast.Tuple, ast.List)):
            parts = self.unpack(v, len(target.elts))
            for t, x in zip(target.elts, parts):
                self.assign(t, x, st)
            return
        if isinstance(target, ast.Attribute):
            obj = self.ev(target.value, st)
            if isinstance(obj, SRecord):
                hook = self.c.calls.get('property-set:' + target.attr)
                if hook is not None:
                    # (C38) assignment through a @<name>.setter of the record's class (the contract runs the real setter)
                    hook(self, st, [obj, v], {}, target)
                    return
                obj.fields[target.attr] = v
                return
            hook = self.c.calls.get('setattr:' + target.attr)
            if hook is not None:
                # attribute store on an opaque object, given a meaning by the contract (typically a ghost map obj -> value)
                hook(self, st, [obj, v], {}, target)
                return
            raise Undecided('attribute assignment on non-record: %s' % ast.unparse(target))
        if isinstance(target, ast.Subscript):
            cont = self.ev(target.value, st)
            idx = self.ev(target.slice, st)
            self._unaliased(target.value, cont, st, 'item assignment')
            newc = self.store(cont, idx, v, st, target)
            if newc is cont and isinstance(cont, SRecord) and isinstance(target.value, ast.Call):
                # (C12) a record returned by a call and updated in place (`d.setdefault('k', {})['x'] = v`): there is no
                # place to write back to.  Every other container expression is written back as before (records read out
                # of a symbolic list / map are value copies and must be stored again).
                return
            self.assign(target.value, newc, st)
            return
        raise Undecided('assignment target %s' % ast.unparse(target))

    def _unaliased(self, target, old, st, what):
        """containers have value semantics here: changing one through a name while another name refers to the same object would
        silently not change the other - refused (names bound by ghost code are snapshots by intention and do not count)"""
        if not isinstance(target, ast.Name) or not isinstance(old, (SList, SMap, SDict, tuple)) or (isinstance(old, tuple) and not old):
            return
        ghosts = getattr(self, '_ghost_names', None)
        if ghosts is None:
            ghosts = set(self.c.ghost_init)
            for g in self.c.ghosts:
                ghosts |= set(_assigned_names(ast.parse(_dedent(g.code)).body))
            self._ghost_names = ghosts
        prog = getattr(self, '_prog_names', None)
        if prog is None:
            prog = self._prog_names = {n.id for n in ast.walk(self.fn) if isinstance(n, ast.Name)} | {a_.arg for a_ in ast.walk(self.fn) if isinstance(a_, ast.arg)}
        for k_, v_ in st.env.items():
            if k_ != target.id and v_ is old and k_ not in ghosts and k_ in prog:
                raise Undecided('%s of %s while %s refers to the same object (aliasing of containers is not modelled)' % (what, target.id, k_))

    def store(self, cont, idx, v, st, node):
        if isinstance(cont, SMap):
            k = to_z3(idx, cont.kt)
            return SMap(z3.Store(cont.has, k, True), z3.Store(cont.val, k, to_z3(v, cont.vt)), cont.size + z3.If(z3.Select(cont.has, k), 0, 1), cont.kt, cont.vt)
        if isinstance(cont, SRecord) and isinstance(idx, str):
            cont.fields[idx] = v
            return cont
        if isinstance(cont, SList):
            et = cont.et or type_of_value(v)
            arr = cont.arr if cont.arr is not None else z3.Const(fresh_name('arr'), z3.ArraySort(z3.IntSort(), sort_of(et)))
            i = to_z3(idx, 'int')
            iz = z3.simplify(i)
            if z3.is_int_value(iz):
                if iz.as_long() < 0:
                    i = cont.len + i  # x[-k] = v stores at len(x) - k
            elif feasible(list(st.pc) + [i < 0], 500):
                i = z3.If(i < 0, cont.len + i, i)
            if cont.arr is None or cont.et is None:
                raise PyRaise(SExc('IndexError'))  # item assignment into an empty list
            if not getattr(self, 'in_spec', False) and isinstance(node, ast.Subscript):
                self.oblige(st, 'safety/store-index-in-range@L%d' % getattr(node, 'lineno', 0), z3.And(i >= 0, i < cont.len), kind='safety')
            return SList(cont.len, z3.Store(arr, i, to_z3(v, et)), et)
        if isinstance(cont, z3.ArrayRef):
            return z3.Store(cont, to_z3(idx), to_z3(v, _type_of_sort(cont.sort().range())))
        raise Undecided('subscript store into %r' % (cont,))

    def unpack(self, v, n):
        if isinstance(v, tuple):
            if len(v) != n:
                raise Undecided('unpack arity')
            return list(v)
        if isinstance(v, z3.ExprRef):
            t = _type_of_sort(v.sort())
            if isinstance(t, tuple) and t[0] == 'tuple':
                return list(from_z3(v, t))
        raise Undecided('cannot unpack %r' % (v,))

    # ---- loops
    def exec_loop(self, node, st: State):
        ordinal = self.loop_ordinals[id(node)]
        spec = self.c.loops.get(ordinal) or self.c.loops.get(_header_text(node))
        if spec is None:
            for k_, v_ in self.c.loops.items():
                if isinstance(k_, str) and _anchor_match(k_, _header_text(node)):
                    spec = v_
        if spec is None:
            raise Undecided('loop #%d (%s) of %s has no invariant' % (ordinal, _header_text(node), self.c.qualname))
        is_for = isinstance(node, (ast.For, ast.AsyncFor))
        L = None
        iter_fails = None
        if is_for:
            it = self.ev(node.iter, st)
            ihook = self.c.calls.get('iter:' + ast.unparse(node.iter))
            if ihook is not None:
                # (C22) an iterable the contract gives a meaning to (e.g. an asynchronous directory listing): the model returns
                # the list of the elements it hands out, or (list, failure) where failure(state) -> SExc is an exception with
                # which handing out any one element may fail instead (the elements before it have been consumed by then)
                it = ihook(self, st, [it], {}, node)
                if isinstance(it, tuple) and len(it) == 2 and isinstance(it[0], SList):
                    it, iter_fails = it
            if isinstance(it, tuple) and it and it[0] == 'range':
                L = it
            elif isinstance(it, SList):
                L = it
            elif isinstance(it, SMap):
                # iteration over a finite set / the keys of a map: some duplicate-free enumeration E of exactly its members,
                # len(E) == its cardinality (the order is arbitrary, so nothing is assumed about it)
                E = fresh_value(('list', it.kt), 'enum_of_' + ast.unparse(node.iter).replace('.', '_'))
                ea, eb = z3.Int(fresh_name('en_a')), z3.Int(fresh_name('en_b'))
                ek = z3.Const(fresh_name('en_k'), sort_of(it.kt))
                st.assume(E.len == it.size)
                st.assume(E.len >= 0)
                st.assume(z3.ForAll([ea], z3.Implies(z3.And(ea >= 0, ea < E.len), z3.Select(it.has, z3.Select(E.arr, ea)))))
                st.assume(z3.ForAll([ea, eb], z3.Implies(z3.And(0 <= ea, ea < eb, eb < E.len), z3.Select(E.arr, ea) != z3.Select(E.arr, eb))))
                st.assume(z3.ForAll([ek], z3.Implies(z3.Select(it.has, ek), z3.Exists([ea], z3.And(ea >= 0, ea < E.len, z3.Select(E.arr, ea) == ek)))))
                st.env['ENUM_' + ''.join(ch if ch.isalnum() else '_' for ch in ast.unparse(node.iter))] = E  # visible to loop invariants
                L = E
            else:
                raise Undecided('for-loop iterable %s' % ast.unparse(node.iter))
            if isinstance(node.iter, ast.Name) and node.iter.id in set(_assigned_names(node.body)):
                raise Undecided('for loop #%d changes the container it iterates over (%s)' % (ordinal, node.iter.id))
            if spec.index is None:
                raise Undecided('for loop #%d needs an index name in its LoopSpec' % ordinal)
            st.env[spec.index] = z3.IntVal(0)
        tag = 'loop%d' % ordinal
        # 1. invariants hold on entry
        for name, e in spec.invariants:
            self.oblige(st, '%s/inv-entry/%s' % (tag, name), self.ev_bool_str(e, st), clause=e)
        # 2. havoc
        mod = set(_assigned_names(node.body)) | set(spec.modifies or [])
        if is_for:
            mod |= set(_target_names(node.target))
            mod.add(spec.index)
        body_texts = set()
        for sub in node.body:
            for n in ast.walk(sub):
                if isinstance(n, ast.stmt):
                    body_texts.add(_header_text(n))
        for g in self.c.ghosts:
            if g.anchor in body_texts:
                mod |= set(_assigned_names(ast.parse(_dedent(g.code)).body))
        h = st.fork()
        h.trace.append('L%d:loop-head' % node.lineno)
        for name in sorted(mod):
            if name.startswith('self.'):
                rec = h.env.get('self')
                f = name[5:]
                if isinstance(rec, SRecord) and f in rec.fields:
                    nv = self.havoc_like(rec.fields[f], name)
                    rec.fields[f] = nv
                    for w in wf_constraints(nv):
                        h.assume(w)
                continue
            if name not in h.env:
                if name in h.env.get('__locals__', ()):
                    # not bound before the loop: at the head of an arbitrary iteration, and after the loop, it may or may not
                    # be bound - reading it before the body assigns it cannot be decided
                    h.env[name] = MAYBE_UNBOUND
                continue
            if h.env[name] is MAYBE_UNBOUND:
                continue
            t = self.c.types.get(name)
            nv = fresh_value(parse_type(t), name) if t else self.havoc_like(h.env[name], name)
            h.env[name] = nv
            for w in wf_constraints(nv):
                h.assume(w)
        n_iter = None
        if is_for:
            k = h.env[spec.index]
            n_iter = L.len if isinstance(L, SList) else self.range_len(L)
            h.assume(k >= 0)
            h.assume(k <= n_iter)
        for name, e in spec.invariants:
            h.assume(self.ev_bool_str(e, h))
        outs = []
        # 3a. one arbitrary iteration
        body = h.fork()
        if is_for:
            k = body.env[spec.index]
            body.assume(k < n_iter)
            if iter_fails is not None and feasible(body.pc):
                fb = body.fork()
                fb.trace.append('iterator-fails')
                outs.append((fb, ('raise', iter_fails(fb))))
            elem = from_z3(z3.Select(L.arr, k), L.et) if isinstance(L, SList) else (L[1] + k * L[3])
            self.assign(node.target, elem, body)
        else:
            body.assume(self._loop_test(node, body))
        if feasible(body.pc):
            body.trace.append('iter')
            self.ctx.add(core.satisfiable('%s/%s/vacuity/body-reachable' % (self.label, tag), list(body.pc)))
            head_env = dict(h.env)
            head_self = dict(h.env['self'].fields) if isinstance(h.env.get('self'), SRecord) else {}
            for s2, oc in self.exec_block(node.body, body):
                # soundness guard: everything the body changed must have been havocked at the loop head
                for nm, v0 in head_env.items():
                    if nm in mod or nm.startswith('__') or isinstance(v0, SRecord):
                        continue
                    if nm in s2.env and s2.env[nm] is not v0 and not _same_value(s2.env[nm], v0):
                        raise core.CheckerBug('loop #%d of %s changes %r which was not havocked (add it to LoopSpec.modifies)' % (ordinal, self.c.qualname, nm))
                if head_self and isinstance(s2.env.get('self'), SRecord):
                    for fn_, v0 in head_self.items():
                        if 'self.' + fn_ not in mod and s2.env['self'].fields.get(fn_) is not v0 and not _same_value(s2.env['self'].fields.get(fn_), v0):
                            raise core.CheckerBug('loop #%d of %s changes self.%s which was not havocked' % (ordinal, self.c.qualname, fn_))
                if oc[0] in ('next', 'continue'):
                    if is_for:
                        s2.env[spec.index] = s2.env[spec.index] + 1
                    for name, e in spec.invariants:
                        self.oblige(s2, '%s/inv-preserved/%s' % (tag, name), self.ev_bool_str(e, s2), clause=e)
                elif oc[0] == 'break':
                    outs.append((s2, ('next',)))
                else:
                    outs.append((s2, oc))
        # 3b. exit
        ex = h.fork()
        if is_for:
            ex.assume(ex.env[spec.index] >= n_iter)
        else:
            ex.assume(z3.Not(self._loop_test(node, ex)))
        if feasible(ex.pc):
            ex.trace.append('loop-exit')
            if node.orelse:
                outs.extend(self.exec_block(node.orelse, ex))
            else:
                outs.append((ex, ('next',)))
        return outs

    def _loop_test(self, node, st):
        try:
            return self.ev_cond(node.test, st)
        except Fork:
            # a split would re-execute the whole loop statement from the state before the loop, with the effects of the chosen
            # outcome applied there - not at the arbitrary iteration the test is evaluated in
            raise Undecided('L%d: the test of a while loop splits the path (call model with several outcomes, short-circuit operand that raises)' % node.lineno)

    def range_len(self, r):
        _, lo, hi, step = r
        if isinstance(step, int) and step == 1:
            d = to_z3(hi, 'int') - to_z3(lo, 'int')
            return z3.If(d > 0, d, 0)
        raise Undecided('range with step')

    def havoc_like(self, v, base):
        if isinstance(v, SList) and v.et is None:
            raise Undecided('cannot havoc list %s of unknown element type (declare it in Contract.types)' % base)
        if v is None:
            raise Undecided('cannot havoc %s (None at loop entry): declare its type in Contract.types' % base)
        return fresh_value(type_of_value(v), base)

    # ---- try / with
    def exec_try(self, node: ast.Try, st: State):
        outs = []
        for s1, oc in self.exec_block(node.body, st):
            if oc[0] == 'raise':
                outs.extend(self.dispatch_handlers(node, s1, oc[1]))
            elif oc[0] == 'next' and node.orelse:
                outs.extend(self.exec_block(node.orelse, s1))
            else:
                outs.append((s1, oc))
        if node.finalbody:
            res = []
            for s1, oc in outs:
                # while the finally block runs for a propagating exception, that exception is the one being handled
                # (sys.exc_info() / a bare `raise` see it)
                prev = s1.env.get('__current_exc__')
                if oc[0] == 'raise':
                    s1.env['__current_exc__'] = oc[1]
                for s2, oc2 in self.exec_block(node.finalbody, s1):
                    if oc[0] == 'raise':
                        s2.env['__current_exc__'] = prev
                    res.append((s2, oc if oc2[0] == 'next' else oc2))
            outs = res
        return outs

    def dispatch_handlers(self, node, st, exc: SExc):
        outs = []
        cur = st
        for h in node.handlers:
            names = self.handler_names(h)
            cond = self.exc_matches(exc, names)
            if cond is False:
                continue
            if cond is True:
                outs.extend(self.run_handler(h, cur, exc))
                return outs
            s_yes = cur.fork()
            s_yes.assume(cond)
            if feasible(s_yes.pc):
                s_yes.trace.append('L%d:except %s' % (h.lineno, '|'.join(names)))
                outs.extend(self.run_handler(h, s_yes, exc))
            cur = cur.fork()
            cur.assume(z3.Not(cond))
            if not feasible(cur.pc):
                return outs
        outs.append((cur, ('raise', exc)))
        return outs

    def run_handler(self, h, st, exc):
        prev = st.env.get('__current_exc__')
        st.env['__current_exc__'] = exc
        if h.name:
            st.env[h.name] = exc
        res = []
        for s2, oc in self.exec_block(h.body, st):
            s2.env['__current_exc__'] = prev
            if h.name:
                s2.env.pop(h.name, None)  # `except E as name`: the name is deleted when the handler is left
            res.append((s2, oc))
        return res

    def handler_names(self, h):
        if h.type is None:
            return ['BaseException']
        if isinstance(h.type, ast.Tuple):
            return [(_dotted(e) or '?').split('.')[-1] for e in h.type.elts]
        return [(_dotted(h.type) or '?').split('.')[-1]]

    def exc_matches(self, exc: SExc, names):
        """True / False / z3 condition"""
        if exc.cls is not None:
            for n in names:
                r = self.is_subclass(exc.cls, n)
                if r:
                    return True
            return False
        if 'BaseException' in names:
            return True  # everything that can be raised is a BaseException (bare `except:` included)
        conds = [self.isinst_pred(exc.term, n) for n in names]
        return z3.Or(*conds) if len(conds) > 1 else conds[0]

    def is_subclass(self, a, b):
        if a == b:
            return True
        hier = self.c.consts.get('__exc_hierarchy__', {})
        seen = set()
        cur = [a]
        while cur:
            x = cur.pop()
            if x in seen:
                continue
            seen.add(x)
            if x == b:
                return True
            cur.extend(hier.get(x, []))
            if x in EXC_NAMES and b in EXC_NAMES and issubclass(getattr(builtins, x), getattr(builtins, b)):
                return True
            if x in EXC_NAMES:
                cur.extend(k.__name__ for k in getattr(builtins, x).__mro__[1:] if k is not object)
        if a not in EXC_NAMES and a not in hier and b in ('Exception', 'BaseException'):
            return True  # user-defined exception classes derive from Exception unless declared otherwise
        return False

    def isinst_pred(self, term, cls):
        f = self.uf('isinst_' + cls, ['U'], 'bool')
        return f(term)

    def exec_with(self, node, st):
        model = None
        for item in node.items:
            ce = item.context_expr.value if isinstance(item.context_expr, ast.Await) else item.context_expr
            key = 'with:' + ast.unparse(ce)
            dn = _dotted(ce.func) if isinstance(ce, ast.Call) else _dotted(ce)
            model = self.c.calls.get(key) or (self.c.calls.get('with:' + dn) if dn else None)
            if model is None:
                raise Undecided('with-statement manager not modelled: %s' % ast.unparse(item.context_expr))
        if len(node.items) != 1:
            raise Undecided('multi-item with')
        return model(self, st, node)

    # ---- expressions
    def truthy(self, v):
        if isinstance(v, bool):
            return z3.BoolVal(v)
        if v is None:
            return z3.BoolVal(False)
        if isinstance(v, (int, float, str)):
            return z3.BoolVal(bool(v))
        if isinstance(v, SList):
            return v.len > 0
        if isinstance(v, tuple) and v and isinstance(v[0], str) and v[0] == 'range':
            return self.range_len(v) > 0
        if isinstance(v, tuple):
            return z3.BoolVal(len(v) > 0)
        if isinstance(v, z3.ExprRef):
            if z3.is_bool(v):
                return v
            if z3.is_int(v) or z3.is_real(v):
                return v != 0
            if z3.is_bv(v):
                return v != 0
            if v.sort() == z3.StringSort():
                return z3.Length(v) > 0
            if v.sort() == U:
                return self.uf('truthy', ['U'], 'bool')(v)  # (None is false: a hypothesis of every obligation, see oblige)
        if isinstance(v, SDict):
            return v.items.len > 0
        if isinstance(v, SMap):
            return v.size > 0
        if isinstance(v, SRecord) and v.cls == 'dict':
            keys = [k for k in v.fields if not k.startswith('has_')]
            if any('has_' + k not in v.fields for k in keys):
                return z3.BoolVal(True)
            return z3.Or(*[self.truthy(v.fields['has_' + k]) for k in keys]) if keys else z3.BoolVal(False)  # {} is false
        if isinstance(v, SRecord):
            if self.c.consts.get('__shared_records__') and v.cls == 'dict' and not any(k.startswith('has_') for k in v.fields):
                return z3.BoolVal(bool(v.fields))  # (C12, opt-in) a dict tracked with a definite key set: empty is falsy
            return z3.BoolVal(True)
        if isinstance(v, SFrac):
            return v.term != 0
        if isinstance(v, SDotted):
            return z3.BoolVal(True)
        raise Undecided('truthiness of %r' % (v,))

    def ev(self, node, st: State, stmt=False):
        m = getattr(self, 'ev_' + type(node).__name__, None)
        if m is None:
            raise Undecided('expression not in the pyvc subset: %s' % type(node).__name__)
        return m(node, st)

    def ev_Constant(self, node, st):
        if isinstance(node.value, float) and not self.c.float_as_real:
            raise Undecided('float constant (contract does not opt in to float_as_real)')
        if isinstance(node.value, float) and self.c.float_model == 'relerr' and node.value != int(node.value):
            raise Undecided('non-integral float constant under the relative-error float model')
        if isinstance(node.value, bytes) and self.c.consts.get('__bytes_as_lists__'):
            # (C33, opt-in through Contract.consts) a bytes literal is the list of its byte values, so that byte buffers
            # modelled as List[int] can be extended by literals; without the opt-in bytes stay opaque constants as before
            return self.list_of(list(node.value)) if node.value else SList(z3.IntVal(0), None, None)
        return node.value

    def ev_Name(self, node, st):
        if node.id in st.env:
            v = st.env[node.id]
            if v is MAYBE_UNBOUND:
                raise Undecided('L%s: %s is bound only inside a loop (unbound if the loop body never assigns it)' % (getattr(node, 'lineno', '?'), node.id))
            return v
        if node.id in ('True', 'False', 'None'):
            return {'True': True, 'False': False, 'None': None}[node.id]
        if node.id in st.env.get('__locals__', ()) and not getattr(self, 'in_spec', False):
            # a local variable of the function that is not bound on this path (never assigned yet, deleted, or the name of an
            # exception handler after the handler): Python raises, it does not fall back to a global of that name
            e = SExc('UnboundLocalError')
            e.line = getattr(node, 'lineno', None)
            raise PyRaise(e)
        return SDotted(node.id)

    def ev_Attribute(self, node, st):
        base = self.ev(node.value, st)
        return self.getattr(base, node.attr, st, node)

    def getattr(self, base, attr, st, node=None):
        if isinstance(base, SRecord):
            if attr in base.fields:
                return base.fields[attr]
            hook = self.c.calls.get('property:' + attr)
            if hook is not None:
                # (C38) a @property of the record's class, given a meaning by the contract (typically the real getter inlined);
                # without the hook an unknown attribute of a record stays a bound method as before
                return hook(self, st, [base], {}, node)
            return ('boundmethod', base, attr)
        if isinstance(base, SDotted):
            name = base.name + '.' + attr
            if name in self.c.consts:
                return self.c.consts[name]
            if name in STDLIB_INT_CONSTS:
                return STDLIB_INT_CONSTS[name]
            return SDotted(name)
        if isinstance(base, (SList, tuple, SDict, SMap)) or (isinstance(base, z3.ExprRef) and base.sort() != U):
            return ('boundmethod', base, attr)
        if isinstance(base, SExc):
            if base.term is not None:
                return self.attr_of_U(base.term, attr)
            if attr == 'args':
                return tuple(base.args)
            return ('boundmethod', base, attr)
        if isinstance(base, z3.ExprRef) and base.sort() == U:
            return self.attr_of_U(base, attr)
        if isinstance(base, (str, int, dict, bytes)):
            return ('boundmethod', base, attr)
        raise Undecided('attribute %s of %r' % (attr, base))

    def attr_of_U(self, term, attr):
        t = self.c.types.get('.' + attr)
        if t is None:
            return ('boundmethod', term, attr)
        tt = parse_type(t)
        return from_z3(self.uf('attr_' + attr, ['U'], t)(term), tt)

    def ev_cond(self, node, st):
        """truth value of an expression in a position where only its truth matters (if / while / assert tests, `not`, the
        test of a conditional expression, contract clauses)"""
        if isinstance(node, ast.BoolOp):
            return self.ev_BoolOp(node, st, truth_only=True)
        if isinstance(node, ast.UnaryOp) and isinstance(node.op, ast.Not):
            return z3.Not(self.ev_cond(node.operand, st))
        return self.truthy(self.ev(node, st))

    def _split_keys(self, node, n):
        """one path-split marker per operand of a short-circuit expression (the marker, not the operand node, keys the decision:
        the operand may be a call that is itself split)"""
        ks = getattr(node, '_pyvc_split_keys', None)
        if ks is None:
            ks = node._pyvc_split_keys = [_SplitKey(getattr(node, 'lineno', '?')) for _ in range(n)]
        return ks

    def ite_value(self, c, a, b):
        """the value `a if c else b` of two already evaluated values"""
        if a is b or (a is None and b is None):
            return a
        cs = z3.simplify(c)
        if z3.is_true(cs):
            return a
        if z3.is_false(cs):
            return b
        ta = type_of_value(a)
        tb = type_of_value(b)
        t = ta if ta == tb else ('real' if {ta, tb} <= {'int', 'real'} else ('int' if {ta, tb} <= {'int', 'bool'} else None))
        if t is None and 'U' in (ta, tb) and (isinstance(a, (str, SDotted)) or a is None or isinstance(b, (str, SDotted)) or b is None):
            t = 'U'
        if t is None or (isinstance(a, tuple) and a and isinstance(a[0], str)) or (isinstance(b, tuple) and b and isinstance(b[0], str)) or isinstance(a, (SRecord, SMap, SDict)) or isinstance(b, (SRecord, SMap, SDict)):
            raise Undecided('value of a short-circuit expression whose operands have different types (%s / %s)' % (type_key(ta) if ta else ta, type_key(tb) if tb else tb))
        return from_z3(z3.If(c, to_z3(a, t), to_z3(b, t)), t)

    def ev_BoolOp(self, node, st, truth_only=False):
        # short-circuit: operand k is evaluated (and its safety obligations are generated) under the assumption
        # that the previous operands did not already decide the result
        is_and = isinstance(node.op, ast.And)
        in_spec = getattr(self, 'in_spec', False)
        s2 = State(st.env, list(st.pc))
        s2.decided = st.decided
        s2.decided_used = st.decided_used
        s2.trace = st.trace
        vals = []
        raws = []
        guards = []
        keys = self._split_keys(node, len(node.values))
        for k, v in enumerate(node.values):
            before = len(s2.pc)
            sub = (lambda n_, s_: self.ev_cond(n_, s_)) if truth_only else (lambda n_, s_: self.ev(n_, s_))
            if guards and id(keys[k]) in st.decided:
                # the statement is re-executed for one side of a split on "is this operand evaluated at all" (see below)
                go = st.take_decided(keys[k])[1]
                g_all = z3.And(*guards)
                if not go:
                    st.assume(z3.Not(g_all))
                    break
                st.assume(g_all)
                guards = []
                raw = sub(v, s2)
            elif guards:
                # an operand that Python may skip: its side effects on the environment (made by call models) apply only
                # under the guards - evaluate on a copy and merge the changed entries conditionally
                env0 = st.env
                s2.env = dict(env0)
                g_all = z3.And(*guards)
                try:
                    raw = sub(v, s2)
                except (Fork, PyRaise):
                    if in_spec:
                        raise
                    # the operand raises, or its evaluation splits the path (a call model with several outcomes): both happen
                    # only if the operand is evaluated - split the path on that first, then the operand is evaluated (or not)
                    # unconditionally
                    s2.env = env0
                    raise Fork(keys[k], [('operand%d-skipped' % k, z3.Not(g_all), 'boolop', False), ('operand%d-evaluated' % k, g_all, 'boolop', True)])
                for key, nv in s2.env.items():
                    ov = env0.get(key)
                    if nv is ov or _same_value(nv, ov):
                        continue
                    merged = None
                    try:
                        tn, to_ = type_of_value(nv), type_of_value(ov)
                        if tn == to_ and tn in ('int', 'bool', 'real', 'U', 'bv64', 'str'):
                            merged = from_z3(z3.If(g_all, to_z3(nv, tn), to_z3(ov, tn)), tn)
                        elif {tn, to_} <= {'int', 'bool'}:
                            merged = z3.If(g_all, to_z3(nv, 'int'), to_z3(ov, 'int'))
                    except Undecided:
                        merged = None
                    if merged is None or key not in env0:
                        if in_spec:
                            raise Undecided('side effect on %r inside a short-circuit operand cannot be merged' % key)
                        s2.env = env0
                        raise Fork(keys[k], [('operand%d-skipped' % k, z3.Not(g_all), 'boolop', False), ('operand%d-evaluated' % k, g_all, 'boolop', True)])
                    env0[key] = merged
                s2.env = env0
            else:
                raw = sub(v, s2)
            t = raw if truth_only else self.truthy(raw)
            # facts assumed by call models while evaluating this operand (e.g. a clock reading) hold whenever the operand is
            # evaluated at all, i.e. under the short-circuit guards: keep them in the caller's path condition
            for fact in s2.pc[before:]:
                st.assume(z3.Implies(z3.And(*guards), fact) if guards else fact)
            vals.append(t)
            raws.append(raw)
            ts = z3.simplify(t)
            if (is_and and z3.is_false(ts)) or (not is_and and z3.is_true(ts)):
                break  # decided by a concrete operand: Python does not evaluate the rest
            g = t if is_and else z3.Not(t)
            guards.append(g)
            s2.pc.append(g)
        if truth_only or all(isinstance(r, bool) or (isinstance(r, z3.ExprRef) and z3.is_bool(r)) for r in raws):
            return z3.And(*vals) if is_and else z3.Or(*vals)
        # `x and y` / `x or y` return one of their operands, not a truth value
        res = raws[-1]
        for k in range(len(raws) - 2, -1, -1):
            res = self.ite_value(vals[k], res, raws[k]) if is_and else self.ite_value(vals[k], raws[k], res)
        return res

    def ev_UnaryOp(self, node, st):
        if isinstance(node.op, ast.Not):
            return z3.Not(self.ev_cond(node.operand, st))
        v = self.ev(node.operand, st)
        if isinstance(node.op, ast.Not):
            return z3.Not(self.truthy(v))  # (not reached: `not` is evaluated by ev_cond below)
        if isinstance(node.op, ast.USub):
            if isinstance(v, z3.ExprRef) and z3.is_bool(v):
                return -self.num(v)
            return -v if not isinstance(v, bool) else -int(v)
        if isinstance(node.op, ast.UAdd):
            return v
        raise Undecided('unary op')

    def ev_IfExp(self, node, st):
        if id(node) in st.decided:
            # the statement is being re-executed for one alternative of the split below: the test is evaluated again (the
            # re-execution starts from the state before the statement, so what evaluating the test does to the state has to
            # happen again) and only the chosen branch is evaluated
            taken = st.take_decided(node)[1]
            c = self.ev_cond(node.test, st)
            st.assume(c if taken else z3.Not(c))
            return self.ev(node.body if taken else node.orelse, st)
        c = self.ev_cond(node.test, st)
        cs = z3.simplify(c)
        if z3.is_true(cs):
            return self.ev(node.body, st)  # Python evaluates only the branch taken
        if z3.is_false(cs):
            return self.ev(node.orelse, st)
        effectful = any(isinstance(n, (ast.Call, ast.Await, ast.NamedExpr, ast.Yield, ast.YieldFrom)) for br in (node.body, node.orelse) for n in ast.walk(br))
        if effectful and not getattr(self, 'in_spec', False):
            # a branch that calls something: its call model may assume facts, raise, fork or change ghost state, and all of
            # that happens only if the branch is taken - split the path on the condition instead of evaluating both
            raise Fork(node, [('ifexp-then', c, 'ifexp', True), ('ifexp-else', z3.Not(c), 'ifexp', False)])
        outs = []
        for br, g in ((node.body, c), (node.orelse, z3.Not(c))):
            # call-free branches: evaluated under their guard, so that safety obligations of the branch not taken (an index,
            # a division) are not demanded, and facts recorded while evaluating hold only under the guard
            s2 = State(st.env, list(st.pc) + [g])
            s2.decided = st.decided
            s2.decided_used = st.decided_used
            s2.trace = st.trace
            n0 = len(s2.pc)
            try:
                outs.append(self.ev(br, s2))
            except PyRaise:
                # the branch raises (a constant index out of range, a division by a literal zero): that happens only if the
                # branch is taken - split the path as for a branch that calls something
                raise Fork(node, [('ifexp-then', c, 'ifexp', True), ('ifexp-else', z3.Not(c), 'ifexp', False)])
            for fact in s2.pc[n0:]:
                st.assume(z3.Implies(g, fact))
        a, b = outs
        if (isinstance(a, (SMap, SRecord, SDict)) or isinstance(b, (SMap, SRecord, SDict))) and not getattr(self, 'in_spec', False):
            # (C23) branches that are maps / records have no single term to merge into: split the path on the condition
            raise Fork(node, [('ifexp-then', c, 'ifexp', True), ('ifexp-else', z3.Not(c), 'ifexp', False)])
        ta = type_of_value(a)
        tb = type_of_value(b)
        t = ta if ta == tb else ('real' if {ta, tb} <= {'int', 'real'} else ('int' if {ta, tb} <= {'int', 'bool'} else None))
        if t is None and 'U' in (ta, tb) and (isinstance(a, (str, SDotted)) or a is None or isinstance(b, (str, SDotted)) or b is None):
            t = 'U'  # an opaque value or a string literal / None / enum member (interned constants of the opaque sort)
            if any(not (isinstance(x, (str, SDotted)) or x is None or (isinstance(x, z3.ExprRef) and x.sort() == U)) for x in (a, b)):
                t = None  # `n if c else None` with an int n: the int has no encoding in the opaque sort (was: z3 sort-mismatch crash)
        if t is None:
            if getattr(self, 'in_spec', False):
                raise Undecided('conditional expression with branches of different types')
            # branches of different types cannot be merged into one term: split the path on the condition (as for branches
            # that call something), each alternative keeps the Python value of its branch
            raise Fork(node, [('ifexp-then', c, 'ifexp', True), ('ifexp-else', z3.Not(c), 'ifexp', False)])
        return from_z3(z3.If(c, to_z3(a, t), to_z3(b, t)), t)

    def ev_Compare(self, node, st):
        left = self.ev(node.left, st)
        out = []
        for k, (op, rn) in enumerate(zip(node.ops, node.comparators)):
            if k >= 1 and not isinstance(rn, (ast.Name, ast.Constant)) and not getattr(self, 'in_spec', False):
                # a < b < f(): the later operands of a chained comparison are evaluated only if the comparisons before them hold
                g_all = z3.And(*out)
                gs = z3.simplify(g_all)
                if z3.is_false(gs):
                    break
                if not z3.is_true(gs):
                    key = self._split_keys(node, len(node.ops))[k]
                    split = Fork(key, [('comparand%d-skipped' % k, z3.Not(g_all), 'compare', False), ('comparand%d-evaluated' % k, g_all, 'compare', True)])
                    if id(key) in st.decided:
                        if not st.take_decided(key)[1]:
                            st.assume(z3.Not(g_all))
                            break
                        st.assume(g_all)
                        right = self.ev(rn, st)
                    else:
                        # evaluated under the guard on a scratch state; if that raises, splits the path or changes the
                        # environment, the path is split on the guard first
                        s2 = State(dict(st.env), list(st.pc) + [g_all])
                        s2.decided, s2.decided_used, s2.trace = st.decided, st.decided_used, st.trace
                        n0 = len(s2.pc)
                        try:
                            right = self.ev(rn, s2)
                        except (Fork, PyRaise):
                            raise split
                        if any(v_ is not st.env.get(k_) and not _same_value(v_, st.env.get(k_)) for k_, v_ in s2.env.items()) or len(s2.env) != len(st.env):
                            raise split
                        for fact in s2.pc[n0:]:
                            st.assume(z3.Implies(g_all, fact))
                    out.append(self.compare(op, left, right, st))
                    left = right
                    continue
            right = self.ev(rn, st)
            out.append(self.compare(op, left, right, st))
            left = right
        return out[0] if len(out) == 1 else z3.And(*out)

    def compare(self, op, a, b, st):
        if isinstance(op, (ast.Is, ast.IsNot)):
            if b is None or a is None:
                other = a if b is None else b
                r = self.is_none(other)
                return r if isinstance(op, ast.Is) else z3.Not(r)
            if self.c.consts.get('__bool_identity__') and (isinstance(a, bool) or isinstance(b, bool)):
                # (C14) `x is True` / `x is False`: identity with the bool singletons.  An int/float/str object is never that
                # singleton (`0 is False` is False although `0 == False`); only a bool-typed operand can be.  Opt-in per
                # contract (consts['__bool_identity__']); without it `is` keeps being read as `==` as before.
                const, other = (a, b) if isinstance(a, bool) else (b, a)
                to_ = type_of_value(other)
                if to_ == 'bool':
                    r = self.equal(other, const)
                elif to_ in ('int', 'real', 'str') and not isinstance(other, bool):
                    r = z3.BoolVal(False)
                else:
                    raise Undecided('identity test of %s against a bool singleton' % type_key(to_))
                return r if isinstance(op, ast.Is) else z3.Not(r)
            op = ast.Eq() if isinstance(op, ast.Is) else ast.NotEq()
        if isinstance(op, (ast.In, ast.NotIn)):
            r = self.contains(b, a, st)
            return r if isinstance(op, ast.In) else z3.Not(r)
        if isinstance(op, (ast.Eq, ast.NotEq)):
            r = self.equal(a, b)
            return r if isinstance(op, ast.Eq) else z3.Not(r)
        if self.c.consts.get('__opaque_order__') and isinstance(op, (ast.Lt, ast.LtE, ast.Gt, ast.GtE)) and any(isinstance(x, z3.ExprRef) and x.sort() == U for x in (a, b)):
            # (C12) ordering between values the contract keeps opaque (prices): the outcome is havocked - a fresh Boolean -
            # which over-approximates every ordering (and the TypeError Python raises for None operands is not modelled)
            return z3.Bool(fresh_name('opaque_order'))
        if (isinstance(a, z3.ExprRef) and z3.is_bv(a)) or (isinstance(b, z3.ExprRef) and z3.is_bv(b)):
            az, bz = to_z3(a, 'bv64'), to_z3(b, 'bv64')  # signed comparison (z3's < <= > >= on bit-vectors are signed)
        else:
            az, bz = self.num(a), self.num(b)
        if isinstance(op, ast.Lt):
            return az < bz
        if isinstance(op, ast.LtE):
            return az <= bz
        if isinstance(op, ast.Gt):
            return az > bz
        if isinstance(op, ast.GtE):
            return az >= bz
        raise Undecided('comparison')

    def is_none(self, v):
        if v is None:
            return z3.BoolVal(True)
        if isinstance(v, z3.ExprRef) and v.sort() == U:
            return v == z3.Const('const_None', U)
        return z3.BoolVal(False)

    def num(self, v):
        if isinstance(v, SFrac):
            return v.term
        if isinstance(v, bool):
            return z3.IntVal(int(v))
        if isinstance(v, int):
            return z3.IntVal(v)
        if isinstance(v, float):
            return z3.RealVal(repr(v))
        if isinstance(v, z3.ExprRef):
            if z3.is_bool(v):
                return z3.If(v, z3.IntVal(1), z3.IntVal(0))
            if z3.is_int(v) or z3.is_real(v):
                return v
            if z3.is_bv(v):
                return z3.BV2Int(v)
        raise Undecided('not a number: %r' % (v,))

    def equal(self, a, b):
        if a is None or b is None:
            return self.is_none(b if a is None else a)
        if isinstance(a, (bool, int, str, float, bytes)) and isinstance(b, (bool, int, str, float, bytes)):
            return z3.BoolVal(a == b)
        if isinstance(a, SMap) and isinstance(b, SMap):
            q = z3.Const(fresh_name('eq_k'), sort_of(a.kt))
            same_keys = z3.ForAll([q], z3.Select(a.has, q) == z3.Select(b.has, q))
            if a.vt == 'bool' and b.vt == 'bool':
                return same_keys  # sets
            return z3.And(same_keys, z3.ForAll([q], z3.Implies(z3.Select(a.has, q), z3.Select(a.val, q) == z3.Select(b.val, q))))
        if isinstance(a, SList) and isinstance(b, SList):
            j = z3.Int(fresh_name('eq_j'))
            if a.et is None or b.et is None:
                return z3.And(a.len == b.len, (a.len if a.et is None else b.len) == 0) if (a.et is None) != (b.et is None) else a.len == b.len
            return z3.And(a.len == b.len, z3.ForAll([j], z3.Implies(z3.And(0 <= j, j < a.len), z3.Select(a.arr, j) == z3.Select(b.arr, j))))
        if isinstance(a, tuple) and isinstance(b, tuple):
            if len(a) != len(b):
                return z3.BoolVal(False)
            return z3.And(*[self.equal(x, y) for x, y in zip(a, b)]) if a else z3.BoolVal(True)
        ta, tb = type_of_value(a), type_of_value(b)
        if (ta == 'bv64' and tb in ('int', 'bool', 'bv64')) or (tb == 'bv64' and ta in ('int', 'bool')):
            return to_z3(a, 'bv64') == to_z3(b, 'bv64')
        if ta in ('int', 'bool', 'real') and tb in ('int', 'bool', 'real'):
            if ta == 'bool' and tb == 'bool':
                return to_z3(a) == to_z3(b)
            return self.num(a) == self.num(b)
        if ta == 'U' or tb == 'U':
            if ta != tb and not isinstance(a, (SDotted, str, SExc)) and not isinstance(b, (SDotted, str, SExc)):
                raise Undecided('comparison of an unmodelled value with a %s' % (tb if ta == 'U' else ta))
            return to_z3(a, 'U') == to_z3(b, 'U')
        if ta == tb:
            return to_z3(a, ta) == to_z3(b, tb)
        raise Undecided('equality between %s and %s' % (type_key(ta), type_key(tb)))

    def contains(self, cont, x, st):
        if isinstance(cont, SMap):
            return z3.Select(cont.has, to_z3(x, cont.kt))
        if isinstance(cont, SDict):
            return cont.has(to_z3(x, cont.kt))
        if isinstance(cont, SRecord) and isinstance(x, str):
            if 'has_' + x in cont.fields:
                return self.truthy(cont.fields['has_' + x])
            return z3.BoolVal(x in cont.fields)
        if isinstance(cont, dict):
            cont = tuple(cont.keys())
        if isinstance(cont, frozenset):
            cont = tuple(sorted(cont, key=repr))
        if isinstance(cont, (tuple, list)) and not (cont and isinstance(cont[0], str) and cont[0] == 'range'):
            return z3.Or(*[self.equal(x, y) for y in cont]) if cont else z3.BoolVal(False)
        if isinstance(cont, SList):
            j = z3.Int(fresh_name('in_j'))
            return z3.Exists([j], z3.And(0 <= j, j < cont.len, z3.Select(cont.arr, j) == to_z3(x, cont.et)))
        if isinstance(cont, z3.ArrayRef) and cont.sort().range() == z3.BoolSort():
            return z3.Select(cont, to_z3(x, _type_of_sort(cont.sort().domain())))
        if isinstance(cont, z3.ExprRef) and cont.sort() == z3.StringSort() and (isinstance(x, str) or (isinstance(x, z3.ExprRef) and x.sort() == z3.StringSort())):
            return z3.Contains(cont, self.pystr(x))  # (C14) `sub in s` on str values: substring test
        if isinstance(cont, str) and isinstance(x, str):
            return z3.BoolVal(x in cont)
        if isinstance(cont, str) and self.c.consts.get('__text_operands__') and isinstance(x, z3.ExprRef) and x.sort() == U:
            # (C14) `x in 'literal'` is Python's SUBSTRING test (`('auth')` is the str 'auth', not a 1-tuple).  For a str-valued
            # x it is true exactly if x equals one of the finitely many substrings of the literal, the empty one included.
            # Opt-in per contract (consts['__text_operands__']: the contract states that its opaque operands of `in <str>` are
            # text; for any other value Python raises TypeError, which is not modelled) - without it this stays Undecided.
            subs = sorted({cont[i:j] for i in range(len(cont) + 1) for j in range(i, len(cont) + 1)})
            return z3.Or(*[self.equal(x, s) for s in subs])
        raise Undecided('membership in %r' % (cont,))

    def ev_BinOp(self, node, st):
        a = self.ev(node.left, st)
        b = self.ev(node.right, st)
        return self.binop(node.op, a, b, st, node)

    def binop(self, op, a, b, st, node=None):
        if isinstance(a, (int, float)) and not isinstance(a, bool) and isinstance(b, (int, float)) and not isinstance(b, bool):
            try:
                r = {
                    ast.Add: lambda: a + b,
                    ast.Sub: lambda: a - b,
                    ast.Mult: lambda: a * b,
                    ast.FloorDiv: lambda: a // b,
                    ast.Mod: lambda: a % b,
                    ast.Pow: lambda: a**b,
                    ast.LShift: lambda: a << b,
                    ast.RShift: lambda: a >> b,
                    ast.BitAnd: lambda: a & b,
                    ast.BitOr: lambda: a | b,
                    ast.Div: lambda: a / b,
                }[type(op)]()
                if isinstance(r, float) and not self.c.float_as_real:
                    raise Undecided('float arithmetic')
                return r
            except KeyError:
                raise Undecided('binary operator %s' % type(op).__name__)
            except ZeroDivisionError:
                raise PyRaise(SExc('ZeroDivisionError'))
            except (ValueError, OverflowError, TypeError) as e_:
                raise Undecided('constant arithmetic raises %s' % type(e_).__name__)
        if isinstance(op, ast.Add) and isinstance(a, SList) and isinstance(b, SList):
            return self.concat([a, b])
        if isinstance(op, ast.Add) and isinstance(a, tuple) and isinstance(b, tuple):
            return a + b
        if isinstance(op, ast.Add) and isinstance(a, str) and isinstance(b, str):
            return a + b
        if isinstance(op, ast.Add) and self.c.strings and (isinstance(a, str) or (isinstance(a, z3.ExprRef) and a.sort() == z3.StringSort())) and (isinstance(b, str) or (isinstance(b, z3.ExprRef) and b.sort() == z3.StringSort())):
            return z3.Concat(self.pystr(a), self.pystr(b))
        if (isinstance(a, z3.ExprRef) and z3.is_bv(a)) or (isinstance(b, z3.ExprRef) and z3.is_bv(b)):
            ab, bb = to_z3(a, 'bv64') if not (isinstance(a, z3.ExprRef) and z3.is_bv(a)) else a, to_z3(b, 'bv64') if not (isinstance(b, z3.ExprRef) and z3.is_bv(b)) else b
            if isinstance(a, z3.ExprRef) and z3.is_bool(a):
                ab = z3.If(a, z3.BitVecVal(1, 64), z3.BitVecVal(0, 64))
            if isinstance(b, z3.ExprRef) and z3.is_bool(b):
                bb = z3.If(b, z3.BitVecVal(1, 64), z3.BitVecVal(0, 64))
            if self.c.bv_checked and not getattr(self, 'in_spec', False):
                # Python ints are unbounded: a 64-bit signed vector models them only while nothing overflows
                ln = getattr(node, 'lineno', 0)
                if isinstance(op, ast.Add):
                    self.oblige(st, 'safety/int64-add-no-overflow@L%d' % ln, z3.And(z3.BVAddNoOverflow(ab, bb, True), z3.BVAddNoUnderflow(ab, bb)), kind='safety')
                elif isinstance(op, ast.Sub):
                    self.oblige(st, 'safety/int64-sub-no-overflow@L%d' % ln, z3.And(z3.BVSubNoOverflow(ab, bb), z3.BVSubNoUnderflow(ab, bb, True)), kind='safety')
                elif isinstance(op, ast.Mult):
                    self.oblige(st, 'safety/int64-mul-no-overflow@L%d' % ln, z3.And(z3.BVMulNoOverflow(ab, bb, True), z3.BVMulNoUnderflow(ab, bb)), kind='safety')
                elif isinstance(op, ast.LShift):
                    self.oblige(st, 'safety/int64-shift-no-overflow@L%d' % ln, z3.And(z3.ULT(bb, 64), ((ab << bb) >> bb) == ab), kind='safety')
                elif isinstance(op, ast.RShift):
                    self.oblige(st, 'safety/int64-shift-count-in-range@L%d' % ln, z3.ULT(bb, 64), kind='safety')
            if isinstance(op, (ast.FloorDiv, ast.Mod)):
                if not getattr(self, 'in_spec', False):
                    self.oblige(st, 'safety/divisor-positive@L%d' % getattr(node, 'lineno', 0), bb > 0, kind='safety')
                # floor semantics for a positive divisor: truncating signed division, corrected for negative numerators
                qt = ab / bb
                rt = z3.SRem(ab, bb)
                q = z3.If(z3.And(ab < 0, rt != 0), qt - 1, qt)
                return q if isinstance(op, ast.FloorDiv) else ab - q * bb
            ops = {ast.BitOr: lambda: ab | bb, ast.BitAnd: lambda: ab & bb, ast.BitXor: lambda: ab ^ bb, ast.LShift: lambda: ab << bb, ast.RShift: lambda: ab >> bb, ast.Add: lambda: ab + bb, ast.Sub: lambda: ab - bb, ast.Mult: lambda: ab * bb}
            if type(op) in ops:
                return ops[type(op)]()  # `>>` on z3 bit-vectors is the arithmetic shift, as on Python ints
            raise Undecided('operator %s on bit-vectors' % type(op).__name__)
        az, bz = self.num(a), self.num(b)
        ka, kb = self.numkind(a), self.numkind(b)
        if 'frac' in (ka, kb) or 'float' in (ka, kb) or isinstance(op, ast.Div):
            r = self.real_binop(op, az, bz, ka, kb, st)
            if r is not None:
                return r
        if isinstance(op, ast.Add):
            return az + bz
        if isinstance(op, ast.Sub):
            return az - bz
        if isinstance(op, ast.Mult):
            return az * bz
        if isinstance(op, ast.FloorDiv):
            if z3.is_real(az) or z3.is_real(bz):
                raise Undecided('floor division of floats')
            return self.floordiv(az, bz, st, node)
        if isinstance(op, ast.Mod):
            if z3.is_real(az) or z3.is_real(bz):
                raise Undecided('modulo of floats')
            return az - bz * self.floordiv(az, bz, st, node)
        if isinstance(op, ast.Div):
            if not self.c.float_as_real:
                raise Undecided('true division (float) without float_as_real')
            return z3.ToReal(az) / z3.ToReal(bz) if z3.is_int(az) and z3.is_int(bz) else (z3.ToReal(az) if z3.is_int(az) else az) / (z3.ToReal(bz) if z3.is_int(bz) else bz)
        if isinstance(op, ast.LShift):
            if self.c.consts.get('__shift_as_bv__') and isinstance(a, int) and not isinstance(a, bool):
                return z3.BitVecVal(a, 64) << z3.Int2BV(bz, 64)
            return az * self.pow2(bz, st, node)
        if isinstance(op, ast.RShift):
            return self.floordiv(az, self.pow2(bz, st, node), st, node)
        if isinstance(op, ast.Pow) and isinstance(a, int) and a == 2:
            return self.pow2(bz, st, node)
        if isinstance(op, ast.BitAnd) and self.c.consts.get('__int_bitand_uf__') and z3.is_int(az) and z3.is_int(bz):
            # (C12) bitwise and of unbounded Python ints: an uninterpreted function constrained only by facts that hold for
            # all non-negative operands (0 <= a & b <= min(a, b)); everything else about the value is unknown (sound havoc)
            f = self.uf('int_bitand', ['int', 'int'], 'int')
            r = f(az, bz)
            st.assume(z3.Implies(z3.And(az >= 0, bz >= 0), z3.And(r >= 0, r <= az, r <= bz)))
            return r
        raise Undecided('binary operator %s on symbolic operands' % type(op).__name__)

    def numkind(self, v):
        if isinstance(v, SFrac):
            return 'frac'
        if isinstance(v, float):
            return 'float'
        if isinstance(v, z3.ExprRef) and z3.is_real(v):
            return 'float'
        return 'int'

    def round_float(self, exact, st):
        """result of one IEEE-754 double operation whose exact real value is `exact` (no overflow/underflow)"""
        if self.c.float_model != 'relerr':
            return exact
        r = z3.Real(fresh_name('fl'))
        u = z3.RealVal(1) / z3.RealVal(2**53)
        st.assume(z3.If(exact >= 0, z3.And(r >= exact * (1 - u), r <= exact * (1 + u)), z3.And(r <= exact * (1 - u), r >= exact * (1 + u))))
        return r

    def real_binop(self, op, az, bz, ka, kb, st):
        ar = z3.ToReal(az) if z3.is_int(az) else az
        br = z3.ToReal(bz) if z3.is_int(bz) else bz
        if isinstance(op, ast.Add):
            e = ar + br
        elif isinstance(op, ast.Sub):
            e = ar - br
        elif isinstance(op, ast.Mult):
            e = ar * br
        elif isinstance(op, ast.Div):
            e = ar / br
        else:
            return None
        if getattr(self, 'in_spec', False):
            return SFrac(e)  # contract expressions are mathematical: exact
        if 'float' in (ka, kb):
            if not self.c.float_as_real:
                raise Undecided('float arithmetic without float_as_real')
            return self.round_float(e, st)
        if 'frac' in (ka, kb):
            return SFrac(e)
        # int / int -> float
        if not self.c.float_as_real:
            raise Undecided('true division (float) without float_as_real')
        return self.round_float(e, st)

    def floordiv(self, a, d, st, node):
        ds = z3.simplify(d)
        if z3.is_int_value(ds):
            dv = ds.as_long()
            if dv > 0:
                return a / ds
            if dv < 0:
                return (-a) / z3.IntVal(-dv)
            raise PyRaise(SExc('ZeroDivisionError'))
        # symbolic divisor: obligation that it is non-zero, then exact floor semantics
        self.oblige(st, 'safety/divisor-nonzero@L%d' % getattr(node, 'lineno', 0), d != 0, kind='safety')
        return z3.If(d > 0, a / d, (-a) / (-d))

    def pow2(self, e, st, node, bound=64):
        es = z3.simplify(e)
        if z3.is_int_value(es):
            return z3.IntVal(1 << es.as_long())
        self.oblige(st, 'safety/shift-count-in-0..%d@L%d' % (bound, getattr(node, 'lineno', 0)), z3.And(e >= 0, e <= bound), kind='safety')
        r = z3.IntVal(1 << bound)
        for k in range(bound - 1, -1, -1):
            r = z3.If(e == k, z3.IntVal(1 << k), r)
        return r

    def concat(self, lists: List[SList]):
        lists = [l for l in lists if not (l.et is None)]
        if not lists:
            return SList(z3.IntVal(0), None, None)
        et = lists[0].et
        for l in lists:
            if l.et != et:
                raise Undecided('concatenation of lists of different element types')
        if len(lists) == 1:
            return lists[0]
        i = z3.Int(fresh_name('cat_i'))
        total = lists[-1].len
        body = z3.Select(lists[-1].arr, i - sum([l.len for l in lists[:-1]], z3.IntVal(0)))
        for idx in range(len(lists) - 2, -1, -1):
            off = sum([l.len for l in lists[:idx]], z3.IntVal(0))
            body = z3.If(i < off + lists[idx].len, z3.Select(lists[idx].arr, i - off), body)
            total = total + lists[idx].len
        return SList(total, z3.Lambda([i], body), et)

    def ev_List(self, node, st):
        if not node.elts:
            return SList(z3.IntVal(0), None, None)
        if any(isinstance(e, ast.Starred) for e in node.elts):
            parts = []
            for e in node.elts:
                if isinstance(e, ast.Starred):
                    v = self.ev(e.value, st)
                    if not isinstance(v, SList):
                        raise Undecided('starred non-list')
                    parts.append(v)
                else:
                    parts.append(self.list_of([self.ev(e, st)]))
            return self.concat(parts)
        vals = [self.ev(e, st) for e in node.elts]
        kinds = {type_key(type_of_value(v)) for v in vals}
        if len(kinds) > 1 or any(v is None for v in vals):
            return tuple(vals)  # a fixed-size heterogeneous list literal is a tuple (positional record)
        return self.list_of(vals)

    def list_of(self, vals, et=None):
        et = et or type_of_value(vals[0])
        arr = z3.Const(fresh_name('lit'), z3.ArraySort(z3.IntSort(), sort_of(et)))
        for i, v in enumerate(vals):
            arr = z3.Store(arr, i, to_z3(v, et))
        return SList(z3.IntVal(len(vals)), arr, et)

    def ev_Tuple(self, node, st):
        return tuple(self.ev(e, st) for e in node.elts)

    def ev_Set(self, node, st):
        # (C14) a set display of literals, as in `x in {'closed', 'deleted'}`: a constant frozenset (membership only)
        vals = [self.ev(e, st) for e in node.elts]
        if all((isinstance(v, (int, str, bool, bytes)) or v is None) for v in vals):
            return frozenset(vals)
        raise Undecided('set display with non-literal elements')

    def ev_Subscript(self, node, st):
        hook = self.c.calls.get('subscript:' + ast.unparse(node.value))
        if hook is not None and not isinstance(node.slice, ast.Slice):
            # a container whose indexing the contract gives a meaning to (e.g. SortedSet[0] = an element with the least key)
            return hook(self, st, [self.ev(node.value, st), self.ev(node.slice, st)], {}, node)
        cont = self.ev(node.value, st)
        if isinstance(node.slice, ast.Slice):
            return self.slice(cont, node.slice, st)
        idx = self.ev(node.slice, st)
        return self.index(cont, idx, st, node)

    def index(self, cont, idx, st, node=None):
        if node is not None and isinstance(cont, dict) and id(node) in st.decided:
            kind, payload = st.take_decided(node)  # (C12) a constant-table lookup that forked (const_dict_lookup)
            if kind == 'raise':
                raise PyRaise(payload)
            return payload
        if isinstance(cont, SDict):
            k = to_z3(idx, cont.kt)
            if not getattr(self, 'in_spec', False) and node is not None:
                self.oblige(st, 'safety/key-present@L%d' % getattr(node, 'lineno', 0), cont.has(k), kind='safety')
            return from_z3(cont.val(k), cont.vt)
        if isinstance(cont, SMap):
            k = to_z3(idx, cont.kt)
            if not getattr(self, 'in_spec', False) and node is not None:
                self.oblige(st, 'safety/key-present@L%d' % getattr(node, 'lineno', 0), z3.Select(cont.has, k), kind='safety')
            return from_z3(z3.Select(cont.val, k), cont.vt)
        if isinstance(cont, SRecord) and isinstance(idx, str):
            if idx in cont.fields:
                return cont.fields[idx]
            raise PyRaise(SExc('KeyError'))
        if isinstance(cont, dict):
            if isinstance(idx, (str, int)) or idx is None:
                if idx in cont:
                    return cont[idx]
                raise PyRaise(SExc('KeyError'))
            if node is not None and not getattr(self, 'in_spec', False) and cont and len(cont) <= 64:
                return self.const_dict_lookup(cont, idx, st, node)
            raise Undecided('symbolic key into a constant dict')
        if isinstance(cont, tuple):
            if isinstance(idx, int):
                if not -len(cont) <= idx < len(cont):
                    raise PyRaise(SExc('IndexError'))
                return cont[idx]
            if isinstance(idx, z3.ExprRef) and z3.is_bv(idx) and cont and all(isinstance(x, int) and not isinstance(x, bool) for x in cont):
                # a constant table indexed by a machine-width integer: if-then-else chain (negative indices are not modelled)
                if not getattr(self, 'in_spec', False) and node is not None:
                    self.oblige(st, 'safety/index-in-range@L%d' % getattr(node, 'lineno', 0), z3.And(idx >= 0, idx < len(cont)), kind='safety')
                r = z3.BitVecVal(cont[-1], idx.size())
                for i_ in range(len(cont) - 2, -1, -1):
                    r = z3.If(idx == i_, z3.BitVecVal(cont[i_], idx.size()), r)
                return r
            raise Undecided('symbolic index into tuple')
        if isinstance(cont, SList):
            i = to_z3(idx, 'int')
            iz = z3.simplify(i)
            if z3.is_int_value(iz) and iz.as_long() < 0:
                i = cont.len + i
            elif not z3.is_int_value(iz) and not getattr(self, 'in_spec', False) and node is not None and feasible(list(st.pc) + [i < 0], 500):
                i = z3.If(i < 0, cont.len + i, i)  # an index that can be negative on this path counts from the end
            if cont.arr is None:
                raise PyRaise(SExc('IndexError'))
            if not getattr(self, 'in_spec', False) and node is not None:
                self.oblige(st, 'safety/index-in-range@L%d' % getattr(node, 'lineno', 0), z3.And(i >= 0, i < cont.len), kind='safety')
            return from_z3(z3.Select(cont.arr, i), cont.et)
        if isinstance(cont, z3.ArrayRef):
            return from_z3(z3.Select(cont, to_z3(idx)), _type_of_sort(cont.sort().range()))
        if isinstance(cont, z3.ExprRef) and cont.sort() == U and isinstance(idx, str):
            # a row / mapping the contract says nothing about, read with a literal key: an uninterpreted field of it
            t = self.c.types.get('[' + idx + ']', 'U')
            return from_z3(self.uf('item_' + idx, ['U'], t)(cont), parse_type(t))
        if isinstance(cont, z3.QuantifierRef) and cont.is_lambda():
            return from_z3(z3.Select(cont, to_z3(idx)), _type_of_sort(cont.sort().range()))  # an array given by a lambda term
        raise Undecided('subscript of %r' % (cont,))

    def slice(self, cont, sl, st):
        if self.c.strings and sl.step is None and (isinstance(cont, str) or (isinstance(cont, z3.ExprRef) and cont.sort() == z3.StringSort())):
            # (C22) s[lo:hi] of a string term (contracts with strings=True): Python's clamping of negative / too large bounds,
            # then the z3 substring (offset, length)
            s_ = self.pystr(cont)
            n = z3.Length(s_)
            lo = to_z3(self.ev(sl.lower, st), 'int') if sl.lower is not None else z3.IntVal(0)
            hi = to_z3(self.ev(sl.upper, st), 'int') if sl.upper is not None else n
            clamp = lambda x: z3.If(x < 0, z3.If(x + n < 0, 0, x + n), z3.If(x > n, n, x))
            lo, hi = clamp(lo), clamp(hi)
            return z3.SubString(s_, lo, z3.If(hi > lo, hi - lo, 0))
        if not isinstance(cont, SList):
            raise Undecided('slice of non-list')
        if sl.step is not None:
            raise Undecided('slice step')
        n = cont.len
        lo = to_z3(self.ev(sl.lower, st), 'int') if sl.lower is not None else z3.IntVal(0)
        hi = to_z3(self.ev(sl.upper, st), 'int') if sl.upper is not None else n
        clamp = lambda x: z3.If(x < 0, z3.If(x + n < 0, 0, x + n), z3.If(x > n, n, x))
        lo, hi = clamp(lo), clamp(hi)
        i = z3.Int(fresh_name('sl_i'))
        ln = z3.If(hi > lo, hi - lo, 0)
        return SList(ln, z3.Lambda([i], z3.Select(cont.arr, i + lo)), cont.et)

    def ev_GeneratorExp(self, node, st):
        try:
            return self._ev_GeneratorExp(node, st)
        except Fork:
            raise Undecided('generator expression with a call model of several outcomes inside it (a generator is evaluated lazily, by its consumer)')

    def _ev_GeneratorExp(self, node, st):
        """a generator over a LITERAL list/tuple whose filters are decided concretely per element on the current path
        (e.g. `c for c in [a, b] if c is not None` with a, b each either None or a number): the tuple of kept elements"""
        if len(node.generators) != 1 or node.generators[0].is_async or not isinstance(node.generators[0].iter, (ast.List, ast.Tuple)):
            raise Undecided('generator expression over a non-literal iterable')
        g = node.generators[0]
        out = []
        for e in g.iter.elts:
            v = self.ev(e, st)
            s2 = st.fork()
            self.assign(g.target, v, s2)
            before = dict(s2.env)
            keep = True
            for cnd in g.ifs:
                t = z3.simplify(self.truthy(self.ev(cnd, s2)))
                if z3.is_true(t):
                    continue
                if z3.is_false(t):
                    keep = False
                    break
                raise Undecided('generator filter not decided on this path: %s' % ast.unparse(cnd))
            if keep:
                out.append(self.ev(node.elt, s2))
            for k_, v_ in s2.env.items():
                if not (k_ in before and (v_ is before[k_] or _same_value(v_, before[k_]))):
                    raise Undecided('generator expression changes %r (effects of call models inside it are not carried over; a generator is also evaluated lazily)' % k_)
            for fact in s2.pc[len(st.pc):]:
                st.assume(fact)
        return tuple(out)

    def _elementwise(self, fn, s2, i, n, what):
        """evaluate fn() once for the arbitrary element number i (0 <= i < n) of a comprehension / generator: sound only if the
        evaluation has no effect on the state and does not raise or split the path - otherwise refused"""
        if i is not None:
            s2.assume(z3.And(i >= 0, i < n))
        before = dict(s2.env)
        was = getattr(self, 'in_spec', False)
        self.in_spec = True
        try:
            v = fn()
        except Fork:
            raise Undecided('%s: a call model with several outcomes inside it' % what)
        except PyRaise as r:
            raise Undecided('%s raises %s' % (what, r.exc))
        finally:
            self.in_spec = was
        for k_, v_ in s2.env.items():
            if k_ in before and (v_ is before[k_] or _same_value(v_, before[k_])):
                continue
            raise Undecided('%s changes %r (an effect of a call model would be applied once instead of once per element)' % (what, k_))
        return v

    def ev_ListComp(self, node, st):
        if len(node.generators) != 1 or node.generators[0].ifs or node.generators[0].is_async:
            raise Undecided('comprehension with filters/multiple generators')
        g = node.generators[0]
        it = self.ev(g.iter, st)
        if not isinstance(it, SList):
            raise Undecided('comprehension over %s' % ast.unparse(g.iter))
        if it.et is None:
            return SList(z3.IntVal(0), None, None)
        i = z3.Int(fresh_name('comp_i'))
        s2 = st.fork()
        self.assign(g.target, from_z3(z3.Select(it.arr, i), it.et), s2)
        v = self._elementwise(lambda: self.ev(node.elt, s2), s2, i, it.len, 'comprehension element')
        et = type_of_value(v)
        return SList(it.len, z3.Lambda([i], to_z3(v, et)), et)

    def ev_SetComp(self, node, st):
        """{e(x) for x in xs} over a symbolic list: the set of the element images (cardinality only bounded by len(xs))"""
        if len(node.generators) != 1 or node.generators[0].ifs or node.generators[0].is_async:
            raise Undecided('set comprehension with filters/multiple generators')
        g = node.generators[0]
        it = self.ev(g.iter, st)
        if not isinstance(it, SList):
            raise Undecided('set comprehension over %s' % ast.unparse(g.iter))
        size = z3.Int(fresh_name('setcomp.size'))
        k = z3.Const(fresh_name('sc_k'), U)
        if it.et is None:
            return SMap(z3.K(U, z3.BoolVal(False)), z3.K(U, z3.BoolVal(True)), z3.IntVal(0), 'U', 'bool')
        i = z3.Int(fresh_name('sc_i'))
        s2 = st.fork()
        self.assign(g.target, from_z3(z3.Select(it.arr, i), it.et), s2)
        v = self._elementwise(lambda: self.ev(node.elt, s2), s2, i, it.len, 'set comprehension element')
        has = z3.Lambda([k], z3.Exists([i], z3.And(0 <= i, i < it.len, to_z3(v, 'U') == k)))
        st.assume(z3.And(size >= 0, size <= it.len))
        return SMap(has, z3.K(U, z3.BoolVal(True)), size, 'U', 'bool')

    def ev_JoinedStr(self, node, st):
        if not self.c.strings:
            for v in ast.walk(node):
                if isinstance(v, ast.FormattedValue) and not getattr(self, 'in_spec', False) and any(isinstance(n, (ast.Call, ast.Await, ast.NamedExpr, ast.Subscript)) or (isinstance(n, ast.BinOp) and isinstance(n.op, (ast.Div, ast.FloorDiv, ast.Mod))) for n in ast.walk(v.value)):
                    self.ev(v.value, st)  # the text is opaque, but evaluating a part may call something or raise
            return z3.Const(fresh_name('fstring'), U)
        parts = []
        for v in node.values:
            if isinstance(v, ast.Constant):
                parts.append(z3.StringVal(str(v.value)))
            elif isinstance(v, ast.FormattedValue):
                if v.format_spec is not None or v.conversion not in (-1, 115):
                    raise Undecided('format spec / conversion in f-string')
                parts.append(self.pystr(self.ev(v.value, st)))
            else:
                raise Undecided('f-string part')
        if not parts:
            return z3.StringVal('')
        return parts[0] if len(parts) == 1 else z3.Concat(*parts)

    def pystr(self, v):
        """str(v) as a z3 String term; str of an int / opaque value is an uninterpreted function of it"""
        if isinstance(v, str):
            return z3.StringVal(v)
        if isinstance(v, bool) or v is None:
            return z3.StringVal(str(v))
        if isinstance(v, int):
            return self.uf('str_int', ['int'], 'str')(z3.IntVal(v))
        if isinstance(v, z3.ExprRef):
            if v.sort() == z3.StringSort():
                return v
            if z3.is_int(v):
                return self.uf('str_int', ['int'], 'str')(v)
            if v.sort() == U:
                return self.uf('str_U', ['U'], 'str')(v)
        if isinstance(v, (SRecord, tuple, SList, SMap, SExc)):
            # the text of an object / container / caught exception (log messages, error texts): some string, nothing is known about it
            return z3.String(fresh_name('str_of_object'))
        raise Undecided('str() of %r' % (v,))

    def ev_Await(self, node, st):
        if id(node) in st.decided:
            kind, payload = st.take_decided(node)
            if kind == 'raise':
                raise PyRaise(payload)
            return payload
        v = self.ev(node.value, st)
        hook = self.c.calls.get('await')
        if hook is not None:
            return self._call_model(hook, st, [v], {}, node)  # may raise Fork(node, ...) for a suspending await
        return v

    def ev_Yield(self, node, st):
        # (C05, wave 4) `yield v` in a generator under contract: only with a contract model calls['yield'](eng, st, [v], {}, node),
        # which says what handing out v means (typically obligations on v under the path condition); the value sent back into
        # the generator is None.  Without the model generators stay outside the subset (Undecided), as before.
        hook = self.c.calls.get('yield')
        if hook is None:
            raise Undecided('expression not in the pyvc subset: Yield')
        v = self.ev(node.value, st) if node.value is not None else None
        hook(self, st, [v], {}, node)
        return None

    def ev_NamedExpr(self, node, st):
        v = self.ev(node.value, st)
        self.assign(node.target, v, st)
        return v

    def ev_Lambda(self, node, st):
        return ('lambda', node, dict(st.env), tuple(self.ev(d, st) for d in node.args.defaults))

    def ev_Starred(self, node, st):
        raise Undecided('starred expression')

    def ev_DictComp(self, node, st):
        hook = self.c.calls.get('dictcomp:' + ast.unparse(node))
        if hook is None:
            raise Undecided('dict comprehension without a contract model: %s' % ast.unparse(node))
        return hook(self, st, [], {}, node)

    def ev_Dict(self, node, st):
        if node.keys and all(k is None for k in node.keys):
            # (C23) `{**a, **b}`: the union of finite maps, later operands win; anything else stays outside the subset
            parts = [self.ev(v, st) for v in node.values]
            if all(isinstance(x, SMap) for x in parts) and len({(type_key(x.kt), type_key(x.vt)) for x in parts}) == 1:
                out = parts[0]
                for x in parts[1:]:
                    out = merge_maps(out, x, st)
                return out
            raise Undecided('dict display spreading non-map values')
        if not all(isinstance(k, ast.Constant) and isinstance(k.value, str) for k in node.keys):
            raise Undecided('dict display with non-literal keys')
        r = SRecord('dict', {k.value: self.ev(v, st) for k, v in zip(node.keys, node.values)})
        return r

    # ---- calls
    def ev_Call(self, node, st):
        if id(node) in st.decided:
            kind, payload = st.take_decided(node)
            if kind == 'raise':
                raise PyRaise(payload)
            return payload
        fname = _dotted(node.func)
        # quantifiers / spec helpers
        if fname in ('forall', 'exists') and node.args and isinstance(node.args[-1], ast.Lambda):
            return self.quant(fname, node, st)
        if fname in ('all', 'any') and len(node.args) == 1 and isinstance(node.args[0], (ast.GeneratorExp, ast.ListComp)):
            g = node.args[0]
            if len(g.generators) != 1 or g.generators[0].ifs or g.generators[0].is_async:
                raise Undecided('all/any over a filtered or nested generator')
            it = self.ev(g.generators[0].iter, st)
            if isinstance(it, SMap) or (isinstance(it, tuple) and len(it) == 2 and it[0] in ('mapvalues', 'mapkeys')):
                # all/any over the keys / values of a finite map: quantify over the key
                m = it if isinstance(it, SMap) else it[1]
                q = z3.Const(fresh_name('gen_k'), sort_of(m.kt))
                s2 = st.fork()
                elem = from_z3(z3.Select(m.val, q), m.vt) if (isinstance(it, tuple) and it[0] == 'mapvalues') else from_z3(q, m.kt)
                self.assign(g.generators[0].target, elem, s2)
                body = self._elementwise(lambda: self.truthy(self.ev(g.elt, s2)), s2, None, None, 'all/any element')
                rng = z3.Select(m.has, q)
                return z3.ForAll([q], z3.Implies(rng, body)) if fname == 'all' else z3.Exists([q], z3.And(rng, body))
            if not isinstance(it, SList):
                raise Undecided('all/any over %s' % ast.unparse(g.generators[0].iter))
            if it.et is None:
                return z3.BoolVal(fname == 'all')
            n_ = z3.simplify(it.len)
            if self.c.consts.get('__expand_small_any__') and z3.is_int_value(n_) and n_.as_long() <= 8:
                # (C21, opt-in through Contract.consts) all/any over a list of a small CONCRETE length (a literal table of the
                # module): the finite conjunction / disjunction of the element tests instead of a quantifier over the index
                parts = []
                for k_ in range(n_.as_long()):
                    s2 = st.fork()
                    self.assign(g.generators[0].target, from_z3(z3.simplify(z3.Select(it.arr, k_)), it.et), s2)
                    parts.append(self._elementwise(lambda: self.truthy(self.ev(g.elt, s2)), s2, None, None, 'all/any element'))
                return (z3.And(*parts) if parts else z3.BoolVal(True)) if fname == 'all' else (z3.Or(*parts) if parts else z3.BoolVal(False))
            i = z3.Int(fresh_name('gen_i'))
            s2 = st.fork()
            self.assign(g.generators[0].target, from_z3(z3.Select(it.arr, i), it.et), s2)
            body = self._elementwise(lambda: self.truthy(self.ev(g.elt, s2)), s2, i, it.len, 'all/any element')
            rng = z3.And(i >= 0, i < it.len)
            return z3.ForAll([i], z3.Implies(rng, body)) if fname == 'all' else z3.Exists([i], z3.And(rng, body))
        if fname == 'bit' and len(node.args) == 2:
            x = self.ev(node.args[0], st)
            b = self.ev(node.args[1], st)
            xb = x if (isinstance(x, z3.ExprRef) and z3.is_bv(x)) else to_z3(x, 'bv64')
            bb = b if (isinstance(b, z3.ExprRef) and z3.is_bv(b)) else to_z3(b, 'bv64')
            return z3.Extract(0, 0, z3.LShR(xbv_(xb), bb)) == z3.BitVecVal(1, 1)
        if fname == 'implies':
            a, b = [self.truthy(self.ev(x, st)) for x in node.args]
            return z3.Implies(a, b)
        if fname == 'ghost_assume' and len(node.args) == 2 and isinstance(node.args[1], ast.Constant):
            # ghost code only: a stated fact about ghost state that is not derivable inside the logic (e.g. a ghost sum equals the
            # sum it mirrors); every use is listed in the evidence as an assumption with its justification text
            was = getattr(self, 'in_spec', False)
            self.in_spec = True
            try:
                st.assume(self.truthy(self.ev(node.args[0], st)))
            finally:
                self.in_spec = was
            self.ctx.assume('%s: ghost assumption `%s` - %s' % (self.label, ast.unparse(node.args[0]), node.args[1].value))
            return None
        if fname == 'old':
            s2 = State(dict(self.entry_env), st.pc)
            return self.ev(node.args[0], s2)
        if fname == 'ite':
            c, a, b = node.args
            return self.ev_IfExp(ast.IfExp(test=c, body=a, orelse=b), st)
        if fname == 'store':
            arr, i, v = [self.ev(x, st) for x in node.args]
            return self.store(arr, i, v, st, node)
        if fname == 'isinst' and len(node.args) == 2:
            e = self.ev(node.args[0], st)
            cls = node.args[1].id if isinstance(node.args[1], ast.Name) else node.args[1].value
            r = self.exc_matches(e, [cls]) if isinstance(e, SExc) else self.isinst_pred(to_z3(e, 'U'), cls)
            return z3.BoolVal(r) if isinstance(r, bool) else r
        # contract-supplied call models take precedence
        if fname is not None and fname in self.c.calls:
            args = [self.ev_lenient(a, st) for a in node.args]
            kw = {k.arg: self.ev_lenient(k.value, st) for k in node.keywords if k.arg is not None}
            return self._call_model(self.c.calls[fname], st, args, kw, node)
        if fname is not None and fname in self.callees:
            args = [self.ev(a, st) for a in node.args]
            kw = {k.arg: self.ev(k.value, st) for k in node.keywords}
            return self.call_contract(self.callees[fname], args, kw, st, node)
        func = self.ev(node.func, st) if not isinstance(node.func, ast.Name) or node.func.id in st.env or node.func.id in st.env.get('__locals__', ()) else SDotted(node.func.id)
        if isinstance(func, SFunc):
            was = getattr(self, 'in_spec', False)
            self.in_spec = True
            try:
                args = [self.ev(a, st) for a in node.args]
            finally:
                self.in_spec = was
            kw = {k.arg: self.ev(k.value, st) for k in node.keywords}
            return func.fn(self, st, args, kw, node)
        if isinstance(func, tuple) and func and func[0] == 'boundmethod':
            return self.call_method(func[1], func[2], node, st)
        if isinstance(func, tuple) and func and func[0] == 'localdef':
            return self.call_localdef(func[1], node, st)
        if isinstance(func, tuple) and func and func[0] == 'lambda':
            return self.call_lambda(func, node, st)
        if isinstance(func, SDotted):
            return self.call_builtin(func.name, node, st)
        raise Undecided('call of %r' % (func,))

    def _call_model(self, model, st, args, kw, node):
        """call a contract-supplied model; what the model did to the state before it split the path (raise Fork) is part of
        every outcome of the split: the statement is re-executed from the state before it, where the model is not called again"""
        before = {k_: (v_.clone() if isinstance(v_, SRecord) else v_) for k_, v_ in st.env.items()}
        try:
            return model(self, st, args, kw, node)
        except Fork as f:
            delta = {}
            for k_, v_ in st.env.items():
                b_ = before.get(k_, before)
                if b_ is before or (isinstance(v_, SRecord) and isinstance(b_, SRecord) and (v_.fields.keys() != b_.fields.keys() or any(v_.fields[x] is not b_.fields[x] for x in v_.fields))) or (not isinstance(v_, SRecord) and b_ is not v_):
                    delta[k_] = v_
            gone = [k_ for k_ in before if k_ not in st.env]
            if delta or gone:
                def wrap(alt):
                    eff = alt[4] if len(alt) > 4 else None

                    def apply(s, eff=eff):
                        for k_, v_ in delta.items():
                            s.env[k_] = v_.clone() if isinstance(v_, SRecord) else v_
                        for k_ in gone:
                            s.env.pop(k_, None)
                        if eff is not None:
                            eff(s)

                    return tuple(alt[:4]) + (apply,)

                f.alts = [wrap(x) for x in f.alts]
            raise

    def call_lambda(self, func, node, st):
        lam, cenv = func[1], func[2]
        a = lam.args
        if a.vararg or a.kwarg or a.kwonlyargs or any(isinstance(n, (ast.NamedExpr, ast.Yield, ast.YieldFrom, ast.Await)) for n in ast.walk(lam.body)):
            raise Undecided('lambda with *args / **kwargs / keyword-only parameters, or binding names in its body')
        names = [x.arg for x in a.posonlyargs + a.args]
        vals = [self.ev(x, st) for x in node.args]
        if any(k.arg is None for k in node.keywords):
            raise Undecided('call of a lambda with **kwargs')
        kws = {k.arg: self.ev(k.value, st) for k in node.keywords}
        if len(vals) > len(names) or any(k_ not in names for k_ in kws) or any(k_ in names[:len(vals)] for k_ in kws):
            raise PyRaise(SExc('TypeError'))
        dvals = func[3] if len(func) > 3 else tuple(self.ev(d, st) for d in a.defaults)
        bound = dict(zip(names[len(names) - len(dvals):], dvals))
        bound.update(zip(names, vals))
        bound.update(kws)
        if any(n_ not in bound for n_ in names):
            raise PyRaise(SExc('TypeError'))
        # closure: the body sees the CURRENT values of the enclosing variables (late binding); a lambda called outside the
        # scope that created it keeps that scope's variables, as long as the name does not mean something else here
        same_scope = cenv.get('__locals__') is st.env.get('__locals__')
        env = dict(st.env)
        for n_ in {n.id for n in ast.walk(lam.body) if isinstance(n, ast.Name)} - set(names):
            if n_ in cenv:
                if n_ not in env:
                    env[n_] = cenv[n_]
                elif not same_scope and env[n_] is not cenv[n_] and not _same_value(env[n_], cenv[n_]):
                    raise Undecided('lambda called outside the scope that created it, and %s differs between the two' % n_)
        env.update(bound)
        s2 = State(env, st.pc)
        s2.decided, s2.decided_used, s2.trace = st.decided, st.decided_used, st.trace
        v = self.ev(lam.body, s2)
        for k_, v_ in s2.env.items():
            # what call models evaluated in the body did to the (ghost) state is the caller's state now
            if k_ not in bound and k_ in st.env and v_ is not st.env[k_]:
                st.env[k_] = v_
        return v

    def call_localdef(self, fn, node, st, allow_async=False):
        """call of a nested `def`: its real body is executed in a child state that sees the enclosing variables; every outcome
        comes back as a Fork alternative.  Nested functions that rebind enclosing variables (nonlocal) are outside the subset.
        allow_async: the caller is a contract's model of a combinator that awaits the coroutine to completion (e.g. a gather)"""
        if (isinstance(fn, ast.AsyncFunctionDef) and not allow_async) or any(isinstance(n, (ast.Global, ast.Yield, ast.YieldFrom)) for n in ast.walk(fn)):
            raise Undecided('nested function %s uses global/yield or is a coroutine' % fn.name)
        nonlocals = {nm for n in ast.walk(fn) if isinstance(n, ast.Nonlocal) for nm in n.names}
        a = fn.args
        if a.vararg or a.kwarg or a.kwonlyargs:
            raise Undecided('nested function %s with *args/**kwargs' % fn.name)
        names = [x.arg for x in a.posonlyargs + a.args]
        # the arguments are evaluated in the caller's state BEFORE the callee's state is derived from it (what evaluating them
        # does to the path condition and to ghost state is visible in the callee)
        vals = [self.ev(x, st) for x in node.args]
        if any(k.arg is None for k in node.keywords):
            raise Undecided('call of nested function %s with **kwargs' % fn.name)
        kws = {k.arg: self.ev(k.value, st) for k in node.keywords}
        if len(vals) > len(names) or any(k_ not in names for k_ in kws) or any(k_ in names[:len(vals)] for k_ in kws):
            raise PyRaise(SExc('TypeError'))
        defaults = a.defaults
        dvals = None
        for v_ in st.env.values():
            if isinstance(v_, tuple) and len(v_) == 3 and v_[0] == 'localdef' and v_[1] is fn:
                dvals = v_[2]  # evaluated when the def statement ran
        if dvals is None:
            dvals = [self.ev(d, st) for d in defaults]
        child = State(dict(st.env), list(st.pc))
        child.trace = list(st.trace)
        stored = {n.id for stmt in fn.body for n in ast.walk(stmt) if isinstance(n, ast.Name) and isinstance(n.ctx, (ast.Store, ast.Del))}
        for n_ in (stored | _local_names(fn)) - nonlocals - set(names):
            child.env.pop(n_, None)  # the callee's own locals start unbound (they shadow the enclosing variables of that name)
        child.env['__locals__'] = frozenset((_local_names(fn) | set(names)) - nonlocals)
        bound = set()
        for n_, d in zip(names[len(names) - len(defaults):], dvals):
            child.env[n_] = d
            bound.add(n_)
        for n_, v in zip(names, vals):
            child.env[n_] = v
            bound.add(n_)
        for k_, v in kws.items():
            child.env[k_] = v
            bound.add(k_)
        if any(n_ not in bound for n_ in names):
            raise PyRaise(SExc('TypeError'))  # missing argument
        depth = getattr(self, '_ld_depth', 0)
        if depth > 12:
            raise Undecided('nested function recursion')
        self._ld_depth = depth + 1
        try:
            outs = self.exec_block(fn.body, child)
        finally:
            self._ld_depth = depth
        # variables of the enclosing scope the nested function can change: those it declares nonlocal, and containers it
        # mutates in place (the executor rebinds the name on append/extend/...); its own parameters and locals stay private
        own = set(names) | (stored - nonlocals) | {'__locals__'}
        shared_names = [n_ for n_ in st.env if n_ not in own]

        def writeback(sub):
            def apply(caller):
                for n_ in shared_names:
                    if n_ in sub.env and sub.env[n_] is not caller.env.get(n_):
                        caller.env[n_] = sub.env[n_]
            return apply

        base = len(st.pc)
        alts = []
        for i, (s2, oc) in enumerate(outs):
            extra = list(s2.pc[base:])
            cond = z3.And(*extra) if extra else None
            if oc[0] == 'raise':
                alts.append(('%s-raises%d' % (fn.name, i), cond, 'raise', oc[1], writeback(s2)))
            elif oc[0] in ('return', 'next'):
                alts.append(('%s-returns%d' % (fn.name, i), cond, 'value', oc[1] if oc[0] == 'return' else None, writeback(s2)))
            else:
                raise Undecided('%s escaping nested function %s' % (oc[0], fn.name))
        if len(alts) == 1 and alts[0][1] is None:
            alts[0][4](st)
            if alts[0][2] == 'raise':
                raise PyRaise(alts[0][3])
            return alts[0][3]
        raise Fork(node, alts)

    def ev_lenient(self, a, st, strict=False):
        if isinstance(a, ast.Starred):
            try:
                return ('*', self.ev(a.value, st))  # the unpacked expression is evaluated even if the callee does not look at it
            except Undecided:
                if strict:
                    raise
                return ('*', None)  # a contract-supplied model gets the call node and has to deal with the argument list itself
        return self.ev(a, st)

    def call_contract(self, cc: Contract, args, kw, st, node):
        """modular call: assert the callee's precondition, havoc nothing (callees under contract here are pure),
        assume its postcondition on a fresh result"""
        callee = find_function(self.tree if cc.path == self.c.path else ast.parse(core.read_repo(cc.path)), cc.qualname)
        a = callee.args
        names = [x.arg for x in a.posonlyargs + a.args]
        if names and names[0] == 'self':
            names = names[1:]
        env = dict(self.modconsts)
        env.update(cc.consts)
        defaults = a.defaults
        for n_, d in zip(names[len(names) - len(defaults):], defaults):
            env[n_] = self.ev(d, State(dict(self.modconsts), st.pc))
        for n_, v in zip(names, args):
            env[n_] = v
        for k_, v in kw.items():
            env[k_] = v
        for name, (ats, rt) in cc.spec_funcs.items():
            f = self.uf(name, ats, rt)
            rtp = parse_type(rt)
            env[name] = SFunc(name, (lambda f, rtp: lambda eng, s, args, kw, node: from_z3(f(*[to_z3(a) for a in args]), rtp))(f, rtp))
        s2 = State(env, st.pc)
        s2.trace = st.trace
        for i, r in enumerate(cc.requires):
            self.oblige(s2, 'call/%s/pre#%d@L%d' % (cc.qualname, i, node.lineno), self.ev_bool_str(r, s2), clause=r)
        rt = parse_type(cc.types.get('result', 'U'))
        res = fresh_value(rt, 'ret_' + cc.qualname)
        for w in wf_constraints(res):
            st.assume(w)
        env['result'] = res
        for name, e in cc.ensures:
            st.assume(self.ev_bool_str(e, s2))
        return res

    def quant(self, kind, node, st):
        lam = node.args[-1]
        names = [a.arg for a in lam.args.args]
        tys = [a.value for a in node.args[:-1] if isinstance(a, ast.Constant) and isinstance(a.value, str)]
        tys = tys + ['int'] * (len(names) - len(tys))
        vars_ = [z3.Const(fresh_name('q_' + n), sort_of(parse_type(t))) for n, t in zip(names, tys)]
        s2 = st.fork()
        for n, v in zip(names, vars_):
            s2.env[n] = v
        was = getattr(self, 'in_spec', False)
        self.in_spec = True
        try:
            body = self.truthy(self.ev(lam.body, s2))
        finally:
            self.in_spec = was
        return z3.ForAll(vars_, body) if kind == 'forall' else z3.Exists(vars_, body)

    def call_builtin(self, name, node, st):
        args = []
        for a_ in node.args:
            v_ = self.ev_lenient(a_, st, strict=True)
            if isinstance(a_, ast.Starred) and isinstance(v_[1], tuple) and not (v_[1] and isinstance(v_[1][0], str)):
                args.extend(v_[1])  # f(*(x, y)) with a tuple of known length
            else:
                args.append(v_)
        kws = {k.arg: self.ev(k.value, st) for k in node.keywords}  # evaluated (once) whether or not the model below uses them
        if kws and name in ('len', 'abs', 'divmod', 'int', 'float', 'round', 'bool', 'range', 'enumerate', 'set', 'frozenset', 'sorted', 'cast', 'typing.cast', 'str', 'math.ceil', 'math.floor', 'list', 'tuple'):
            raise Undecided('keyword arguments of %s() are not modelled' % name)
        if any(isinstance(a, tuple) and a and isinstance(a[0], str) and a[0] == '*' for a in args):
            # f(*xs): only an unmodelled callee tolerates an unexpanded argument list (its result is havocked anyway)
            self.unmodelled.append(name)
            return z3.Const(fresh_name('unmodelled_' + name.replace('.', '_')), U)
        if name == 'len':
            v = args[0]
            if isinstance(v, SMap):
                return v.size
            if isinstance(v, SDict):
                return v.items.len
            if isinstance(v, SList):
                return v.len
            if isinstance(v, tuple) and v and isinstance(v[0], str) and v[0] == 'range':
                return self.range_len(v)
            if isinstance(v, tuple) and v and isinstance(v[0], str) and v[0] in ('boundmethod', 'lambda', 'localdef', 'mapvalues', 'mapkeys', '*'):
                raise Undecided('len of %s' % v[0])
            if isinstance(v, tuple):
                return len(v)
            if isinstance(v, (str, bytes)):
                return len(v)
            if isinstance(v, z3.ExprRef) and v.sort() == z3.StringSort():
                return z3.Length(v)
            if isinstance(v, z3.ExprRef) and v.sort() == U:
                f = self.uf('len_U', ['U'], 'int')
                st.assume(f(v) >= 0)
                return f(v)
            raise Undecided('len of %r' % (v,))
        if name in ('min', 'max') and len(args) == 1 and isinstance(args[0], SMap):
            args = [('mapkeys', args[0])]  # min(d) / max(d) of a dict ranges over its keys
        if name in ('min', 'max') and len(args) == 1 and isinstance(args[0], tuple) and len(args[0]) == 2 and isinstance(args[0][0], str) and args[0][0] in ('mapvalues', 'mapkeys') and isinstance(args[0][1], SMap):
            # min / max over the values (keys) of a finite map: a member that bounds all members; `default` for an empty map
            m = args[0][1]
            which = args[0][0]
            srt = sort_of(m.vt if which == 'mapvalues' else m.kt)
            if srt != z3.IntSort():
                raise Undecided('%s over non-integer map %s' % (name, which))
            r = z3.Int(fresh_name(name + '_of_map'))
            k1, k2 = z3.Const(fresh_name('mm_k'), sort_of(m.kt)), z3.Const(fresh_name('mm_j'), sort_of(m.kt))
            elem = (lambda k: z3.Select(m.val, k)) if which == 'mapvalues' else (lambda k: k)
            cmp = (lambda a, b: a <= b) if name == 'min' else (lambda a, b: a >= b)
            nonempty = z3.And(z3.Exists([k1], z3.And(z3.Select(m.has, k1), elem(k1) == r)), z3.ForAll([k2], z3.Implies(z3.Select(m.has, k2), cmp(r, elem(k2)))))
            if 'default' in kws:
                st.assume(z3.If(m.size > 0, nonempty, r == self.num(kws['default'])))
            else:
                self.oblige(st, 'safety/%s-of-a-non-empty-map@L%d' % (name, node.lineno), m.size > 0, kind='safety')
                st.assume(nonempty)
            return r
        if name in ('min', 'max'):
            if set(kws) - {'default'}:
                raise Undecided('%s() with key=' % name)
            if len(args) == 1 and isinstance(args[0], SList):
                raise Undecided('%s() of a list' % name)
            if len(args) == 1 and isinstance(args[0], tuple):
                args = list(args[0])
                if not args:
                    if 'default' in kws:
                        return kws['default']
                    raise PyRaise(SExc('ValueError'))
            r = self.num(args[0])
            for x in args[1:]:
                xz = self.num(x)
                r = z3.If(xz < r, xz, r) if name == 'min' else z3.If(xz > r, xz, r)
            return r
        if name == 'abs':
            x = self.num(args[0])
            return z3.If(x >= 0, x, -x)
        if name == 'divmod' and len(args) == 2:
            a_, d_ = self.num(args[0]), self.num(args[1])
            if not (z3.is_int(a_) and z3.is_int(d_)):
                raise Undecided('divmod of non-integers')
            # floor quotient and remainder of a positive divisor, introduced by their defining property (a == q*d + r,
            # 0 <= r < d) rather than by z3's div with a symbolic divisor, which the arithmetic solver handles poorly
            q_, r_ = z3.Int(fresh_name('divmod_q')), z3.Int(fresh_name('divmod_r'))
            if not feasible(list(st.pc) + [d_ <= 0], 500):
                self.oblige(st, 'safety/divmod-divisor-positive@L%d' % node.lineno, d_ > 0, kind='safety')
                st.assume(z3.And(a_ == q_ * d_ + r_, r_ >= 0, r_ < d_))
            else:
                # a divisor that may be negative: the remainder has the sign of the divisor (floor division)
                self.oblige(st, 'safety/divmod-divisor-nonzero@L%d' % node.lineno, d_ != 0, kind='safety')
                st.assume(z3.And(a_ == q_ * d_ + r_, z3.If(d_ > 0, z3.And(r_ >= 0, r_ < d_), z3.And(r_ <= 0, r_ > d_))))
            return (q_, r_)
        if name == 'int':
            x = args[0]
            if isinstance(x, (int, bool)):
                return int(x)
            xz = self.num(x)
            if z3.is_int(xz):
                return xz
            return z3.If(xz >= 0, z3.ToInt(xz), -z3.ToInt(-xz))
        if name == 'float':
            if not self.c.float_as_real:
                raise Undecided('float()')
            xz = self.num(args[0])
            if isinstance(args[0], SFrac):
                return self.round_float(xz, st)
            return z3.ToReal(xz) if z3.is_int(xz) else xz
        if name == 'round' and len(args) == 1:
            x = args[0]
            if isinstance(x, (int, bool)):
                return int(x)
            xz = self.num(x)
            if z3.is_int(xz):
                return xz
            f = z3.ToInt(xz)
            d = xz - z3.ToReal(f)
            half = z3.RealVal(1) / 2
            return z3.If(d < half, f, z3.If(d > half, f + 1, z3.If(f % 2 == 0, f, f + 1)))
        if name == 'bool':
            return self.truthy(args[0])
        if name == 'range':
            a = [to_z3(x, 'int') for x in args]
            if len(a) == 1:
                return ('range', z3.IntVal(0), a[0], 1)
            if len(a) == 2:
                return ('range', a[0], a[1], 1)
            raise Undecided('range with step')
        if name == 'enumerate' and len(args) >= 1 and isinstance(args[0], SList):
            L = args[0]
            if L.et is None:
                return SList(z3.IntVal(0), None, None)
            start = to_z3(args[1], 'int') if len(args) > 1 else z3.IntVal(0)
            tt = ('tuple', ('int', L.et))
            i = z3.Int(fresh_name('enum_i'))
            return SList(L.len, z3.Lambda([i], sort_of(tt).mk(i + start, z3.Select(L.arr, i))), tt)
        if name in ('set', 'frozenset', 'sorted') and len(args) == 1 and isinstance(args[0], SList):
            # over-approximation: set(L) has at most len(L) elements, all drawn from L (non-empty iff L is);
            # sorted(L) has exactly len(L) elements drawn from L, in non-decreasing order
            L = args[0]
            if L.et is None:
                return L
            T = fresh_value(('list', L.et), name + '_of')
            i, j = z3.Int(fresh_name('so_i')), z3.Int(fresh_name('so_j'))
            st.assume(T.len >= 0)
            st.assume(T.len <= L.len if name != 'sorted' else T.len == L.len)
            st.assume(z3.Implies(L.len > 0, T.len > 0))
            st.assume(z3.ForAll([i], z3.Implies(z3.And(i >= 0, i < T.len), z3.Exists([j], z3.And(j >= 0, j < L.len, z3.Select(T.arr, i) == z3.Select(L.arr, j))))))
            if name == 'sorted' and L.et == 'int':
                st.assume(z3.ForAll([i, j], z3.Implies(z3.And(0 <= i, i <= j, j < T.len), z3.Select(T.arr, i) <= z3.Select(T.arr, j))))
            return T
        if name == 'cast' or name == 'typing.cast':
            return args[1]
        if name == 'str' and self.c.strings and len(args) == 1:
            return self.pystr(args[0])
        if name == 'isinstance':
            raise Undecided('isinstance on %s' % ast.unparse(node))
        if name in ('math.ceil', 'math.floor'):
            xz = self.num(args[0])
            if z3.is_int(xz):
                return xz
            fl = z3.ToInt(xz)
            return fl if name == 'math.floor' else z3.If(z3.ToReal(fl) == xz, fl, fl + 1)
        if name in ('list', 'tuple') and len(args) == 1 and isinstance(args[0], SList):
            return args[0]
        if name in ('print', 'log.info', 'log.warning', 'log.error', 'log.exception', 'log.debug', 'logging.info', 'logging.warning'):
            return None
        if name in EXC_NAMES or name.endswith('Error') or name.endswith('Exception'):
            return SExc(name.split('.')[-1])
        self.unmodelled.append(name)
        return z3.Const(fresh_name('unmodelled_' + name.replace('.', '_')), U)

    def call_method(self, recv, meth, node, st):
        args = [self.ev(a, st) for a in node.args]
        target = node.func.value
        if meth in MUTATORS:
            self._unaliased(target, recv, st, '.%s()' % meth)
        if isinstance(recv, SMap) and meth in ('issubset', 'issuperset') and len(args) == 1 and isinstance(args[0], SMap):
            a_, b_ = (recv, args[0]) if meth == 'issubset' else (args[0], recv)
            q = z3.Const(fresh_name('sub_k'), sort_of(recv.kt))
            return z3.ForAll([q], z3.Implies(z3.Select(a_.has, q), z3.Select(b_.has, q)))
        if isinstance(recv, SMap) and meth in ('values', 'keys') and not args:
            return ('map' + meth, recv)
        if isinstance(recv, SMap) and meth == 'get' and args:
            k = to_z3(args[0], recv.kt)
            dflt = args[1] if len(args) > 1 else None
            if recv.vt != 'U' and dflt is None:
                raise Undecided('.get() with a None default on a map of %s' % type_key(recv.vt))
            return from_z3(z3.If(z3.Select(recv.has, k), z3.Select(recv.val, k), to_z3(dflt, recv.vt)), recv.vt)
        if isinstance(recv, SMap) and meth == 'add' and len(args) == 1:
            self.assign(target, self.store(recv, args[0], True if recv.vt == 'bool' else args[0], st, node), st)
            return None
        if isinstance(recv, SMap) and meth == 'remove' and len(args) == 1:
            self.assign(target, self.map_remove(recv, args[0], st, node), st)
            return None
        if isinstance(recv, tuple) and not (recv and recv[0] in ('range', 'boundmethod', 'lambda', '*')) and meth == 'append' and len(args) == 1:
            # a list literal of heterogeneous values is kept as a Python tuple of symbolic values
            self.assign(target, recv + (args[0],), st)
            return None
        if isinstance(recv, SList):
            if meth == 'append':
                et = recv.et or type_of_value(args[0])
                arr = recv.arr if recv.arr is not None else z3.Const(fresh_name('arr'), z3.ArraySort(z3.IntSort(), sort_of(et)))
                elem = to_z3(args[0], et)
                if isinstance(elem, z3.ExprRef) and not elem.sort().eq(arr.sort().range()):
                    # (C14) a list holds elements of one sort: appending a value of another sort is outside the subset (undecided),
                    # not a crash of the checker
                    raise Undecided('append of a %s to a list of %s (line %s)' % (type_key(type_of_value(args[0])), type_key(et), getattr(node, 'lineno', '?')))
                new = SList(recv.len + 1, z3.Store(arr, recv.len, elem), et)
                self.assign(target, new, st)
                return None
            if meth in ('popleft',) or (meth == 'pop' and args and isinstance(args[0], int) and args[0] == 0):
                if recv.arr is None:
                    raise PyRaise(SExc('IndexError'))
                self.oblige(st, 'safety/pop-nonempty@L%d' % node.lineno, recv.len > 0, kind='safety')
                i = z3.Int(fresh_name('pop_i'))
                new = SList(recv.len - 1, z3.Lambda([i], z3.Select(recv.arr, i + 1)), recv.et)
                first = from_z3(z3.Select(recv.arr, 0), recv.et)
                self.assign(target, new, st)
                return first
            if meth == 'pop' and not args:
                self.oblige(st, 'safety/pop-nonempty@L%d' % node.lineno, recv.len > 0, kind='safety')
                new = SList(recv.len - 1, recv.arr, recv.et)
                last = from_z3(z3.Select(recv.arr, recv.len - 1), recv.et)
                self.assign(target, new, st)
                return last
            if meth == 'extend' and isinstance(args[0], SList):
                self.assign(target, self.concat([recv, args[0]]), st)
                return None
            if meth == 'clear':
                self.assign(target, SList(z3.IntVal(0), recv.arr, recv.et), st)
                return None
        if isinstance(recv, SDict):
            if meth == 'items':
                return recv.items
            if meth == 'keys':
                i = z3.Int(fresh_name('keys_i'))
                ts = sort_of(recv.items.et)
                return SList(recv.items.len, z3.Lambda([i], ts.accessor(0, 0)(z3.Select(recv.items.arr, i))), recv.kt)
            if meth == 'get' and args:
                k = to_z3(args[0], recv.kt)
                dflt = args[1] if len(args) > 1 else None
                if dflt is None:
                    raise Undecided('dict.get with a None default on a symbolic dict')
                return from_z3(z3.If(recv.has(k), recv.val(k), to_z3(dflt, recv.vt)), recv.vt)
        if isinstance(recv, dict) and meth == 'get' and args:
            # a constant (module-level) dict looked up with a possibly symbolic key
            k = args[0]
            dflt = args[1] if len(args) > 1 else None
            if isinstance(k, (int, str, bool)) or k is None:
                return recv.get(k, dflt)
            vals = list(recv.values()) + [dflt]
            if not all(isinstance(v, int) and not isinstance(v, bool) for v in vals):
                raise Undecided('constant dict .get with a symbolic key and non-integer values')
            r = z3.IntVal(dflt)
            for kk, vv in reversed(list(recv.items())):
                r = z3.If(self.equal(k, kk), z3.IntVal(vv), r)
            return r
        if isinstance(recv, SRecord) and meth == 'get' and args and isinstance(args[0], str):
            k = args[0]
            dflt = args[1] if len(args) > 1 else None
            if k not in recv.fields:
                return dflt
            v = recv.fields[k]
            if 'has_' + k in recv.fields:
                h = self.truthy(recv.fields['has_' + k])
                if z3.is_true(z3.simplify(h)):
                    return v
                if z3.is_false(z3.simplify(h)):
                    return dflt
                if dflt is None:
                    raise Undecided('.get(%r) with a None default on an optional field' % k)
                t = type_of_value(v)
                return from_z3(z3.If(h, to_z3(v, t), to_z3(dflt, t)), t)
            return v
        key = '.' + meth
        if key in self.c.calls:
            kw = {k.arg: self.ev(k.value, st) for k in node.keywords}
            return self._call_model(self.c.calls[key], st, [recv] + args, kw, node)
        if isinstance(recv, SRecord):
            key2 = '%s.%s' % (recv.cls, meth)
            if key2 in self.c.calls:
                kw = {k.arg: self.ev(k.value, st) for k in node.keywords}
                return self._call_model(self.c.calls[key2], st, [recv] + args, kw, node)
        if isinstance(recv, SRecord) and recv.cls == 'dict' and meth in ('setdefault', 'pop') and args and isinstance(args[0], str) and not node.keywords and not any(k.startswith('has_') for k in recv.fields):
            # (C12) dict.setdefault / dict.pop with a literal key on a dict tracked as a record with a definite key set
            k = args[0]
            if meth == 'setdefault' and len(args) <= 2:
                if k not in recv.fields:
                    recv.fields[k] = args[1] if len(args) > 1 else None
                return recv.fields[k]
            if meth == 'pop' and len(args) <= 2:
                if k in recv.fields:
                    return recv.fields.pop(k)
                if len(args) > 1:
                    return args[1]
                raise PyRaise(SExc('KeyError'))
        if isinstance(recv, z3.ExprRef) and recv.sort() == U and self.c.opaque_methods:
            # a method of an opaque object the contract says nothing about: result havocked, call recorded (contracts that
            # enumerate every permitted call turn the record into a failed obligation)
            self.unmodelled.append('%s.%s' % (_dotted(target) or '<expr>', meth))
            return z3.Const(fresh_name('unmodelled_' + meth), U)
        if isinstance(recv, str) and not self.c.strings and meth in ('join', 'format', 'strip', 'lstrip', 'rstrip', 'lower', 'upper', 'replace', 'title', 'capitalize'):
            # a text-building method of a str literal (`' AND '.join(parts)`, `'{}x'.format(a)`) where the contract does not track
            # text: these methods are pure and total on their str receiver (a non-str argument raises TypeError - not modelled:
            # the arguments were evaluated above, so their own effects and obligations stand); the text itself is opaque
            kws = {k.arg: self.ev(k.value, st) for k in node.keywords}

            def concrete(v):
                return isinstance(v, (str, int, bool)) or v is None or (isinstance(v, tuple) and all(isinstance(x, str) for x in v))

            if all(concrete(a) for a in args) and all(concrete(v) for v in kws.values()) and None not in kws:
                try:
                    return getattr(recv, meth)(*[list(a) if isinstance(a, tuple) else a for a in args], **kws)  # all operands concrete: the text itself
                except Exception:  # pylint: disable=broad-except
                    raise Undecided('str.%s on concrete operands raises' % meth)
            return z3.Const(fresh_name('text_' + meth), U)
        raise Undecided('method %s on %r not modelled (line %d)' % (meth, recv, node.lineno))


    # ---- (C12) additions: constant tables with symbolic keys, modular calls with receivers / optional results
    def const_dict_lookup(self, table, key, st, node):
        """`TABLE[key]` for a module-level constant dict and a symbolic key: the statement is re-executed once per entry
        (under `key == k`, with the entry's concrete value) and once with KeyError when no entry matches"""
        alts = []
        conds = []
        for k_, v_ in table.items():
            c = self.equal(key, k_)
            conds.append(c)
            alts.append(('key=%r' % (k_,), c, 'value', v_))
        alts.append(('key-missing', z3.Not(z3.Or(*conds)), 'raise', SExc('KeyError')))
        raise Fork(node, alts)

    def call_contract_ex(self, cc: Contract, args, kw, st, node, receiver=None, wrap=None):
        """modular call like call_contract, plus: `receiver` binds the callee's `self`; a callee whose declared result type is
        `Optional[T]` returns through a Fork with two alternatives (None / a fresh T), each assumed to satisfy the callee's
        postconditions (which must be written so that they evaluate for both, e.g. `result is None or result[0] >= x`);
        `wrap` maps the raw alternative to the value the callee returns (e.g. v -> (v, None)).  Exceptions the callee's
        contract allows (`raises`) are not propagated: callers state preconditions under which the callee does not raise,
        and every `requires` of the callee is an obligation at the call site."""
        callee = find_function(self.tree if cc.path == self.c.path else ast.parse(core.read_repo(cc.path)), cc.qualname)
        a = callee.args
        names = [x.arg for x in a.posonlyargs + a.args]
        env = dict(self.modconsts)
        env.update(cc.consts)
        if names and names[0] == 'self':
            names = names[1:]
            if receiver is None:
                raise Undecided('modular call of method %s without a receiver' % cc.qualname)
            env['self'] = receiver
        defaults = a.defaults
        for n_, d in zip(names[len(names) - len(defaults):], defaults):
            env[n_] = self.ev(d, State(dict(self.modconsts), st.pc))
        if len(args) > len(names):
            raise Undecided('modular call of %s: too many positional arguments' % cc.qualname)
        for n_, v in zip(names, args):
            env[n_] = v
        for k_, v in kw.items():
            if k_ not in names:
                raise Undecided('modular call of %s: unknown keyword %s' % (cc.qualname, k_))
            env[k_] = v
        missing = [n_ for n_ in names if n_ not in env]
        if missing:
            raise Undecided('modular call of %s: no value for %s' % (cc.qualname, missing))
        for name, (ats, rt) in cc.spec_funcs.items():
            f = self.uf(name, ats, rt)
            rtp = parse_type(rt)
            env[name] = SFunc(name, (lambda f, rtp: lambda eng, s, args, kw, node: from_z3(f(*[to_z3(a) for a in args]), rtp))(f, rtp))
        s2 = State(env, st.pc)
        s2.trace = st.trace
        for i, r in enumerate(cc.requires):
            self.oblige(s2, 'call/%s/pre#%d@L%d' % (cc.label or cc.qualname, i, node.lineno), self.ev_bool_str(r, s2), clause=r)
        tstr = cc.types.get('result') or 'U'
        if isinstance(tstr, tuple) and tstr and tstr[0] == 'optional':  # ('optional', T) for a T that has no string form (records)
            optional, rt = True, tstr[1]
        else:
            tstr = tstr.strip() if isinstance(tstr, str) else tstr
            optional = isinstance(tstr, str) and tstr.startswith('Optional[') and tstr.endswith(']')
            rt = parse_type(tstr[len('Optional['):-1] if optional else tstr)
        wrap = wrap or (lambda v: v)

        def post_of(value, extra):
            s3 = State(dict(env), list(st.pc))
            s3.env['result'] = wrap(value)
            facts = list(extra)
            saved = self.entry_env
            self.entry_env = dict(env)  # `old(x)` in the callee's postconditions means the callee's argument values
            try:
                for name, e in cc.ensures:
                    facts.append(self.ev_bool_str(e, s3))
            finally:
                self.entry_env = saved
            facts.extend(s3.pc[len(st.pc):])
            return facts

        res = fresh_value(rt, 'ret_' + cc.qualname)
        may_raise = [k_ for k_, v_ in cc.raises.items() if k_ != '*' and isinstance(v_, str)]
        if not optional and not may_raise:
            for f_ in post_of(res, wf_constraints(res)):
                st.assume(f_)
            return wrap(res)
        alts = [('%s-returns-value' % cc.qualname, z3.And(*(post_of(res, wf_constraints(res)) or [z3.BoolVal(True)])), 'value', wrap(res))]
        if optional:
            alts.insert(0, ('%s-returns-None' % cc.qualname, z3.And(*(post_of(None, []) or [z3.BoolVal(True)])), 'value', wrap(None)))
        # exceptions the callee's contract allows under a stated condition may be raised whenever that condition holds
        for cls_, cond_ in cc.raises.items():
            if cls_ != '*' and isinstance(cond_, str):
                alts.append(('%s-raises-%s' % (cc.qualname, cls_), self.ev_bool_str(cond_, State(dict(env), list(st.pc))), 'raise', SExc(cls_)))
        raise Fork(node, alts)


def contract_model(cc: Contract, method=False, wrap=None):
    """a call model (for Contract.calls) that calls `cc` modularly; method=True: the first argument is the receiver"""

    def model(eng, st, args, kw, node):
        if method:
            return eng.call_contract_ex(cc, list(args[1:]), kw, st, node, receiver=args[0], wrap=wrap)
        return eng.call_contract_ex(cc, list(args), kw, st, node, wrap=wrap)

    return model


# ---------------------------------------------------------------------------------------------
# helpers


def with_model(enter, exit_):
    """Python's with-statement protocol around two oracles: enter(eng, st, node) -> [(state, ('value', v) | ('raise', e))],
    exit_(eng, st, exc_or_None) -> [(state, None | raised exception)]; the managers modelled this way return a falsy value
    from __(a)exit__, i.e. they never swallow the body's exception"""

    def model(eng, st, node):
        outs = []
        for s1, (k, v) in enter(eng, st, node):
            if k == 'raise':
                outs.append((s1, ('raise', v)))
                continue
            if node.items[0].optional_vars is not None:
                eng.assign(node.items[0].optional_vars, v, s1)
            for s2, oc in eng.exec_block(node.body, s1):
                exc = oc[1] if oc[0] == 'raise' else None
                for s3, e3 in exit_(eng, s2, exc):
                    outs.append((s3, ('raise', e3) if e3 is not None else oc))
        return outs

    return model


def xbv_(x):
    return x


def _anchor_match(anchor, text):
    if isinstance(anchor, str) and anchor.startswith('re:'):
        import re as _re

        return _re.search(anchor[3:], text) is not None
    return anchor == text


def _same_value(a, b):
    if isinstance(a, z3.ExprRef) and isinstance(b, z3.ExprRef):
        return a.eq(b)
    if isinstance(a, SList) and isinstance(b, SList):
        return a.len.eq(b.len) and (a.arr is b.arr or (a.arr is not None and b.arr is not None and a.arr.eq(b.arr)))
    if isinstance(a, tuple) and isinstance(b, tuple) and len(a) == len(b):
        return all(_same_value(x, y) for x, y in zip(a, b))
    try:
        return bool(a == b) and type(a) == type(b)
    except Exception:
        return False


def _load(t):
    t2 = copy.deepcopy(t)
    for n in ast.walk(t2):
        if hasattr(n, 'ctx'):
            n.ctx = ast.Load()
    return t2


def _dotted(node) -> Optional[str]:
    if isinstance(node, ast.Name):
        return node.id
    if isinstance(node, ast.Attribute):
        b = _dotted(node.value)
        return None if b is None else b + '.' + node.attr
    if isinstance(node, ast.Call) and isinstance(node.func, ast.Name) and node.func.id == 'super' and not node.args and not node.keywords:
        return 'super()'
    return None


def _dedent(code: str) -> str:
    import textwrap

    return textwrap.dedent(code).strip() + '\n'


def _header_text(node) -> str:
    if isinstance(node, ast.If):
        return 'if ' + ast.unparse(node.test)
    if isinstance(node, ast.While):
        return 'while ' + ast.unparse(node.test)
    if isinstance(node, (ast.For, ast.AsyncFor)):
        return 'for %s in %s' % (ast.unparse(node.target), ast.unparse(node.iter))
    if isinstance(node, ast.Try):
        return 'try'
    if isinstance(node, (ast.With, ast.AsyncWith)):
        return 'with ' + ', '.join(ast.unparse(i) for i in node.items)
    return ast.unparse(node)


def _target_names(t):
    if isinstance(t, ast.Name):
        return [t.id]
    if isinstance(t, (ast.Tuple, ast.List)):
        return [n for e in t.elts for n in _target_names(e)]
    if isinstance(t, ast.Attribute):
        d = _dotted(t)
        return [d] if d else []
    if isinstance(t, ast.Subscript):
        return _target_names(t.value)
    if isinstance(t, ast.Starred):
        return _target_names(t.value)
    return []


MUTATORS = {'append', 'appendleft', 'pop', 'popleft', 'extend', 'clear', 'add', 'remove', 'insert', 'discard', 'update', 'sort', 'reverse', 'setdefault'}


def _assigned_names(stmts) -> List[str]:
    out = []
    for s in stmts:
        for n in ast.walk(s):
            if isinstance(n, (ast.Assign,)):
                for t in n.targets:
                    out.extend(_target_names(t))
            elif isinstance(n, (ast.AugAssign, ast.AnnAssign)):
                out.extend(_target_names(n.target))
            elif isinstance(n, (ast.For, ast.AsyncFor)):
                out.extend(_target_names(n.target))
            elif isinstance(n, ast.NamedExpr):
                out.extend(_target_names(n.target))
            elif isinstance(n, ast.ExceptHandler) and n.name:
                out.append(n.name)
            elif isinstance(n, ast.Call) and isinstance(n.func, ast.Attribute) and n.func.attr in MUTATORS:
                out.extend(_target_names(n.func.value))
            elif isinstance(n, (ast.With, ast.AsyncWith)):
                for i in n.items:
                    if i.optional_vars is not None:
                        out.extend(_target_names(i.optional_vars))
    return out


def concretize(model, v):
    """model value of a symbolic Python-level value -> plain Python data (lists to lists, U to its model name)"""
    if isinstance(v, (int, bool, str, float)) or v is None:
        return v
    if isinstance(v, SList):
        n = model.eval(v.len, model_completion=True)
        try:
            n = n.as_long()
        except Exception:
            return None
        n = max(0, min(n, 64))
        return [concretize(model, from_z3(z3.Select(v.arr, i), v.et)) for i in range(n)]
    if isinstance(v, tuple):
        return tuple(concretize(model, x) for x in v)
    if isinstance(v, SRecord):
        return {k: concretize(model, x) for k, x in v.fields.items()}
    if isinstance(v, z3.ExprRef):
        r = model.eval(v, model_completion=True)
        if z3.is_int_value(r):
            return r.as_long()
        if z3.is_true(r):
            return True
        if z3.is_false(r):
            return False
        if z3.is_rational_value(r):
            return float(r.as_fraction())
        return str(r)
    return repr(v)
