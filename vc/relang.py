"""relang: Boolean Python predicates over ONE string and Python regex literals -> regular languages (z3 Re).

The property "the accepted strings are exactly L_spec" then becomes two language inclusions that z3's
regex solver decides, with a witness string when one fails.

What is translated (anything else raises core.Undecided, never a guess):
  * regex literals, parsed by CPython's own re._parser (so the pattern verified is the pattern compiled):
    LITERAL, NOT_LITERAL, ANY, IN (ranges, negation, \\d \\s \\w categories), BRANCH, SUBPATTERN (no flags),
    MAX_REPEAT / MIN_REPEAT (truthiness of match is independent of greediness), and the anchors ^ \\A at the very
    start and $ \\Z at the very end of the pattern. '$' means "at end OR before a final newline" (CPython).
    No back-references, look-around, MULTILINE/IGNORECASE/VERBOSE flags.
  * string predicates: truthiness, startswith/endswith/`lit in s`/==, all()/any() over the characters with a
    per-character predicate (evaluated by CPython itself on every code point -> exact character class),
    compiled-regex .match/.fullmatch/.search, and/or/not, early `return <const>` / `raise`.
z3's alphabet ends at U+2FFFF: character classes are required to be uniform above that point (checked).
"""
from __future__ import annotations

import ast
import re
import sys
from typing import Dict, List, Optional, Tuple

import z3

from .core import Undecided

try:  # 3.11+
    from re import _parser as sre_parse  # type: ignore
    from re import _constants as sre_c  # type: ignore
except ImportError:  # pragma: no cover
    import sre_constants as sre_c  # type: ignore
    import sre_parse  # type: ignore

MAXCP = 0x2FFFF
STR = z3.StringSort()
RE = z3.ReSort(STR)


def _ch(cp: int):
    return z3.StringVal(chr(cp))


def re_empty():
    return z3.Empty(RE)


def re_all():
    return z3.Full(RE)


def re_eps():
    return z3.Re(z3.StringVal(''))


def any_char():
    return z3.AllChar(RE)


def ranges_to_re(ranges: List[Tuple[int, int]]):
    """ranges: sorted disjoint inclusive code-point ranges (clamped to z3's alphabet)."""
    parts = []
    for lo, hi in ranges:
        if lo > MAXCP:
            continue
        hi = min(hi, MAXCP)
        parts.append(z3.Range(_ch(lo), _ch(hi)) if lo != hi else z3.Re(_ch(lo)))
    if not parts:
        return re_empty()
    return parts[0] if len(parts) == 1 else z3.Union(*parts)


def cps_to_ranges(pred) -> List[Tuple[int, int]]:
    """Exhaustively evaluate a native predicate on every code point -> ranges. Also checks uniformity above MAXCP."""
    out = []
    start = None
    for cp in range(0x110000):
        if 0xD800 <= cp <= 0xDFFF:
            v = False
        else:
            v = bool(pred(chr(cp)))
        if v and start is None:
            start = cp
        elif not v and start is not None:
            out.append((start, cp - 1))
            start = None
    if start is not None:
        out.append((start, 0x10FFFF))
    # uniformity above MAXCP: either nothing above it, or everything (non-surrogate) above it
    above = [r for r in out if r[1] > MAXCP]
    if above and not (len(above) == 1 and above[0][0] <= MAXCP + 1 and above[0][1] == 0x10FFFF):
        raise Undecided('character class is not uniform above U+2FFFF (z3 alphabet limit)')
    return out


def complement_ranges(ranges):
    out = []
    prev = 0
    for lo, hi in ranges:
        if lo > prev:
            out.append((prev, lo - 1))
        prev = hi + 1
    if prev <= 0x10FFFF:
        out.append((prev, 0x10FFFF))
    return out


_CATEGORY_CACHE: Dict[str, List[Tuple[int, int]]] = {}


def _category_ranges(cat) -> List[Tuple[int, int]]:
    name = str(cat)
    if name in _CATEGORY_CACHE:
        return _CATEGORY_CACHE[name]
    table = {
        'CATEGORY_DIGIT': lambda c: re.fullmatch(r'\d', c) is not None,
        'CATEGORY_NOT_DIGIT': lambda c: re.fullmatch(r'\D', c) is not None,
        'CATEGORY_SPACE': lambda c: re.fullmatch(r'\s', c) is not None,
        'CATEGORY_NOT_SPACE': lambda c: re.fullmatch(r'\S', c) is not None,
        'CATEGORY_WORD': lambda c: re.fullmatch(r'\w', c) is not None,
        'CATEGORY_NOT_WORD': lambda c: re.fullmatch(r'\W', c) is not None,
    }
    if name not in table:
        raise Undecided('regex category %s not supported' % name)
    r = cps_to_ranges(table[name])
    _CATEGORY_CACHE[name] = r
    return r


def _union_ranges(rs: List[Tuple[int, int]]):
    rs = sorted(rs)
    out: List[Tuple[int, int]] = []
    for lo, hi in rs:
        if out and lo <= out[-1][1] + 1:
            out[-1] = (out[-1][0], max(out[-1][1], hi))
        else:
            out.append((lo, hi))
    return out


def _in_to_ranges(items) -> List[Tuple[int, int]]:
    neg = False
    rs: List[Tuple[int, int]] = []
    for op, av in items:
        if op is sre_c.NEGATE:
            neg = True
        elif op is sre_c.LITERAL:
            rs.append((av, av))
        elif op is sre_c.RANGE:
            rs.append((av[0], av[1]))
        elif op is sre_c.CATEGORY:
            rs.extend(_category_ranges(av))
        else:
            raise Undecided('regex set item %s not supported' % (op,))
    rs = _union_ranges(rs)
    return complement_ranges(rs) if neg else rs


def _seq(parts):
    parts = list(parts)
    if not parts:
        return re_eps()
    if len(parts) == 1:
        return parts[0]
    return z3.Concat(*parts)


def _sub_to_re(sub) -> z3.ReRef:
    parts = []
    for op, av in sub:
        if op is sre_c.LITERAL:
            parts.append(z3.Re(_ch(av)))
        elif op is sre_c.NOT_LITERAL:
            parts.append(ranges_to_re(complement_ranges([(av, av)])))
        elif op is sre_c.ANY:
            parts.append(ranges_to_re(complement_ranges([(10, 10)])))
        elif op is sre_c.IN:
            parts.append(ranges_to_re(_in_to_ranges(av)))
        elif op is sre_c.BRANCH:
            alts = [_sub_to_re(p) for p in av[1]]
            parts.append(alts[0] if len(alts) == 1 else z3.Union(*alts))
        elif op is sre_c.SUBPATTERN:
            group, add_flags, del_flags, p = av
            if add_flags or del_flags:
                raise Undecided('regex inline flags not supported')
            parts.append(_sub_to_re(p))
        elif op in (sre_c.MAX_REPEAT, sre_c.MIN_REPEAT):
            lo, hi, p = av
            inner = _sub_to_re(p)
            if hi is sre_c.MAXREPEAT or hi == sre_c.MAXREPEAT:
                if lo == 0:
                    parts.append(z3.Star(inner))
                elif lo == 1:
                    parts.append(z3.Plus(inner))
                else:
                    parts.append(z3.Concat(z3.Loop(inner, lo, lo), z3.Star(inner)))
            else:
                if lo == 0 and hi == 1:
                    parts.append(z3.Option(inner))
                else:
                    parts.append(z3.Loop(inner, lo, hi))
        elif op is sre_c.AT:
            raise Undecided('regex anchor %s in a position other than the very start/end of the pattern' % (av,))
        else:
            raise Undecided('regex construct %s not supported' % (op,))
    return _seq(parts)


def regex_language(pattern: str, mode: str, flags: int = 0) -> z3.ReRef:
    """The set of str s such that re.compile(pattern, flags).<mode>(s) is truthy. mode in match|fullmatch|search."""
    if not isinstance(pattern, str):
        raise Undecided('bytes patterns not supported')
    if flags & ~re.UNICODE:
        raise Undecided('regex flags %r not supported' % flags)
    tree = sre_parse.parse(pattern, flags)
    if tree.state.flags & ~(re.UNICODE):
        raise Undecided('regex flags %r not supported' % tree.state.flags)
    items = list(tree)
    begin = False
    end = None
    while items and items[0][0] is sre_c.AT and items[0][1] in (sre_c.AT_BEGINNING, sre_c.AT_BEGINNING_STRING):
        begin = True
        items.pop(0)
    if items and items[-1][0] is sre_c.AT and items[-1][1] in (sre_c.AT_END, sre_c.AT_END_STRING):
        end = 'dollar' if items[-1][1] is sre_c.AT_END else 'Z'
        items.pop()
    core = _sub_to_re(items)
    nl_opt = z3.Option(z3.Re(z3.StringVal('\n')))
    if mode == 'fullmatch':
        return core
    if mode == 'match':
        if end is None:
            return z3.Concat(core, re_all())
        if end == 'dollar':
            return z3.Concat(core, nl_opt)
        return core
    if mode == 'search':
        pre = re_eps() if begin else re_all()
        if end is None:
            return _seq([pre, core, re_all()]) if not begin else z3.Concat(core, re_all())
        if end == 'dollar':
            return _seq([x for x in (None if begin else pre, core, nl_opt) if x is not None])
        return _seq([x for x in (None if begin else pre, core) if x is not None])
    raise Undecided('regex mode %s' % mode)


# --------------------------------------------------------------------------------------------
# Python predicate -> language


class FnLang:
    """Languages of the outcomes of a one-string-argument function (over str inputs)."""

    def __init__(self):
        self.truthy = re_empty()  # returns a truthy value
        self.falsy = re_empty()  # returns a falsy value (incl. falling off the end / `return`)
        self.raises = re_empty()
        self.regexes: List[Tuple[str, str]] = []  # (pattern, mode) used
        self.charsets: List[str] = []


def _const_regex(node, env_regex: Dict[str, Tuple[str, int]], module_consts: Dict[str, ast.AST]):
    """Resolve an expression to (pattern, flags) if it is re.compile(<literal>) or a name bound to one."""
    if isinstance(node, ast.Name):
        if node.id in env_regex:
            return env_regex[node.id]
        if node.id in module_consts:
            return _const_regex(module_consts[node.id], env_regex, {k: v for k, v in module_consts.items() if k != node.id})
        return None
    if (
        isinstance(node, ast.Call)
        and isinstance(node.func, ast.Attribute)
        and isinstance(node.func.value, ast.Name)
        and node.func.value.id == 're'
        and node.func.attr == 'compile'
        and node.args
    ):
        pat = _const_str(node.args[0], module_consts)
        if pat is None:
            return None
        flags = 0
        if len(node.args) > 1 or node.keywords:
            raise Undecided('re.compile with flags not supported')
        return (pat, flags)
    return None


def _const_str(node, module_consts) -> Optional[str]:
    if isinstance(node, ast.Constant) and isinstance(node.value, str):
        return node.value
    if isinstance(node, ast.Name) and node.id in module_consts:
        return _const_str(module_consts[node.id], {k: v for k, v in module_consts.items() if k != node.id})
    if isinstance(node, ast.JoinedStr):
        out = ''
        for v in node.values:
            if isinstance(v, ast.Constant):
                out += v.value
            elif isinstance(v, ast.FormattedValue) and v.conversion == -1 and v.format_spec is None:
                s = _const_str(v.value, module_consts)
                if s is None:
                    return None
                out += s
            else:
                return None
        return out
    if isinstance(node, ast.BinOp) and isinstance(node.op, ast.Add):
        a, b = _const_str(node.left, module_consts), _const_str(node.right, module_consts)
        return None if a is None or b is None else a + b
    return None


def module_constants(tree: ast.Module) -> Dict[str, ast.AST]:
    out: Dict[str, ast.AST] = {}
    for st in tree.body:
        if isinstance(st, ast.Assign) and len(st.targets) == 1 and isinstance(st.targets[0], ast.Name):
            out[st.targets[0].id] = st.value
        elif isinstance(st, ast.AnnAssign) and isinstance(st.target, ast.Name) and st.value is not None:
            out[st.target.id] = st.value
    return out


class PredTranslator:
    def __init__(self, param: str, module_consts: Dict[str, ast.AST]):
        self.s = param
        self.consts = module_consts
        self.env_regex: Dict[str, Tuple[str, int]] = {}
        self.out = FnLang()

    # -- expressions of the string -> language of strings where the expression is truthy
    def truthy(self, e) -> z3.ReRef:
        if isinstance(e, ast.Name) and e.id == self.s:
            return z3.Plus(any_char())
        if isinstance(e, ast.Constant):
            return re_all() if e.value else re_empty()
        if isinstance(e, ast.UnaryOp) and isinstance(e.op, ast.Not):
            return z3.Complement(self.truthy(e.operand))
        if isinstance(e, ast.BoolOp):
            parts = [self.truthy(v) for v in e.values]
            return z3.Intersect(*parts) if isinstance(e.op, ast.And) else z3.Union(*parts)
        if isinstance(e, ast.Compare) and len(e.ops) == 1:
            l, op, r = e.left, e.ops[0], e.comparators[0]
            if isinstance(op, (ast.Is, ast.IsNot)) and isinstance(r, ast.Constant) and r.value is None and self._is_s(l):
                return re_empty() if isinstance(op, ast.Is) else re_all()
            if isinstance(op, (ast.In, ast.NotIn)) and self._is_s(r):
                lit = _const_str(l, self.consts)
                if lit is not None:
                    lang = z3.Concat(re_all(), z3.Re(z3.StringVal(lit)), re_all()) if lit else re_all()
                    return lang if isinstance(op, ast.In) else z3.Complement(lang)
            if isinstance(op, (ast.Eq, ast.NotEq)):
                lit = _const_str(r, self.consts) if self._is_s(l) else (_const_str(l, self.consts) if self._is_s(r) else None)
                if lit is not None:
                    lang = z3.Re(z3.StringVal(lit))
                    return lang if isinstance(op, ast.Eq) else z3.Complement(lang)
            if isinstance(op, (ast.Is, ast.IsNot)) and isinstance(r, ast.Constant) and r.value is None:
                # `<regex>.match(s) is None`
                inner = self.truthy(l)
                return z3.Complement(inner) if isinstance(op, ast.Is) else inner
        if isinstance(e, ast.Call):
            f = e.func
            if isinstance(f, ast.Attribute) and self._is_s(f.value) and f.attr in ('startswith', 'endswith') and len(e.args) == 1:
                lit = _const_str(e.args[0], self.consts)
                if lit is not None:
                    L = z3.Re(z3.StringVal(lit))
                    return z3.Concat(L, re_all()) if f.attr == 'startswith' else z3.Concat(re_all(), L)
            if isinstance(f, ast.Name) and f.id in ('all', 'any') and len(e.args) == 1 and isinstance(e.args[0], ast.GeneratorExp):
                g = e.args[0]
                if len(g.generators) == 1 and not g.generators[0].ifs and self._is_s(g.generators[0].iter) and isinstance(
                    g.generators[0].target, ast.Name
                ):
                    cs = self.charset(g.elt, g.generators[0].target.id)
                    return z3.Star(cs) if f.id == 'all' else z3.Concat(re_all(), cs, re_all())
            if isinstance(f, ast.Attribute) and f.attr in ('match', 'fullmatch', 'search'):
                # compiled.match(s)  or re.match(pat, s)
                if isinstance(f.value, ast.Name) and f.value.id == 're' and len(e.args) == 2 and self._is_s(e.args[1]):
                    pat = _const_str(e.args[0], self.consts)
                    if pat is not None:
                        self.out.regexes.append((pat, f.attr))
                        return regex_language(pat, f.attr)
                rx = _const_regex(f.value, self.env_regex, self.consts)
                if rx is not None and len(e.args) == 1 and self._is_s(e.args[0]):
                    self.out.regexes.append((rx[0], f.attr))
                    return regex_language(rx[0], f.attr, rx[1])
            if isinstance(f, ast.Name) and f.id == 'bool' and len(e.args) == 1:
                return self.truthy(e.args[0])
        raise Undecided('string predicate not in the relang subset: %s' % ast.unparse(e))

    def _is_s(self, n):
        return isinstance(n, ast.Name) and n.id == self.s

    def charset(self, elt: ast.expr, var: str) -> z3.ReRef:
        """Per-character predicate: evaluated by CPython itself on every code point (exact)."""
        names = {n.id for n in ast.walk(elt) if isinstance(n, ast.Name)}
        if names - {var}:
            raise Undecided('character predicate refers to names other than the character: %s' % ast.unparse(elt))
        for n in ast.walk(elt):
            if isinstance(n, ast.Call) and not (
                isinstance(n.func, ast.Attribute) and isinstance(n.func.value, ast.Name) and n.func.value.id == var
            ):
                raise Undecided('character predicate calls something other than a str method: %s' % ast.unparse(elt))
        src = ast.unparse(elt)
        fn = eval('lambda %s: (%s)' % (var, src), {'__builtins__': {}})
        self.out.charsets.append(src)
        return ranges_to_re(cps_to_ranges(fn))

    # -- statements
    def run(self, body: List[ast.stmt]) -> FnLang:
        P = self.block(body, re_all())
        self.out.falsy = z3.Union(self.out.falsy, P)  # falls off the end -> returns None
        return self.out

    def block(self, body, P):
        for st in body:
            P = self.stmt(st, P)
        return P

    def stmt(self, st, P):
        if isinstance(st, ast.Expr) and isinstance(st.value, ast.Constant):
            return P  # docstring
        if isinstance(st, ast.Return):
            if st.value is None or (isinstance(st.value, ast.Constant) and not st.value.value):
                self.out.falsy = z3.Union(self.out.falsy, P)
            elif isinstance(st.value, ast.Constant):
                self.out.truthy = z3.Union(self.out.truthy, P)
            else:
                T = self.truthy(st.value)
                self.out.truthy = z3.Union(self.out.truthy, z3.Intersect(P, T))
                self.out.falsy = z3.Union(self.out.falsy, z3.Intersect(P, z3.Complement(T)))
            return re_empty()
        if isinstance(st, ast.Raise):
            self.out.raises = z3.Union(self.out.raises, P)
            return re_empty()
        if isinstance(st, ast.If):
            T = self.truthy(st.test)
            p1 = self.block(st.body, z3.Intersect(P, T))
            p2 = self.block(st.orelse, z3.Intersect(P, z3.Complement(T)))
            return z3.Union(p1, p2)
        if isinstance(st, ast.Assign) and len(st.targets) == 1 and isinstance(st.targets[0], ast.Name):
            rx = _const_regex(st.value, self.env_regex, self.consts)
            if rx is not None:
                self.env_regex[st.targets[0].id] = rx
                return P
        if isinstance(st, ast.Pass):
            return P
        raise Undecided('statement not in the relang subset: %s' % ast.unparse(st)[:120])


def function_language(src: str, qualname: str, param: Optional[str] = None) -> FnLang:
    tree = ast.parse(src)
    fn = None
    for n in ast.walk(tree):
        if isinstance(n, (ast.FunctionDef, ast.AsyncFunctionDef)) and n.name == qualname:
            fn = n
            break
    if fn is None:
        raise Undecided('anchor-moved: function %s not found' % qualname)
    args = [a.arg for a in fn.args.args]
    if param is None:
        if len(args) != 1:
            raise Undecided('%s: expected exactly one parameter' % qualname)
        param = args[0]
    return PredTranslator(param, module_constants(tree)).run(fn.body)


# --------------------------------------------------------------------------------------------
# obligations over languages


def in_lang(sv, L):
    return z3.InRe(sv, L)


def lang_subset_query(A, B, name='w'):
    """Query satisfiable iff A is NOT a subset of B; the model value of the string is the witness."""
    w = z3.String(name)
    return w, z3.InRe(w, z3.Intersect(A, z3.Complement(B)))


def member_concrete(s: str, L) -> Optional[bool]:
    """Decide membership of a concrete string by z3 simplification/solving (for translator validation)."""
    sol = z3.Solver()
    sol.set('timeout', 5000)
    sol.add(z3.InRe(z3.StringVal(s), L))
    r = sol.check()
    if r == z3.sat:
        return True
    if r == z3.unsat:
        return False
    return None


def model_string(model, var) -> Optional[str]:
    if model is None:
        return None
    v = model.eval(var, model_completion=True)
    try:
        return v.as_string() if not hasattr(v, 'py_value') else v.py_value()
    except Exception:
        return None


def z3_unescape(s: str) -> str:
    """z3 prints non-printable characters as \\u{hex}."""
    return re.sub(r'\\u\{([0-9a-fA-F]+)\}', lambda m: chr(int(m.group(1), 16)), s)


# --------------------------------------------------------------------------------------------
# regex structure helpers (capture groups)


def parse_pattern(pattern: str):
    return sre_parse.parse(pattern, 0)


def find_group(tree, gid):
    """the sub-pattern of capture group `gid` (searching nested constructs)"""
    for op, av in tree:
        if op is sre_c.SUBPATTERN:
            group, _, _, p = av
            if group == gid:
                return p
            r = find_group(p, gid)
            if r is not None:
                return r
        elif op in (sre_c.MAX_REPEAT, sre_c.MIN_REPEAT):
            r = find_group(av[2], gid)
            if r is not None:
                return r
        elif op is sre_c.BRANCH:
            for p in av[1]:
                r = find_group(p, gid)
                if r is not None:
                    return r
    return None


def finite_language(sub, limit=200):
    """all strings of a sub-pattern whose language is finite (literals, small sets, optional parts)"""
    out = ['']
    for op, av in sub:
        if op is sre_c.LITERAL:
            alts = [chr(av)]
        elif op is sre_c.IN:
            rs = _in_to_ranges(av)
            if sum(hi - lo + 1 for lo, hi in rs) > 64:
                raise Undecided('character set too large for a finite language')
            alts = [chr(c) for lo, hi in rs for c in range(lo, hi + 1)]
        elif op is sre_c.SUBPATTERN:
            alts = finite_language(av[3], limit)
        elif op is sre_c.BRANCH:
            alts = [s for p in av[1] for s in finite_language(p, limit)]
        elif op in (sre_c.MAX_REPEAT, sre_c.MIN_REPEAT):
            lo, hi, p = av
            if hi is sre_c.MAXREPEAT or hi == sre_c.MAXREPEAT or hi > 4:
                raise Undecided('unbounded repeat in a finite language')
            inner = finite_language(p, limit)
            alts = []
            for n in range(lo, hi + 1):
                cur = ['']
                for _ in range(n):
                    cur = [a + b for a in cur for b in inner]
                alts.extend(cur)
        else:
            raise Undecided('construct %s in a finite language' % (op,))
        out = [a + b for a in out for b in alts]
        if len(out) > limit:
            raise Undecided('finite language too large')
    return sorted(set(out))


def sub_language(sub):
    return _sub_to_re(list(sub))


def alphabet_ranges(sub):
    """code points that can occur in strings of the sub-pattern (over-approximation by collecting all sets)"""
    rs = []
    for op, av in sub:
        if op is sre_c.LITERAL:
            rs.append((av, av))
        elif op is sre_c.IN:
            rs.extend(_in_to_ranges(av))
        elif op is sre_c.SUBPATTERN:
            rs.extend(alphabet_ranges(av[3]))
        elif op is sre_c.BRANCH:
            for p in av[1]:
                rs.extend(alphabet_ranges(p))
        elif op in (sre_c.MAX_REPEAT, sre_c.MIN_REPEAT):
            rs.extend(alphabet_ranges(av[2]))
        else:
            raise Undecided('construct %s in alphabet computation' % (op,))
    return _union_ranges(rs)
