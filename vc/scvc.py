"""scvc - a tiny front end for the integer-expression subset of Scala used by Hail's
genotype-call packing code (Call.scala / Genotype.scala).

The REAL Scala source text is tokenised and parsed by the hand-written lexer and
recursive-descent parser below.  Two independent evaluators run over the resulting AST:

  * ``ConcreteEval``  - executes a function on Python values with exact JVM semantics
                        (32-bit two's complement ``Int``, truncating ``/`` and ``%``, 5-bit shift
                        counts, IEEE doubles for the few ``Double`` expressions).  A Scala
                        exception becomes the Python exception ``ScThrow(kind, message)``.
  * ``SymEval``       - translates a function into z3 terms: ``Int`` is ``BitVec(32)``,
                        ``Boolean`` is a z3 ``Bool``.  The result is ``SymResult(value, throws)``
                        where ``throws`` is true exactly for the arguments on which the Scala code
                        would throw.

This module is part of the trusted base of a proof tool.  Design rule: anything that is not
positively recognised is rejected - with ``ScUnsupported(reason)`` naming the source line -
instead of being guessed.  A function whose body (or a transitive callee) is outside the subset is
still listed (``ScFunc.in_subset == False`` with ``ScFunc.reason``) but cannot be evaluated.

Public API
----------
    load_objects(paths, type_aliases=None, auto_package=True) -> dict[str, ScObject]
    load_source(text, filename='<string>', type_aliases=None) -> dict[str, ScObject]
    ScObject: name, file, first_line, last_line, package, funcs, overloads, vals,
              unsupported_vals, types, value_class
    ScFunc:   name, key, qualname, obj, params, defaults, ret, body, file, first_line, last_line,
              param_kinds, ret_kind, in_subset, reason, concrete_ok, concrete_reason,
              eval(*args, **named), sym(*args, stubs=None, **named), sym_unsupported(stubs=None)
    SymResult(value, throws)   value: BitVec(32) | Bool | SymSeq | None (Unit)
    SymSeq(alts)               alts: [(guard, [BitVec(32) elements])]
    ScUFStub(qualname, arity)  replace a callee by uninterpreted functions in ``sym``
    ScThrow(kind, message, line), ScUnsupported(reason, line, file)

``in_subset`` means "``sym`` (and ``eval``) work without stubs"; ``concrete_ok`` means "``eval``
works".  ``concrete_ok and not in_subset`` are the concrete-only functions (Double arithmetic,
recursion) and everything that calls them; a caller becomes translatable again when the
concrete-only callee is stubbed: ``f.sym(x, stubs={'Genotype.allelePairSqrt': stub})``.

Subset (see the parser and the evaluators for the exact rules)
--------------------------------------------------------------
blocks, ``val``/``var`` definitions, (compound) assignment to local ``var``s, ``if``/``else``,
``match`` on an ``Int`` with literal / alternative / wildcard patterns, Int (decimal, hex), Boolean
and Double literals, unary ``- + ~ !``, binary ``+ - * / % & | ^ << >> >>>``, comparisons,
``&& ||`` (short circuit) and ``& | ^`` on Booleans (strict), calls with positional, named and
default arguments to functions of loaded objects (inlined), ``Obj(...)`` as ``Obj.apply(...)``,
``Array(...)``/``ArraySeq(...)`` tables with indexing, ``.length``/``.size``, ``.map``,
``.forall``, ``.exists``, ``.count``, ``.foreach`` with lambdas / method values, nested ``def``s,
``Boolean.toInt`` (Hail's RichBoolean), ``require``, ``assert``, ``fatal``, ``throw new X(...)``.
Concrete evaluation only: ``Double`` arithmetic, ``.toDouble``, ``Double.toInt``,
``math.sqrt``/``Math.sqrt`` and recursion.
"""

from __future__ import annotations

import math
import os
import sys

import z3

__all__ = [
    'load_objects', 'load_source', 'ScObject', 'ScFunc', 'SymResult', 'SymSeq', 'ScUFStub',
    'ScThrow', 'ScUnsupported', 'i32',
]


# ----------------------------------------------------------------------------------------------
# Exceptions
# ----------------------------------------------------------------------------------------------

class ScUnsupported(Exception):
    """The Scala text uses something outside the supported subset (never a guess)."""

    def __init__(self, reason, line=None, file=None):
        self.reason = reason
        self.line = line
        self.file = file
        loc = ''
        if line is not None:
            loc = ('%s:%d: ' % (os.path.basename(file), line)) if file else ('line %d: ' % line)
        super().__init__(loc + reason)


class ScThrow(Exception):
    """The Scala code throws.  ``kind`` is the simple name of the JVM exception class:
    HailException (fatal), IllegalArgumentException (require), AssertionError (assert),
    ArrayIndexOutOfBoundsException, ArithmeticException, MatchError, or the class named in
    ``throw new X(...)``."""

    def __init__(self, kind, message='', line=None):
        self.kind = kind
        self.message = message
        self.line = line
        super().__init__('%s%s%s' % (kind, (': ' + message) if message else '',
                                     (' (line %d)' % line) if line is not None else ''))


# ----------------------------------------------------------------------------------------------
# Lexer
# ----------------------------------------------------------------------------------------------

KEYWORDS = frozenset('''abstract case catch class def do else extends false final finally for
forSome if implicit import lazy match new null object override package private protected return
sealed super this throw trait try true type val var while with yield'''.split())

OPCHARS = frozenset('+-*/%&|^<>=!~:?#@\\')
# operator-character tokens that are reserved words of the language, not operators
RESERVED_OPS = frozenset(['=', '=>', '<-', ':', '@', '#', '<:', '>:', '<%'])


class Tok:
    """kind: id kw op punct int long double char str istr eof.
    ``nl`` is True when at least one line break separates this token from the previous one AND
    line breaks are significant at this position (innermost enclosing bracket is '{' or none)."""
    __slots__ = ('kind', 'text', 'value', 'line', 'nl')

    def __init__(self, kind, text, line, nl, value=None):
        self.kind = kind
        self.text = text
        self.line = line
        self.nl = nl
        self.value = value

    def __repr__(self):
        return 'Tok(%s,%r,l%d%s)' % (self.kind, self.text, self.line, ',nl' if self.nl else '')


def tokenize(src, file=None):
    toks = []
    i, n, line = 0, len(src), 1
    stack = []          # open brackets
    saw_nl = False

    def err(msg):
        raise ScUnsupported('lexer: ' + msg, line, file)

    def add(kind, text, value=None, tok_line=None):
        nonlocal saw_nl
        nl = saw_nl and (not stack or stack[-1] == '{')
        toks.append(Tok(kind, text, tok_line if tok_line is not None else line, nl, value))
        saw_nl = False

    def scan_string(j, triple, interpolated):
        """scan a (possibly interpolated) string body starting after the opening quote(s);
        returns index after the closing quote(s).  ``${...}`` blocks are skipped balanced."""
        nonlocal line
        while True:
            if j >= n:
                err('unterminated string literal')
            c = src[j]
            if triple:
                if src.startswith('"""', j):
                    j += 3
                    while j < n and src[j] == '"':   # """" ... extra quotes belong to the string
                        j += 1
                    return j
            else:
                if c == '"':
                    return j + 1
                if c == '\n':
                    err('newline in string literal')
                if c == '\\':
                    j += 2
                    continue
            if c == '\n':
                line += 1
            if interpolated and c == '$':
                if src.startswith('$$', j):
                    j += 2
                    continue
                if src.startswith('${', j):
                    depth, j = 1, j + 2
                    while depth:
                        if j >= n:
                            err('unterminated ${ in interpolated string')
                        if src[j] == '{':
                            depth += 1
                        elif src[j] == '}':
                            depth -= 1
                        elif src[j] == '"':
                            # nested string literal inside the interpolation
                            j = scan_string(j + 1, False, False) - 1
                        elif src[j] == '\n':
                            line += 1
                        j += 1
                    continue
            j += 1

    while i < n:
        c = src[i]
        if c == '\n':
            line += 1
            saw_nl = True
            i += 1
        elif c in ' \t\r\f':
            i += 1
        elif src.startswith('//', i):
            while i < n and src[i] != '\n':
                i += 1
        elif src.startswith('/*', i):
            depth, i = 1, i + 2          # Scala block comments nest
            while depth:
                if i >= n:
                    err('unterminated comment')
                if src.startswith('/*', i):
                    depth += 1
                    i += 2
                elif src.startswith('*/', i):
                    depth -= 1
                    i += 2
                else:
                    if src[i] == '\n':
                        line += 1
                    i += 1
        elif c.isalpha() or c == '_' or c == '$':
            j = i
            while j < n and (src[j].isalnum() or src[j] in '_$'):
                j += 1
            # identifiers like foo_+ (underscore followed by operator characters)
            if src[j - 1] == '_' and j < n and src[j] in OPCHARS and j - i > 1:
                while j < n and src[j] in OPCHARS:
                    j += 1
            text = src[i:j]
            if j < n and src[j] == '"':
                # string interpolator  s"..." / f"..." / raw"..."
                start_line = line
                triple = src.startswith('"""', j)
                k = scan_string(j + (3 if triple else 1), triple, True)
                add('istr', src[i:k], tok_line=start_line)
                i = k
            else:
                add('kw' if (text in KEYWORDS or text == '_') else 'id', text)
                i = j
        elif c == '`':
            j = src.find('`', i + 1)
            if j < 0:
                err('unterminated backquoted identifier')
            add('id', src[i + 1:j])
            i = j + 1
        elif c.isdigit():
            j = i
            if src.startswith(('0x', '0X'), i):
                j = i + 2
                while j < n and (src[j] in '0123456789abcdefABCDEF_'):
                    j += 1
                digits = src[i + 2:j].replace('_', '')
                if not digits:
                    err('malformed hex literal')
                v = int(digits, 16)
                if j < n and src[j] in 'lL':
                    add('long', src[i:j + 1], v)
                    j += 1
                else:
                    if v > 0xFFFFFFFF:
                        err('hex Int literal out of range: ' + src[i:j])
                    add('int', src[i:j], i32(v))
                i = j
            else:
                while j < n and (src[j].isdigit() or src[j] == '_'):
                    j += 1
                is_float = False
                if j + 1 < n and src[j] == '.' and src[j + 1].isdigit():
                    is_float = True
                    j += 1
                    while j < n and src[j].isdigit():
                        j += 1
                if j < n and src[j] in 'eE' and (
                        (j + 1 < n and src[j + 1].isdigit()) or
                        (j + 2 < n and src[j + 1] in '+-' and src[j + 2].isdigit())):
                    is_float = True
                    j += 2
                    while j < n and src[j].isdigit():
                        j += 1
                text = src[i:j].replace('_', '')
                if j < n and src[j] in 'dD' and not (j + 1 < n and (src[j + 1].isalnum())):
                    add('double', src[i:j + 1], float(text))
                    j += 1
                elif j < n and src[j] in 'fF' and not (j + 1 < n and (src[j + 1].isalnum())):
                    add('float', src[i:j + 1], None)     # 32-bit Float: never evaluated
                    j += 1
                elif is_float:
                    add('double', src[i:j], float(text))
                elif j < n and src[j] in 'lL':
                    add('long', src[i:j + 1], int(text))
                    j += 1
                else:
                    v = int(text)
                    if len(text) > 1 and text[0] == '0':
                        err('octal-looking literal ' + text)
                    # 2147483648 is only legal directly under unary minus; the parser checks.
                    if v > 2147483648:
                        err('Int literal out of range: ' + text)
                    add('int', src[i:j], v)
                i = j
        elif c == '"':
            start_line = line
            triple = src.startswith('"""', i)
            k = scan_string(i + (3 if triple else 1), triple, False)
            add('str', src[i:k], tok_line=start_line)
            i = k
        elif c == "'":
            # character literal 'x' '\n' 'A'   (symbol literals are not supported)
            if i + 2 < n and src[i + 1] != '\\' and src[i + 2] == "'":
                add('char', src[i:i + 3], ord(src[i + 1]))
                i += 3
            elif i + 1 < n and src[i + 1] == '\\':
                j = src.find("'", i + 2)
                if j < 0 or j - i > 8:
                    err('malformed character literal')
                add('char', src[i:j + 1], None)
                i = j + 1
            else:
                err('symbol literal or malformed character literal')
        elif c in '([{':
            add('punct', c)
            stack.append(c)
            i += 1
        elif c in ')]}':
            want = {')': '(', ']': '[', '}': '{'}[c]
            if not stack or stack[-1] != want:
                err('unbalanced %r' % c)
            stack.pop()
            saw_nl = False       # a closing bracket never starts a statement
            add('punct', c)
            i += 1
        elif c in ',;.':
            add('punct', c)
            i += 1
        elif c in OPCHARS:
            j = i
            while j < n and src[j] in OPCHARS:
                if src.startswith(('//', '/*'), j):
                    break
                j += 1
            add('op', src[i:j])
            i = j
        else:
            err('unexpected character %r' % c)
    if stack:
        err('unbalanced brackets at end of file')
    add('eof', '<eof>')
    return toks


def i32(x):
    """wrap a Python int to the JVM Int it denotes (32-bit two's complement)."""
    x &= 0xFFFFFFFF
    return x - 0x100000000 if x & 0x80000000 else x


# ----------------------------------------------------------------------------------------------
# AST
# ----------------------------------------------------------------------------------------------

class Node:
    """Generic AST node: ``kind`` plus named fields, ``line`` = first source line.

    kinds and fields
      Lit(value, ty)                 ty in Int Boolean Double String Unit Char Long Float Null
      Ident(name)          Placeholder(name)         This()
      Select(obj, name)              obj.name
      Apply(fn, args)                args: list of (argname | None, expr)
      TypeApply(fn, types)           fn[T]
      Unary(op, e)         Binary(op, l, r)
      If(c, t, e)                    e is None for a one-armed if
      Block(stmts)
      ValDef(name, ty, rhs, is_var, is_lazy)
      Assign(name, op, rhs)          op is None for '=', else the operator of 'op='
      DefDef(decl)                   nested def; decl is a FuncDecl
      Match(scrut, cases)            cases: list of (patterns, body); pattern is int or '_'
      Throw(e)             New(cls, args)
      Lambda(params, body)           params: list of names
    """

    def __init__(self, kind, line, **fields):
        self.kind = kind
        self.line = line
        self.__dict__.update(fields)

    def __repr__(self):
        fs = ', '.join('%s=%r' % (k, v) for k, v in self.__dict__.items()
                       if k not in ('kind', 'line'))
        return '%s(%s)' % (self.kind, fs)


class FuncDecl:
    """Syntactic function declaration (top-level member or nested def)."""

    def __init__(self, name, params, defaults, ret, body, first_line, last_line):
        self.name = name
        self.params = params          # list of (name, type string)
        self.defaults = defaults      # name -> AST
        self.ret = ret                # type string or None
        self.body = body              # AST or None
        self.first_line = first_line
        self.last_line = last_line
        self.problem = None           # reason string when signature/body is outside the subset


# ----------------------------------------------------------------------------------------------
# Parser
# ----------------------------------------------------------------------------------------------

# Scala infix precedence is determined by the first character of the operator.
def _prec(op):
    c = op[0]
    if c == '|':
        return 1
    if c == '^':
        return 2
    if c == '&':
        return 3
    if c in '=!':
        return 4
    if c in '<>':
        return 5
    if c == ':':
        return 6
    if c in '+-':
        return 7
    if c in '*/%':
        return 8
    return 9


BINARY_OPS = frozenset(['+', '-', '*', '/', '%', '&', '|', '^', '<<', '>>', '>>>',
                        '==', '!=', '<', '<=', '>', '>=', '&&', '||'])


def _is_assign_op(text):
    return (len(text) >= 2 and text[-1] == '=' and text[0] != '=' and
            text not in ('<=', '>=', '!=') and text[:-1] in BINARY_OPS)


class Parser:
    def __init__(self, toks, file=None, start=0, end=None):
        self.toks = toks
        self.file = file
        self.pos = start
        self.end = len(toks) - 1 if end is None else end   # index of the sentinel position
        self.ph_stack = []       # placeholder-lambda scopes
        self.ph_counter = 0

    # -- token helpers -------------------------------------------------------------------------
    _EOF = Tok('eof', '<end>', 0, False)

    def peek(self, k=0):
        p = self.pos + k
        if p >= self.end:
            t = Parser._EOF
            t.line = self.toks[min(self.end, len(self.toks) - 1)].line
            return t
        return self.toks[p]

    def next(self):
        t = self.peek()
        if t.kind != 'eof':
            self.pos += 1
        return t

    def at(self, kind, text=None, k=0):
        t = self.peek(k)
        return t.kind == kind and (text is None or t.text == text)

    def fail(self, msg, tok=None):
        tok = tok or self.peek()
        raise ScUnsupported(msg, tok.line, self.file)

    def expect(self, kind, text=None):
        t = self.peek()
        if not self.at(kind, text):
            self.fail('expected %s but found %r' % (text or kind, t.text))
        return self.next()

    # -- types ---------------------------------------------------------------------------------
    def parse_type(self, stops):
        """consume a type up to (not including) one of ``stops`` at bracket depth 0; the type is
        returned as a normalised string and interpreted later (only a few types are known)."""
        depth = 0
        parts = []
        while True:
            t = self.peek()
            if t.kind == 'eof':
                break
            if depth == 0 and ((t.kind in ('punct', 'op') and t.text in stops) or
                               (t.nl and parts)):
                break
            if t.kind == 'punct' and t.text in '([':
                depth += 1
            elif t.kind == 'punct' and t.text in ')]':
                if depth == 0:
                    break
                depth -= 1
            elif t.kind == 'punct' and t.text in '{}':
                if depth == 0:
                    break
                self.fail('refinement / structural type')
            parts.append(t.text)
            self.next()
        if not parts:
            self.fail('expected a type')
        s = ''
        for p in parts:
            if p == ',':
                s += ', '
            elif p == '=>':
                s += ' => '
            elif p in ('with',):
                s += ' with '
            else:
                s += p
        return s.strip()

    # -- expressions ---------------------------------------------------------------------------
    def parse_expr(self):
        """Expr with placeholder-syntax handling: ``_ == 0`` becomes ``x => x == 0``."""
        self.ph_stack.append([])
        e = self.parse_expr_noph()
        names = self.ph_stack.pop()
        if names:
            if e.kind == 'Placeholder':
                # a bare `_` is not "properly contained": it belongs to the enclosing expression
                if not self.ph_stack:
                    self.fail('bare placeholder `_` outside an expression')
                self.ph_stack[-1].extend(names)
                return e
            return Node('Lambda', e.line, params=names, body=e)
        return e

    def parse_expr_noph(self):
        t = self.peek()
        if t.kind == 'kw':
            if t.text == 'if':
                return self.parse_if()
            if t.text == 'throw':
                self.next()
                return Node('Throw', t.line, e=self.parse_expr())
            if t.text in ('while', 'do', 'for', 'try', 'return'):
                self.fail("'%s' is outside the subset" % t.text)
        # lambda:  x => e      (x, y) => e      (x: Int) => e
        if t.kind == 'id' and self.at('op', '=>', 1):
            self.next()
            self.next()
            return Node('Lambda', t.line, params=[t.text], body=self.parse_expr())
        if t.kind == 'punct' and t.text == '(':
            lam = self.try_lambda_params()
            if lam is not None:
                return Node('Lambda', t.line, params=lam, body=self.parse_expr())
        e = self.parse_infix(0)
        while True:
            n = self.peek()
            if n.kind == 'kw' and n.text == 'match':
                self.next()
                e = self.parse_match(e, n.line)
                continue
            break
        n = self.peek()
        if n.kind == 'op' and (n.text == '=' or _is_assign_op(n.text)) and not n.nl:
            if e.kind != 'Ident':
                self.fail('assignment to something other than a simple variable')
            self.next()
            rhs = self.parse_expr()
            return Node('Assign', e.line, name=e.name,
                        op=None if n.text == '=' else n.text[:-1], rhs=rhs)
        return e

    def try_lambda_params(self):
        """at '(' : if this is ``(a, b: T) =>`` consume through '=>' and return the names."""
        depth, k = 0, 0
        while True:
            t = self.peek(k)
            if t.kind == 'eof':
                return None
            if t.kind == 'punct' and t.text in '([{':
                depth += 1
            elif t.kind == 'punct' and t.text in ')]}':
                depth -= 1
                if depth == 0:
                    break
            k += 1
        if not self.at('op', '=>', k + 1):
            return None
        self.next()
        names = []
        while not self.at('punct', ')'):
            names.append(self.expect('id').text)
            if self.at('op', ':'):
                self.next()
                self.parse_type((',', ')'))
            if self.at('punct', ','):
                self.next()
        self.next()
        self.expect('op', '=>')
        return names

    def parse_if(self):
        t = self.expect('kw', 'if')
        self.expect('punct', '(')
        c = self.parse_expr()
        self.expect('punct', ')')
        th = self.parse_expr()
        el = None
        if self.at('punct', ';') and self.at('kw', 'else', 1):
            self.next()
        if self.at('kw', 'else'):
            self.next()
            el = self.parse_expr()
        return Node('If', t.line, c=c, t=th, e=el)

    def parse_infix(self, min_prec):
        left = self.parse_prefix()
        while True:
            t = self.peek()
            if t.nl:
                # Scala 2: an operator at the start of a line begins a new statement.
                break
            if t.kind == 'id':
                self.fail('alphanumeric infix/postfix operator %r is outside the subset' % t.text)
            if t.kind != 'op' or t.text in RESERVED_OPS or _is_assign_op(t.text):
                break
            if t.text not in BINARY_OPS:
                self.fail('operator %r is outside the subset' % t.text)
            p = _prec(t.text)
            if p < min_prec:
                break
            self.next()
            right = self.parse_infix(p + 1)       # all supported operators are left-associative
            left = Node('Binary', t.line, op=t.text, l=left, r=right)
        return left

    def parse_prefix(self):
        t = self.peek()
        if t.kind == 'op' and t.text in ('-', '+', '~', '!'):
            self.next()
            n = self.peek()
            if t.text == '-' and n.kind in ('int', 'double'):
                # negative numeric literal (this is how -2147483648 is written)
                self.next()
                if n.kind == 'int':
                    lit = Node('Lit', t.line, value=i32(-n.value), ty='Int')
                else:
                    lit = Node('Lit', t.line, value=-n.value, ty='Double')
                return self.parse_postfix(lit)
            e = self.parse_simple()
            return Node('Unary', t.line, op=t.text, e=e)
        return self.parse_simple()

    def parse_simple(self):
        t = self.next()
        k = t.kind
        if k == 'int':
            if t.value > 2147483647:
                self.fail('Int literal out of range: ' + t.text, t)
            e = Node('Lit', t.line, value=t.value, ty='Int')
        elif k == 'double':
            e = Node('Lit', t.line, value=t.value, ty='Double')
        elif k == 'long':
            e = Node('Lit', t.line, value=t.value, ty='Long')
        elif k == 'float':
            e = Node('Lit', t.line, value=None, ty='Float')
        elif k == 'char':
            e = Node('Lit', t.line, value=t.value, ty='Char')
        elif k in ('str', 'istr'):
            e = Node('Lit', t.line, value=t.text, ty='String')
        elif k == 'id':
            e = Node('Ident', t.line, name=t.text)
        elif k == 'kw' and t.text in ('true', 'false'):
            e = Node('Lit', t.line, value=(t.text == 'true'), ty='Boolean')
        elif k == 'kw' and t.text == 'null':
            e = Node('Lit', t.line, value=None, ty='Null')
        elif k == 'kw' and t.text == 'this':
            e = Node('This', t.line)
        elif k == 'kw' and t.text == '_':
            if not self.ph_stack:
                self.fail('placeholder `_` outside an expression', t)
            self.ph_counter += 1
            name = '_$%d' % self.ph_counter
            self.ph_stack[-1].append(name)
            e = Node('Placeholder', t.line, name=name)
        elif k == 'kw' and t.text == 'new':
            e = self.parse_new(t)
        elif k == 'punct' and t.text == '(':
            if self.at('punct', ')'):
                self.next()
                e = Node('Lit', t.line, value=None, ty='Unit')
            else:
                e = self.parse_expr()
                if self.at('op', ':'):
                    # ascription: only annotations such as (x: @switch) are accepted (and dropped)
                    self.next()
                    if self.at('op', '@'):
                        self.next()
                        self.expect('id')
                        while self.at('punct', '.'):
                            self.next()
                            self.expect('id')
                    else:
                        self.fail('type ascription is outside the subset')
                if self.at('punct', ','):
                    self.fail('tuple expression is outside the subset')
                self.expect('punct', ')')
        elif k == 'punct' and t.text == '{':
            e = self.parse_block_rest(t)
        else:
            self.fail('unexpected %r in expression' % t.text, t)
        return self.parse_postfix(e)

    def parse_new(self, t):
        parts = [self.expect('id').text]
        while self.at('punct', '.'):
            self.next()
            parts.append(self.expect('id').text)
        if self.at('punct', '['):
            self.fail('new with type arguments / anonymous class is outside the subset')
        args = []
        if self.at('punct', '(') and not self.peek().nl:
            args = self.parse_args()
        if self.at('kw', 'with') or (self.at('punct', '{') and not self.peek().nl):
            self.fail('anonymous class is outside the subset')
        return Node('New', t.line, cls='.'.join(parts), args=args)

    def parse_args(self):
        self.expect('punct', '(')
        args = []
        while not self.at('punct', ')'):
            name = None
            if self.at('id') and self.at('op', '=', 1):
                name = self.next().text
                self.next()
            e = self.parse_expr()
            if self.at('op', ':'):
                self.fail('type ascription / vararg splice in argument is outside the subset')
            args.append((name, e))
            if self.at('punct', ','):
                self.next()          # trailing commas are allowed
            elif not self.at('punct', ')'):
                self.fail('expected , or ) in argument list but found %r' % self.peek().text)
        self.next()
        return args

    def parse_postfix(self, e):
        while True:
            t = self.peek()
            if t.kind == 'punct' and t.text == '.':
                self.next()
                n = self.next()
                if n.kind == 'kw' and n.text == 'type':
                    self.fail('singleton type', n)
                if n.kind != 'id':
                    self.fail('expected member name after . but found %r' % n.text, n)
                e = Node('Select', n.line, obj=e, name=n.text)
            elif t.kind == 'punct' and t.text == '(' and not t.nl:
                args = self.parse_args()
                e = Node('Apply', t.line, fn=e, args=args)
            elif t.kind == 'punct' and t.text == '[' and not t.nl:
                self.next()
                types = []
                while not self.at('punct', ']'):
                    types.append(self.parse_type((',', ']')))
                    if self.at('punct', ','):
                        self.next()
                self.next()
                e = Node('TypeApply', t.line, fn=e, types=types)
            elif (t.kind == 'punct' and t.text == '{' and not t.nl and
                  e.kind in ('Ident', 'Select', 'Apply', 'TypeApply')):
                self.fail('brace-delimited argument `f { ... }` is outside the subset')
            else:
                return e

    # -- blocks and statements -----------------------------------------------------------------
    def parse_block_rest(self, open_tok):
        """after '{' : statements up to the matching '}'"""
        if self.at('kw', 'case'):
            self.fail('pattern-matching anonymous function is outside the subset')
        stmts = self.parse_stmts(('}',))
        self.expect('punct', '}')
        return Node('Block', open_tok.line, stmts=stmts)

    def parse_stmts(self, closers, stop_at_case=False):
        stmts = []
        first = True
        while True:
            while self.at('punct', ';'):
                self.next()
                first = True
            t = self.peek()
            if t.kind == 'eof' or (t.kind == 'punct' and t.text in closers):
                break
            if stop_at_case and t.kind == 'kw' and t.text == 'case':
                break
            if not first and not t.nl:
                self.fail('expected end of statement but found %r' % t.text)
            if not first and t.kind == 'op':
                self.fail('statement starting with operator %r: line-continuation rules differ '
                          'between Scala versions, refusing to guess' % t.text)
            stmts.append(self.parse_stmt())
            first = False
        return stmts

    def parse_stmt(self):
        t = self.peek()
        if t.kind == 'kw':
            if t.text in ('val', 'var') or (t.text == 'lazy' and self.at('kw', 'val', 1)):
                return self.parse_valdef()
            if t.text == 'def':
                decl = self.parse_def()
                return Node('DefDef', t.line, decl=decl)
            if t.text in ('import', 'class', 'object', 'trait', 'type', 'case', 'implicit',
                          'private', 'protected', 'final', 'override', 'abstract', 'sealed'):
                self.fail("local '%s' is outside the subset" % t.text)
        if t.kind == 'op' and t.text == '@':
            self.fail('annotation on a local definition')
        return self.parse_expr()

    def parse_valdef(self):
        t = self.next()
        is_lazy = False
        if t.text == 'lazy':
            is_lazy = True
            t = self.next()
        is_var = t.text == 'var'
        name = self.peek()
        if name.kind != 'id':
            self.fail('pattern definition `val (a, b) = ...` is outside the subset')
        self.next()
        if self.at('punct', ','):
            self.fail('multiple definition `val a, b = ...` is outside the subset')
        ty = None
        if self.at('op', ':'):
            self.next()
            ty = self.parse_type(('=',))
        self.expect('op', '=')
        rhs = self.parse_expr()
        return Node('ValDef', t.line, name=name.text, ty=ty, rhs=rhs, is_var=is_var,
                    is_lazy=is_lazy)

    def parse_def(self):
        """def name(params): T = body   (one parameter list, no type parameters)"""
        d = self.expect('kw', 'def')
        n = self.next()
        if n.kind not in ('id', 'op'):
            self.fail('expected function name', n)
        decl = FuncDecl(n.text, [], {}, None, None, d.line, d.line)
        if self.at('punct', '['):
            self.fail('type parameters are outside the subset')
        nlists = 0
        while self.at('punct', '(') and not self.peek().nl:
            nlists += 1
            if nlists > 1:
                self.fail('multiple parameter lists are outside the subset')
            self.next()
            while not self.at('punct', ')'):
                if self.at('kw', 'implicit'):
                    self.fail('implicit parameters are outside the subset')
                if self.at('op', '@'):
                    self.fail('annotated parameter')
                p = self.expect('id')
                self.expect('op', ':')
                byname = False
                if self.at('op', '=>'):
                    self.next()
                    byname = True
                ty = self.parse_type((',', ')', '='))
                if ty.endswith('*'):
                    self.fail('vararg parameter')
                decl.params.append((p.text, ('=> ' if byname else '') + ty))
                if self.at('op', '='):
                    self.next()
                    decl.defaults[p.text] = self.parse_expr()
                if self.at('punct', ','):
                    self.next()
                elif not self.at('punct', ')'):
                    self.fail('expected , or ) in parameter list but found %r' % self.peek().text)
            self.next()
        if self.at('op', ':'):
            self.next()
            decl.ret = self.parse_type(('=', '{'))
        if self.at('op', '='):
            self.next()
            if self.at('id', 'macro') or self.at('op', '???'):
                self.fail('macro / ??? body')
            decl.body = self.parse_expr()
            decl.last_line = self.toks[self.pos - 1].line
        elif self.at('punct', '{') and not self.peek().nl:
            self.fail('procedure syntax `def f() { ... }` is outside the subset')
        else:
            decl.problem = 'abstract (no body)'
        return decl

    def parse_match(self, scrut, line):
        self.expect('punct', '{')
        cases = []
        if not self.at('kw', 'case'):
            self.fail("expected 'case'")
        while self.at('kw', 'case'):
            c = self.next()
            pats = [self.parse_pattern()]
            while self.at('op', '|'):
                self.next()
                pats.append(self.parse_pattern())
            if self.at('kw', 'if'):
                self.fail('pattern guard is outside the subset')
            self.expect('op', '=>')
            stmts = self.parse_stmts(('}',), stop_at_case=True)
            cases.append((pats, Node('Block', c.line, stmts=stmts)))
        self.expect('punct', '}')
        return Node('Match', line, scrut=scrut, cases=cases)

    def parse_pattern(self):
        t = self.next()
        if t.kind == 'kw' and t.text == '_':
            if self.at('op', ':'):
                self.fail('typed pattern is outside the subset')
            return '_'
        if t.kind == 'int':
            if t.value > 2147483647:
                self.fail('Int literal out of range', t)
            return t.value
        if t.kind == 'op' and t.text == '-' and self.at('int'):
            return i32(-self.next().value)
        self.fail('pattern %r is outside the subset (only Int literals, | and _)' % t.text, t)


# ----------------------------------------------------------------------------------------------
# Loaded program: objects, functions, name resolution
# ----------------------------------------------------------------------------------------------

class ScFunc:
    """A function of a loaded object (``def`` member).

    name         simple name            qualname   'Obj.key' (key as in ScObject.funcs)
    obj          owning ScObject        params     [(name, type string)]
    defaults     {param name: AST}      ret        type string or None
    body         AST or None            file, first_line, last_line
    in_subset    True iff the function can be translated to z3 (``sym``) without stubs
    reason       why not (None when in_subset)
    concrete_ok  True iff the function can be evaluated concretely (``eval``); this is a
                 superset of in_subset: Double arithmetic and recursion are concrete-only
    concrete_reason
    self_param   name of the implicit receiver for methods lifted from a value class, else None
    """

    def __init__(self, obj, decl, file, self_param=None):
        self.obj = obj
        self.decl = decl
        self.name = decl.name
        self.key = decl.name
        self.params = list(decl.params)
        self.defaults = dict(decl.defaults)
        self.ret = decl.ret
        self.body = decl.body
        self.file = file
        self.first_line = decl.first_line
        self.last_line = decl.last_line
        self.self_param = self_param
        self.in_subset = False
        self.reason = None
        self.concrete_ok = False
        self.concrete_reason = None
        # filled by the static checker
        self.local_issue = decl.problem
        self.double_line = None
        self.callees = []
        self.val_refs = []           # (owner ScObject, val name, line)
        self.recursive_line = None   # line of a recursive call of a nested def
        self.sym_issue = None        # failure of the trial translation (functions on a cycle)
        self.param_kinds = []
        self.ret_kind = None

    @property
    def qualname(self):
        return '%s.%s' % (self.obj.name, self.key)

    @property
    def arity(self):
        return len(self.params)

    def __repr__(self):
        return '<ScFunc %s(%s)%s>' % (self.qualname, ', '.join('%s: %s' % p for p in self.params),
                                      '' if self.in_subset else ' [not in subset]')

    # -- evaluation entry points ---------------------------------------------------------------
    def eval(self, *args, **kwargs):
        """Concrete evaluation with JVM semantics.  Int arguments are Python ints (wrapped to 32
        bits), Boolean arguments Python bools, Double arguments floats, sequences lists/tuples of
        ints.  Returns int / bool / float / tuple / None (Unit).  Raises ScThrow when the Scala
        code throws and ScUnsupported when the function is outside the subset."""
        if not self.concrete_ok:
            raise ScUnsupported('%s: %s' % (self.qualname, self.concrete_reason))
        ev = ConcreteEval(self.obj.universe)
        vals = [(None, _to_concrete(a)) for a in args] + \
               [(k, _to_concrete(v)) for k, v in kwargs.items()]
        old = sys.getrecursionlimit()
        try:
            sys.setrecursionlimit(max(old, 20000))
            return ev.call_func(self, vals, self.first_line)
        except RecursionError:
            raise ScUnsupported('%s: recursion too deep for the concrete evaluator'
                                % self.qualname, self.first_line, self.file)
        finally:
            sys.setrecursionlimit(old)

    def sym_unsupported(self, stubs=None):
        """None if ``sym`` can translate this function given ``stubs``, else the reason."""
        u = self.obj.universe
        why = u.status(self, 'sym', frozenset(stubs or ()))
        if why is None and self in u.cyclic_funcs:
            why = u.trial_translation(self, dict(stubs or {}))
        return why

    def sym(self, *args, stubs=None, **kwargs):
        """Symbolic evaluation.  Arguments are z3 BitVec(32) / Bool terms (Python ints / bools are
        lifted to constants).  ``stubs`` maps a callee's qualname to a callable
        ``stub(*z3_args) -> SymResult`` used INSTEAD of inlining that callee (e.g. an ScUFStub or
        a contract).  Returns SymResult(value, throws)."""
        stubs = dict(stubs or {})
        why = self.obj.universe.status(self, 'sym', frozenset(stubs))
        if why is not None:
            raise ScUnsupported('%s: %s' % (self.qualname, why))
        ev = SymEval(self.obj.universe, stubs)
        vals = [(None, _to_sym(a)) for a in args] + [(k, _to_sym(v)) for k, v in kwargs.items()]
        v, t = ev.call_func(self, vals, self.first_line, top=True)
        if v is BOTTOM:
            # the function throws on every input: the value is irrelevant but must have a sort
            v = _bottom_default(self.ret_kind)
        if v is UNIT:
            v = None
        return SymResult(v, _as_bool_term(t))


class SymResult:
    """value: z3 BitVec(32) term (Int), z3 Bool term (Boolean), SymSeq (sequence) or None (Unit);
    throws: z3 Bool term, true exactly when the Scala code throws.  When throws holds the value
    is meaningless."""

    def __init__(self, value, throws):
        self.value = value
        self.throws = throws

    def __iter__(self):
        return iter((self.value, self.throws))

    def __repr__(self):
        return 'SymResult(value=%s, throws=%s)' % (self.value, self.throws)


class ScObject:
    """A loaded ``object`` (or ``package object``; or the synthetic companion of a value class).

    funcs             key -> ScFunc; key is the name, or 'name/arity' when the name is
                      overloaded ('name/arity#2', ... if even that collides)
    overloads         name -> [ScFunc] in source order
    vals              name -> concrete value (int, bool, float, tuple of ints) of evaluable ``val``s
    unsupported_vals  name -> reason for ``val``s whose initialiser is outside the subset
    types             alias -> type string (``type X = Y`` members)
    value_class       (param name, type string) when instance methods of
                      ``class Name(val p: T) extends AnyVal`` were lifted into this object
    """

    def __init__(self, universe, name, file, first_line, last_line, package, is_package_object):
        self.universe = universe
        self.name = name
        self.file = file
        self.first_line = first_line
        self.last_line = last_line
        self.package = package
        self.is_package_object = is_package_object
        self.funcs = {}
        self.overloads = {}
        self.vals = {}
        self.unsupported_vals = {}
        self.types = {}
        self.value_class = None
        self.val_decls = {}          # name -> (ValDef node or None, problem)
        self.val_order = []
        self.imports = []            # import clauses of the file (dotted strings)
        self.funcs_from_object = False   # a real `object` template was loaded (not only a class)
        self._val_busy = set()

    def __repr__(self):
        return '<ScObject %s: %d funcs, %d vals>' % (self.name, len(self.funcs), len(self.vals))

    def get_val(self, name, line=None):
        """value of a member ``val`` (evaluated once, on demand, in the object's context)"""
        if name in self.vals:
            return self.vals[name]
        if name in self.unsupported_vals:
            raise ScUnsupported('val %s.%s: %s' % (self.name, name, self.unsupported_vals[name]),
                                line, self.file)
        node, problem = self.val_decls[name]
        if problem is None and name in self._val_busy:
            problem = 'cyclic initialisation'
        if problem is None:
            self._val_busy.add(name)
            try:
                ev = ConcreteEval(self.universe)
                ctx = Ctx(self, None)
                v = ev.ev(node.rhs, CEnv(), ctx)
                v = ev.coerce_declared(v, node.ty, ctx, node.line)
                if not isinstance(v, (int, float, tuple)):
                    raise ScUnsupported('value of kind %s' % _ckind(v), node.line)
                self.vals[name] = v
                return v
            except ScUnsupported as e:
                problem = e.reason if e.line is None else 'line %d: %s' % (e.line, e.reason)
            except ScThrow as e:
                problem = 'initialiser throws %s' % e
            except RecursionError:
                problem = 'recursion too deep'
            finally:
                self._val_busy.discard(name)
        self.unsupported_vals[name] = problem
        raise ScUnsupported('val %s.%s: %s' % (self.name, name, problem), line, self.file)


class Ctx:
    """static context of the code being evaluated: the object whose members are in scope and
    the member function being executed (for value-class receivers)"""
    __slots__ = ('obj', 'func')

    def __init__(self, obj, func):
        self.obj = obj
        self.func = func


MEMBER_START = frozenset(['def', 'val', 'var', 'lazy', 'private', 'protected', 'override', 'final',
                          'implicit', 'type', 'object', 'class', 'trait', 'case', 'import',
                          'sealed', 'abstract'])
MODIFIERS = frozenset(['private', 'protected', 'override', 'final', 'implicit', 'sealed',
                       'abstract'])

SEQ_TYPES = frozenset(['Array', 'IndexedSeq', 'ArraySeq', 'Seq'])
# seq-building functions recognised by name (only when not shadowed by a loaded definition)
SEQ_BUILDERS = frozenset(['Array', 'ArraySeq'])
SEQ_HOF = frozenset(['map', 'forall', 'exists', 'count', 'foreach'])


def _find_close(toks, i):
    """index of the bracket matching the opening bracket toks[i]"""
    depth = 0
    while True:
        t = toks[i]
        if t.kind == 'punct' and t.text in '([{':
            depth += 1
        elif t.kind == 'punct' and t.text in ')]}':
            depth -= 1
            if depth == 0:
                return i
        elif t.kind == 'eof':
            raise ScUnsupported('unbalanced brackets', t.line)
        i += 1


class Universe:
    """all loaded objects plus the static analysis results"""

    def __init__(self, type_aliases=None):
        self.objects = {}
        self.type_aliases = dict(type_aliases or {})
        self.value_classes = {}      # class name -> (ScObject, param name, type string)
        self._status_cache = {}
        self._cyclic = None
        self.cyclic_funcs = set()    # functions on a cycle of the call graph

    # -- loading -------------------------------------------------------------------------------
    def load_text(self, text, file):
        toks = tokenize(text, file)
        self._scan(toks, 0, len(toks) - 1, '', [], file)

    def _scan(self, toks, i, end, pkg, imports, file):
        while i < end:
            t = toks[i]
            if t.kind == 'kw' and t.text == 'package':
                if toks[i + 1].kind == 'kw' and toks[i + 1].text == 'object':
                    i = self._load_object(toks, i + 1, pkg, imports, file, True)
                    continue
                j = i + 1
                parts = []
                while toks[j].kind == 'id':
                    parts.append(toks[j].text)
                    j += 1
                    if toks[j].kind == 'punct' and toks[j].text == '.':
                        j += 1
                    else:
                        break
                name = '.'.join(parts)
                if toks[j].kind == 'punct' and toks[j].text == '{' and not toks[j].nl:
                    close = _find_close(toks, j)
                    self._scan(toks, j + 1, close, (pkg + '.' + name).strip('.'), list(imports),
                               file)
                    i = close + 1
                else:
                    pkg = (pkg + '.' + name).strip('.')
                    i = j
            elif t.kind == 'kw' and t.text == 'import':
                i = self._load_import(toks, i, imports)
            elif t.kind == 'kw' and t.text == 'object':
                i = self._load_object(toks, i, pkg, imports, file, False)
            elif t.kind == 'kw' and t.text in ('class', 'trait'):
                i = self._load_class(toks, i, pkg, imports, file)
            else:
                i += 1

    def _load_import(self, toks, i, imports):
        """import a.b.c / a.b._ / a.b.{x, y}: recorded as dotted strings ('a.b._', 'a.b.x')"""
        i += 1
        while True:
            parts = []
            while True:
                t = toks[i]
                if t.kind in ('id', 'kw') and not (t.kind == 'kw' and t.text not in ('_', 'type',
                                                                                       'this')):
                    parts.append(t.text)
                    i += 1
                elif t.kind == 'punct' and t.text == '{':
                    close = _find_close(toks, i)
                    prefix = '.'.join(parts)
                    for k in range(i + 1, close):
                        if toks[k].kind in ('id', 'kw') and not (
                                toks[k - 1].kind == 'op' and toks[k - 1].text == '=>'):
                            imports.append(prefix + '.' + toks[k].text)
                    parts = None
                    i = close + 1
                    break
                else:
                    break
                if toks[i].kind == 'punct' and toks[i].text == '.':
                    i += 1
                else:
                    break
            if parts:
                imports.append('.'.join(parts))
            if toks[i].kind == 'punct' and toks[i].text == ',' and not toks[i].nl:
                i += 1
                continue
            return i

    def _new_object(self, name, file, first, last, pkg, imports, is_pkg_obj, tok_line):
        if name in self.objects:
            old = self.objects[name]
            raise ScUnsupported('object %s defined twice (%s:%d and here); scvc identifies objects '
                                'by simple name' % (name, old.file, old.first_line), tok_line, file)
        o = ScObject(self, name, file, first, last, pkg, is_pkg_obj)
        o.imports = imports            # shared list: imports of the whole file
        self.objects[name] = o
        return o

    def _load_object(self, toks, i, pkg, imports, file, is_pkg_obj):
        """toks[i] is 'object'.  Returns the index after the object."""
        name = toks[i + 1]
        if name.kind != 'id':
            raise ScUnsupported('expected object name', name.line, file)
        # find the template body '{' (skipping an `extends X(args) with Y` clause)
        j = i + 2
        depth = 0
        body = None
        while True:
            t = toks[j]
            if t.kind == 'eof':
                break
            if depth == 0 and t.nl and t.kind == 'kw' and t.text in MEMBER_START:
                break
            if t.kind == 'punct' and t.text in '([':
                depth += 1
            elif t.kind == 'punct' and t.text in ')]':
                depth -= 1
            elif t.kind == 'punct' and t.text == '{' and depth == 0:
                body = j
                break
            elif t.kind == 'punct' and t.text == '}' and depth == 0:
                break
            j += 1
        if body is None:
            self._new_object(name.text, file, toks[i].line, name.line, pkg, imports, is_pkg_obj,
                             name.line)
            return j
        close = _find_close(toks, body)
        if name.text in self.objects and self.objects[name.text].value_class is not None \
                and not self.objects[name.text].funcs_from_object:
            obj = self.objects[name.text]          # companion of an already loaded value class
            obj.first_line, obj.last_line = toks[i].line, toks[close].line
            obj.funcs_from_object = True
        else:
            obj = self._new_object(name.text, file, toks[i].line, toks[close].line, pkg, imports,
                                   is_pkg_obj, name.line)
            obj.funcs_from_object = True
        self._load_members(toks, body + 1, close, obj, file, None)
        return close + 1

    def _load_class(self, toks, i, pkg, imports, file):
        """toks[i] is 'class' or 'trait'.  Only value classes
        ``class C(val p: T) extends AnyVal { defs }`` contribute anything: their methods are
        lifted to functions ``C.m(p, ...)``.  Everything else is skipped."""
        kind = toks[i].text
        name = toks[i + 1]
        j = i + 2
        depth = 0
        body = None
        header_start = j
        while True:
            t = toks[j]
            if t.kind == 'eof':
                break
            if depth == 0 and t.nl and t.kind == 'kw' and t.text in MEMBER_START:
                break
            if t.kind == 'punct' and t.text in '([':
                depth += 1
            elif t.kind == 'punct' and t.text in ')]':
                depth -= 1
            elif t.kind == 'punct' and t.text == '{' and depth == 0:
                body = j
                break
            elif t.kind == 'punct' and t.text == '}' and depth == 0:
                break
            j += 1
        if body is None:
            return j
        close = _find_close(toks, body)
        hdr = toks[header_start:body]
        texts = [t.text for t in hdr]
        # exactly:  ( [private] val p : T ) extends AnyVal
        if kind == 'class' and texts and texts[0] == '(' and texts[-2:] == ['extends', 'AnyVal']:
            inner = texts[1:-3]
            if inner and inner[0] == 'private':
                inner = inner[1:]
            if len(inner) >= 4 and inner[0] == 'val' and inner[2] == ':' and \
                    texts[-3] == ')' and ',' not in inner:
                pname, pty = inner[1], ''.join(inner[3:])
                obj = self.objects.get(name.text)
                if obj is None:
                    obj = self._new_object(name.text, file, toks[i].line, toks[close].line, pkg,
                                           imports, False, name.line)
                    obj.funcs_from_object = False
                obj.value_class = (pname, pty)
                self.value_classes[name.text] = (obj, pname, pty)
                self._load_members(toks, body + 1, close, obj, file, (pname, pty))
        return close + 1

    def _load_members(self, toks, start, end, obj, file, self_param):
        """split the template body toks[start:end] into members and parse each one on its own,
        so that a member outside the subset cannot disturb its neighbours.  A member starts at a
        definition keyword / modifier / annotation that is the first token of a line (or follows
        ';') at bracket depth 0; inside an expression those keywords cannot occur at depth 0."""
        starts = []
        depth = 0
        for k in range(start, end):
            t = toks[k]
            if depth == 0 and (k == start or t.nl or
                               (toks[k - 1].kind == 'punct' and toks[k - 1].text == ';')):
                prev = toks[k - 1]
                in_member_header = bool(starts) and self._only_modifiers(toks, starts[-1], k)
                if ((t.kind == 'kw' and t.text in MEMBER_START) or
                        (t.kind == 'op' and t.text == '@')) and not in_member_header and \
                        not (prev.kind == 'punct' and prev.text == '.'):
                    starts.append(k)
            if t.kind == 'punct' and t.text in '([{':
                depth += 1
            elif t.kind == 'punct' and t.text in ')]}':
                depth -= 1
        if starts and starts[0] != start:
            # leading statements in the template body (object initialiser code)
            obj.unsupported_vals['<init@%d>' % toks[start].line] = \
                'statement in object body is outside the subset'
        if not starts and end > start:
            obj.unsupported_vals['<init@%d>' % toks[start].line] = \
                'statement in object body is outside the subset'
        for n, s in enumerate(starts):
            e = starts[n + 1] if n + 1 < len(starts) else end
            self._load_member(toks, s, e, obj, file, self_param)

    @staticmethod
    def _only_modifiers(toks, a, b):
        """True if toks[a:b] consists only of modifiers / annotations (so toks[b] continues the
        same member, e.g. `@inline\n final\n def f`)"""
        k = a
        while k < b:
            t = toks[k]
            if t.kind == 'kw' and (t.text in MODIFIERS or t.text == 'lazy'):
                k += 1
                if k < b and toks[k].kind == 'punct' and toks[k].text == '[':
                    k = _find_close(toks, k) + 1
            elif t.kind == 'op' and t.text == '@':
                k += 2
                while k < b and toks[k].kind == 'punct' and toks[k].text == '.':
                    k += 2
                if k < b and toks[k].kind == 'punct' and toks[k].text == '(' and not toks[k].nl:
                    k = _find_close(toks, k) + 1
            else:
                return False
        return True

    def _load_member(self, toks, s, e, obj, file, self_param):
        # strip modifiers and annotations
        k = s
        while k < e:
            t = toks[k]
            if t.kind == 'kw' and t.text in MODIFIERS:
                k += 1
                if toks[k].kind == 'punct' and toks[k].text == '[':
                    k = _find_close(toks, k) + 1
            elif t.kind == 'op' and t.text == '@':
                k += 2
                while toks[k].kind == 'punct' and toks[k].text == '.':
                    k += 2
                if toks[k].kind == 'punct' and toks[k].text == '(' and not toks[k].nl:
                    k = _find_close(toks, k) + 1
            else:
                break
        if k >= e:
            return
        t = toks[k]
        first_line, last_line = toks[s].line, toks[e - 1].line
        if t.kind == 'kw' and t.text == 'def':
            name = toks[k + 1].text
            p = Parser(toks, file, k, e)
            try:
                decl = p.parse_def()
                if p.pos != e:
                    raise ScUnsupported('unexpected %r after the function body'
                                        % toks[p.pos].text, toks[p.pos].line, file)
            except ScUnsupported as ex:
                decl = self._signature_only(toks, k, e, file)
                decl.body = None
                decl.problem = str(ex) if ex.line is None else \
                    'line %d: %s' % (ex.line, ex.reason)
            decl.name = name
            decl.first_line, decl.last_line = first_line, last_line
            f = ScFunc(obj, decl, file)
            if self_param is not None:
                f.self_param = self_param[0]
                f.params = [self_param] + f.params
            obj.overloads.setdefault(name, []).append(f)
        elif t.kind == 'kw' and (t.text in ('val', 'var') or
                                 (t.text == 'lazy' and toks[k + 1].text == 'val')):
            nk = k + (2 if t.text == 'lazy' else 1)
            name = toks[nk].text if toks[nk].kind == 'id' else '<pattern@%d>' % t.line
            if self_param is not None:
                return
            p = Parser(toks, file, k, e)
            try:
                node = p.parse_valdef()
                if p.pos != e:
                    raise ScUnsupported('unexpected %r after the initialiser'
                                        % toks[p.pos].text, toks[p.pos].line, file)
                problem = 'var member' if node.is_var else None
                obj.val_decls[name] = (node, problem)
            except ScUnsupported as ex:
                obj.val_decls[name] = (None, str(ex) if ex.line is None else
                                       'line %d: %s' % (ex.line, ex.reason))
            obj.val_order.append(name)
        elif t.kind == 'kw' and t.text == 'type':
            # type X = Y
            if toks[k + 1].kind == 'id' and toks[k + 2].kind == 'op' and toks[k + 2].text == '=':
                p = Parser(toks, file, k + 3, e)
                try:
                    ty = p.parse_type(())
                    if p.pos == e:
                        obj.types[toks[k + 1].text] = ty
                except ScUnsupported:
                    pass
        # nested object / class / trait / import: ignored

    def _signature_only(self, toks, k, e, file):
        """best effort: name and parameter (name, type) pairs of a def whose full parse failed.
        The declaration is marked unsupported by the caller, the result is only for listing."""
        decl = FuncDecl(toks[k + 1].text, [], {}, None, None, toks[k].line, toks[e - 1].line)
        j = k + 2
        if j < e and toks[j].kind == 'punct' and toks[j].text == '[':
            j = _find_close(toks, j) + 1
        if j < e and toks[j].kind == 'punct' and toks[j].text == '(':
            close = _find_close(toks, j)
            depth = 0
            cur = []
            groups = []
            for x in range(j + 1, close):
                t = toks[x]
                if t.kind == 'punct' and t.text in '([{':
                    depth += 1
                elif t.kind == 'punct' and t.text in ')]}':
                    depth -= 1
                if depth == 0 and t.kind == 'punct' and t.text == ',':
                    groups.append(cur)
                    cur = []
                else:
                    cur.append(t)
            if cur:
                groups.append(cur)
            for g in groups:
                texts = [t.text for t in g]
                if ':' in texts:
                    c = texts.index(':')
                    ty = texts[c + 1:]
                    if '=' in ty:
                        ty = ty[:ty.index('=')]
                    decl.params.append((texts[c - 1] if c else '?', ''.join(ty)))
            j = close + 1
            if j < e and toks[j].kind == 'op' and toks[j].text == ':':
                ty = []
                j += 1
                while j < e and not (toks[j].kind == 'op' and toks[j].text == '=') and \
                        not (toks[j].kind == 'punct' and toks[j].text == '{'):
                    ty.append(toks[j].text)
                    j += 1
                decl.ret = ''.join(ty) or None
        return decl

    # -- finishing: keys, static check, vals ---------------------------------------------------
    def finish(self):
        for obj in self.objects.values():
            obj.funcs = {}
            for name, fs in obj.overloads.items():
                if len(fs) == 1:
                    fs[0].key = name
                    obj.funcs[name] = fs[0]
                else:
                    for f in fs:
                        key = '%s/%d' % (name, f.arity)
                        n = 1
                        while key in obj.funcs:
                            n += 1
                            key = '%s/%d#%d' % (name, f.arity, n)
                        f.key = key
                        obj.funcs[key] = f
        checker = Checker(self)
        for obj in self.objects.values():
            for f in obj.funcs.values():
                f.param_kinds = [self.type_kind(ty, obj) for _, ty in f.params]
        for obj in self.objects.values():
            for f in obj.funcs.values():
                checker.check_func(f)
        # Functions and vals depend on each other (a val initialiser calls functions, a function
        # reads vals).  1. provisional function status ignoring vals, 2. evaluate all vals,
        # 3. a function that reads an unevaluable val is outside the subset, 4. final status.
        self._set_status()
        for obj in self.objects.values():
            for name in obj.val_order:
                try:
                    obj.get_val(name)
                except ScUnsupported:
                    pass
        for obj in self.objects.values():
            for f in obj.funcs.values():
                for (o, name, line) in f.val_refs:
                    if name in o.unsupported_vals and f.local_issue is None:
                        f.local_issue = 'line %d: uses val %s.%s: %s' % (
                            line, o.name, name, o.unsupported_vals[name])
        self._set_status()

    def _set_status(self):
        self._status_cache = {}
        self._cyclic = set()
        for obj in self.objects.values():
            for f in obj.funcs.values():
                f.reason = self.status(f, 'sym', frozenset())
                f.in_subset = f.reason is None
                f.concrete_reason = self.status(f, 'concrete', frozenset())
                f.concrete_ok = f.concrete_reason is None
        cyclic, self._cyclic = self._cyclic, None
        self.cyclic_funcs = cyclic
        failed = False
        for f in cyclic:
            f.sym_issue = None
        for f in cyclic:
            if f.in_subset:
                f.sym_issue = self.trial_translation(f, {})
                failed = failed or f.sym_issue is not None
        if failed:
            # propagate to the callers of the functions whose trial translation failed
            self._status_cache = {}
            for obj in self.objects.values():
                for f in obj.funcs.values():
                    f.reason = self.status(f, 'sym', frozenset())
                    f.in_subset = f.reason is None

    def trial_translation(self, f, stubs):
        """translate ``f`` on fresh symbolic arguments; the reason of failure or None"""
        args = []
        for (p, _ty), k in zip(f.params, f.param_kinds):
            if k == 'int':
                args.append((None, z3.BitVec('trial!' + p, 32)))
            elif k == 'bool':
                args.append((None, z3.Bool('trial!' + p)))
            else:
                return None          # cannot fabricate a sequence: leave the static answer
        try:
            SymEval(self, stubs).call_func(f, args, f.first_line, top=True)
        except ScUnsupported as e:
            return str(e)
        return None

    def status(self, func, mode, stubs, _stack=None):
        """reason why ``func`` cannot be evaluated in ``mode`` ('sym' | 'concrete'), or None.
        Callees named in ``stubs`` (qualnames) are not inspected."""
        key = (func, mode, stubs)
        if key in self._status_cache:
            return self._status_cache[key]
        stack = _stack if _stack is not None else []
        if func in stack:
            # A cycle in the call graph (Call.alleles <-> Call.alleleByIndex).  Concretely that
            # is fine.  Symbolically the translator prunes a recursive call whose path condition
            # is unsatisfiable and refuses otherwise (SymEval.call_func), so the static answer
            # is "no objection"; _set_status then confirms in_subset by a trial translation.
            func_cycle = getattr(self, '_cyclic', None)
            if func_cycle is not None:
                func_cycle.update(stack[stack.index(func):])
            return None
        stack.append(func)
        try:
            why = func.local_issue
            if why is None and mode == 'sym' and not stubs and func.sym_issue is not None:
                why = func.sym_issue
            if why is None and mode == 'sym' and func.double_line is not None:
                why = ('line %d: Double arithmetic / math.sqrt (only concrete evaluation is '
                       'possible)' % func.double_line)
            if why is None and mode == 'sym' and func.recursive_line is not None:
                why = ('line %d: recursive nested def (only concrete evaluation is possible)'
                       % func.recursive_line)
            if why is None:
                for c in func.callees:
                    if c.qualname in stubs:
                        continue
                    sub = self.status(c, mode, stubs, stack)
                    if sub is not None:
                        why = 'calls %s: %s' % (c.qualname, sub)
                        break
        finally:
            stack.pop()
        if not stack:
            # results computed inside a cycle may be incomplete: cache only top-level answers
            self._status_cache[key] = why
        return why

    # -- name resolution (shared by the checker and both evaluators) ---------------------------
    def visible_objects(self, obj):
        """objects whose members are visible unqualified inside ``obj``: itself, the package
        object of its package, and loaded objects that the file wildcard-imports"""
        out = [obj]
        for o in self.objects.values():
            if o is obj or not o.is_package_object:
                continue
            full = (o.package + '.' + o.name).strip('.')
            if full == obj.package or (full + '._') in obj.imports:
                out.append(o)
        for o in self.objects.values():
            if o in out or o.is_package_object:
                continue
            full = (o.package + '.' + o.name).strip('.')
            if (full + '._') in obj.imports:
                out.append(o)
        return out

    def member_funcs(self, obj, name):
        for o in self.visible_objects(obj):
            if name in o.overloads:
                return o.overloads[name]
        return None

    def member_val_owner(self, obj, name):
        for o in self.visible_objects(obj):
            if name in o.val_decls:
                return o
        return None

    def resolve_type(self, ty, obj):
        """expand aliases (``type Call = Int``) visible from ``obj``"""
        for _ in range(8):
            nxt = None
            for o in self.visible_objects(obj):
                if ty in o.types:
                    nxt = o.types[ty]
                    break
            if nxt is None and ty in self.type_aliases:
                nxt = self.type_aliases[ty]
            if nxt is None and ty in self.value_classes:
                nxt = self.value_classes[ty][2]
            if nxt is None:
                return ty
            ty = nxt
        return ty

    def type_kind(self, ty, obj):
        """'int' 'bool' 'double' 'unit' 'seq' 'nothing', or None for every other type"""
        if ty is None:
            return None
        ty = self.resolve_type(ty, obj)
        simple = {'Int': 'int', 'Boolean': 'bool', 'Double': 'double', 'Unit': 'unit',
                  'Nothing': 'nothing', 'scala.Int': 'int', 'scala.Boolean': 'bool'}
        if ty in simple:
            return simple[ty]
        if ty.endswith(']') and '[' in ty:
            head, elem = ty[:ty.index('[')], ty[ty.index('[') + 1:-1]
            if head in SEQ_TYPES and self.resolve_type(elem, obj) == 'Int':
                return 'seq'
        return None

    def has_rich_boolean(self, obj):
        """Boolean.toInt exists only through Hail's implicit RichBoolean: demand the import"""
        return any(i.endswith('.toRichBoolean') or i.endswith('.implicits._')
                   for i in obj.imports)

    def resolve_apply(self, obj, fn, is_local):
        """classify the callee of ``fn(args)`` seen from object ``obj``.  Returns one of
            ('value',)            fn is an expression yielding a sequence / closure: apply it
            ('func', [ScFunc])    call of a loaded function (overload candidates)
            ('builtin', name)     fatal / require / assert
            ('seqlit', name)      Array(...) / ArraySeq(...)
            ('math', name)        math.sqrt / Math.sqrt
            ('method', name)      method call on the value of fn.obj
        Scala scoping order: locals, members (own object, package object, wildcard imports),
        then objects of the package, then the few recognised library names."""
        line = fn.line
        if fn.kind == 'Ident':
            n = fn.name
            if is_local(n):
                return ('value',)
            fs = self.member_funcs(obj, n)
            if fs:
                return ('func', list(fs))
            if self.member_val_owner(obj, n) is not None:
                return ('value',)
            if n in self.objects:
                ap = [f for f in self.objects[n].overloads.get('apply', [])
                      if f.self_param is None]
                if ap:
                    return ('func', ap)
                raise ScUnsupported('object %s has no apply method' % n, line, obj.file)
            if n in ('fatal', 'require', 'assert'):
                return ('builtin', n)
            if n in SEQ_BUILDERS:
                return ('seqlit', n)
            raise ScUnsupported('call to unknown function %s' % n, line, obj.file)
        if fn.kind == 'Select':
            q = fn.obj
            if q.kind == 'Ident' and not is_local(q.name) and \
                    self.member_val_owner(obj, q.name) is None and \
                    not self.member_funcs(obj, q.name):
                o = q.name
                if o in self.objects:
                    O = self.objects[o]
                    fs = [f for f in O.overloads.get(fn.name, []) if f.self_param is None]
                    if fs:
                        return ('func', fs)
                    if fn.name in O.val_decls:
                        return ('value',)
                    raise ScUnsupported('object %s has no member %s' % (o, fn.name), line,
                                        obj.file)
                if o in ('math', 'Math'):
                    if fn.name == 'sqrt':
                        return ('math', 'sqrt')
                    raise ScUnsupported('%s.%s is outside the subset (only sqrt is reproduced '
                                        'bit-exactly)' % (o, fn.name), line, obj.file)
                raise ScUnsupported('unknown object or value %s' % o, line, obj.file)
            return ('method', fn.name)
        if fn.kind == 'TypeApply':
            raise ScUnsupported('explicit type arguments are outside the subset', line, obj.file)
        return ('value',)

    def value_class_methods(self, name):
        """lifted value-class methods called ``name`` over all loaded value classes"""
        out = []
        for (o, _p, _t) in self.value_classes.values():
            out.extend(f for f in o.overloads.get(name, []) if f.self_param is not None)
        return out


def arity_ok(func, args, implicit_self=False):
    """can ``args`` (list of (name | None, x)) be bound to the parameters of ``func``?"""
    params = [p for p, _ in func.params]
    if implicit_self:
        params = params[1:]
    pos = [a for a in args if a[0] is None]
    named = [a[0] for a in args if a[0] is not None]
    if len(pos) + len(named) > len(params):
        return False
    bound = set(params[:len(pos)])
    for n in named:
        if n not in params or n in bound:
            return False
        bound.add(n)
    return all(p in bound or p in func.defaults for p in params)


# ----------------------------------------------------------------------------------------------
# Static checker: decides in_subset / concrete_ok before anything is evaluated
# ----------------------------------------------------------------------------------------------

class Checker:
    """Walks a function body once and records
         local_issue   first construct outside the subset (with its line), or None
         double_line   first line that needs Double arithmetic, or None
         callees       loaded functions that may be called (all arity-compatible overloads)
         val_refs      member vals that are read
    Kinds of values are not tracked statically; the evaluators check them at run time and raise
    ScUnsupported on any mismatch."""

    def __init__(self, universe):
        self.u = universe

    def check_func(self, f):
        self.f, self.obj = f, f.obj
        self.issue, self.double = f.decl.problem, None
        self.callees, self.val_refs = [], []
        self.nested_stack = []
        f.recursive_line = None
        f.param_kinds = [self.u.type_kind(ty, f.obj) for _, ty in f.params]
        f.ret_kind = self.u.type_kind(f.ret, f.obj) if f.ret is not None else None
        if self.issue is None:
            for (p, ty), k in zip(f.params, f.param_kinds):
                if k not in ('int', 'bool', 'double', 'seq'):
                    self.flag('parameter %s: type %s is outside the subset' % (p, ty),
                              f.first_line)
                if k == 'double':
                    self.need_double(f.first_line)
            if f.ret is not None:
                if f.ret_kind is None:
                    self.flag('return type %s is outside the subset' % f.ret, f.first_line)
                if f.ret_kind == 'double':
                    self.need_double(f.first_line)
            scopes = [{p: 'val' for p, _ in f.params}]
            for d in f.defaults.values():
                self.walk(d, scopes)
            if f.body is not None:
                self.walk(f.body, scopes)
        f.local_issue = self.issue
        f.double_line = self.double
        f.callees = self.callees
        f.val_refs = self.val_refs

    def flag(self, msg, line):
        if self.issue is None:
            self.issue = 'line %d: %s' % (line, msg)

    def need_double(self, line):
        if self.double is None:
            self.double = line

    def add_callees(self, fs):
        for c in fs:
            if c not in self.callees:
                self.callees.append(c)

    @staticmethod
    def lookup(scopes, name):
        for s in reversed(scopes):
            if name in s:
                return s[name]
        return None

    def walk_msg_args(self, args, scopes):
        """arguments of fatal / require / assert / new Exception: String literals are messages
        and are not evaluated (see ConcreteEval.message_args)"""
        for _, a in args:
            if not (a.kind == 'Lit' and a.ty == 'String'):
                self.walk(a, scopes)

    def walk(self, n, scopes):
        k = n.kind
        u, obj = self.u, self.obj
        if k == 'Lit':
            if n.ty == 'Double':
                self.need_double(n.line)
            elif n.ty not in ('Int', 'Boolean', 'Unit'):
                self.flag('%s literal is outside the subset' % n.ty, n.line)
        elif k == 'Ident':
            if self.lookup(scopes, n.name) is not None:
                return
            o = u.member_val_owner(obj, n.name)
            if o is not None:
                self.val_refs.append((o, n.name, n.line))
                return
            fs = u.member_funcs(obj, n.name)
            if fs:
                cands = [f for f in fs if arity_ok(f, [], f.self_param is not None and
                                                   self.f.self_param is not None)]
                if cands:
                    self.add_callees(cands)
                else:
                    self.flag('method value %s is outside the subset here' % n.name, n.line)
                return
            self.flag('unknown identifier %s' % n.name, n.line)
        elif k == 'Placeholder':
            pass
        elif k == 'Select':
            q = n.obj
            if q.kind == 'Ident' and self.lookup(scopes, q.name) is None and \
                    u.member_val_owner(obj, q.name) is None and not u.member_funcs(obj, q.name):
                if q.name in u.objects:
                    O = u.objects[q.name]
                    if n.name in O.val_decls:
                        self.val_refs.append((O, n.name, n.line))
                    else:
                        cands = [f for f in O.overloads.get(n.name, [])
                                 if f.self_param is None and arity_ok(f, [])]
                        if cands:
                            self.add_callees(cands)
                        else:
                            self.flag('%s.%s is not a val or parameterless def'
                                      % (q.name, n.name), n.line)
                elif q.name == 'Int' and n.name in ('MaxValue', 'MinValue'):
                    pass
                else:
                    self.flag('unknown object or value %s' % q.name, n.line)
                return
            self.walk(q, scopes)
            if n.name in ('length', 'size', 'toInt'):
                pass
            elif n.name == 'toDouble':
                self.need_double(n.line)
            else:
                ms = [f for f in u.value_class_methods(n.name) if arity_ok(f, [], True)]
                if ms:
                    self.add_callees(ms)
                else:
                    self.flag('member .%s is outside the subset' % n.name, n.line)
        elif k == 'Apply':
            self.walk_apply(n, scopes)
        elif k == 'TypeApply':
            self.flag('explicit type arguments are outside the subset', n.line)
        elif k == 'Unary':
            self.walk(n.e, scopes)
        elif k == 'Binary':
            self.walk(n.l, scopes)
            self.walk(n.r, scopes)
        elif k == 'If':
            self.walk(n.c, scopes)
            self.walk(n.t, scopes)
            if n.e is not None:
                self.walk(n.e, scopes)
        elif k == 'Block':
            scopes.append({})
            for s in n.stmts:
                self.walk(s, scopes)
            scopes.pop()
        elif k == 'ValDef':
            if n.is_lazy:
                self.flag('local lazy val is outside the subset', n.line)
            if n.ty is not None:
                kind = u.type_kind(n.ty, obj)
                if kind not in ('int', 'bool', 'double', 'seq'):
                    self.flag('type %s is outside the subset' % n.ty, n.line)
                if kind == 'double':
                    self.need_double(n.line)
            self.walk(n.rhs, scopes)
            scopes[-1][n.name] = 'var' if n.is_var else 'val'
        elif k == 'Assign':
            if self.lookup(scopes, n.name) != 'var':
                self.flag('assignment to %s, which is not a local var' % n.name, n.line)
            self.walk(n.rhs, scopes)
        elif k == 'DefDef':
            d = n.decl
            scopes[-1][d.name] = 'def'
            if d.problem:
                self.flag('nested def %s: %s' % (d.name, d.problem), n.line)
                return
            for p, ty in d.params:
                kind = u.type_kind(ty, obj)
                if kind not in ('int', 'bool', 'double', 'seq'):
                    self.flag('parameter %s: type %s is outside the subset' % (p, ty), n.line)
                if kind == 'double':
                    self.need_double(n.line)
            if d.ret is not None:
                kind = u.type_kind(d.ret, obj)
                if kind is None:
                    self.flag('return type %s is outside the subset' % d.ret, n.line)
                if kind == 'double':
                    self.need_double(n.line)
            self.nested_stack.append(d.name)
            scopes.append({p: 'val' for p, _ in d.params})
            for dflt in d.defaults.values():
                self.walk(dflt, scopes)
            self.walk(d.body, scopes)
            scopes.pop()
            self.nested_stack.pop()
        elif k == 'Match':
            self.walk(n.scrut, scopes)
            for _pats, body in n.cases:
                self.walk(body, scopes)
        elif k == 'Throw':
            if n.e.kind != 'New':
                self.flag('throw of something other than `new X(...)`', n.line)
            else:
                self.walk_msg_args(n.e.args, scopes)
        elif k == 'New':
            if n.cls in u.value_classes and len(n.args) == 1 and n.args[0][0] is None:
                self.walk(n.args[0][1], scopes)
            else:
                self.flag('object creation `new %s` is outside the subset' % n.cls, n.line)
        elif k == 'Lambda':
            scopes.append({p: 'val' for p in n.params})
            self.walk(n.body, scopes)
            scopes.pop()
        else:
            self.flag('%s is outside the subset' % k, n.line)

    def walk_fn_arg(self, a, scopes):
        """argument of map / forall / ...: a lambda or a method value such as AllelePair.j"""
        if a.kind == 'Lambda':
            self.walk(a, scopes)
            return
        try:
            fs = method_value(self.u, self.obj, a, lambda nm: self.lookup(scopes, nm) is not None)
        except ScUnsupported as e:
            self.flag(e.reason, a.line)
            return
        if fs is None:
            self.walk(a, scopes)       # a local closure
        else:
            self.add_callees(fs)

    def walk_apply(self, n, scopes):
        u, obj = self.u, self.obj
        is_local = lambda nm: self.lookup(scopes, nm) is not None
        try:
            r = u.resolve_apply(obj, n.fn, is_local)
        except ScUnsupported as e:
            self.flag(e.reason, n.line)
            return
        tag = r[0]
        if tag == 'value':
            if n.fn.kind == 'Ident' and self.lookup(scopes, n.fn.name) == 'def' and \
                    n.fn.name in self.nested_stack:
                # recursion of a nested def: fine concretely, impossible symbolically
                if self.f.recursive_line is None:
                    self.f.recursive_line = n.line
            self.walk(n.fn, scopes)
            for _, a in n.args:
                self.walk(a, scopes)
        elif tag == 'func':
            implicit = self.f.self_param is not None and n.fn.kind == 'Ident'
            cands = [f for f in r[1]
                     if arity_ok(f, n.args, implicit and f.self_param is not None)]
            if not cands:
                self.flag('no overload of %s takes these arguments' % r[1][0].name, n.line)
            # An overload with a parameter type outside the subset (java.util.List[Int]) can
            # never be the target: no expression of the subset has such a type.  The evaluators
            # apply the same rule on the kinds of the actual argument values (see pick).
            typed = [f for f in cands if all(k is not None for k in f.param_kinds)]
            if len(cands) > 1 and typed:
                cands = typed
            self.add_callees(cands)
            for _, a in n.args:
                self.walk(a, scopes)
        elif tag == 'builtin':
            if not n.args:
                self.flag('%s without arguments' % r[1], n.line)
            self.walk_msg_args(n.args, scopes)
        elif tag == 'seqlit':
            for nm, a in n.args:
                if nm is not None:
                    self.flag('named argument in %s(...)' % r[1], n.line)
                self.walk(a, scopes)
        elif tag == 'math':
            self.need_double(n.line)
            if len(n.args) != 1:
                self.flag('math.sqrt takes one argument', n.line)
            for _, a in n.args:
                self.walk(a, scopes)
        elif tag == 'method':
            self.walk(n.fn.obj, scopes)
            m = r[1]
            if m in SEQ_HOF:
                if len(n.args) != 1 or n.args[0][0] is not None:
                    self.flag('.%s takes one function argument' % m, n.line)
                else:
                    self.walk_fn_arg(n.args[0][1], scopes)
            elif m == 'apply':
                for _, a in n.args:
                    self.walk(a, scopes)
            else:
                ms = [f for f in u.value_class_methods(m) if arity_ok(f, n.args, True)]
                if ms:
                    self.add_callees(ms)
                    for _, a in n.args:
                        self.walk(a, scopes)
                else:
                    self.flag('method .%s(...) is outside the subset' % m, n.line)


def method_value(universe, obj, node, is_local):
    """``AllelePair.j`` / ``f`` used as a function value: the one-parameter candidates, or None
    when ``node`` is not a reference to a loaded function (e.g. a local closure)."""
    if node.kind == 'Ident':
        if is_local(node.name):
            return None
        fs = universe.member_funcs(obj, node.name)
        if not fs:
            raise ScUnsupported('unknown function value %s' % node.name, node.line, obj.file)
    elif node.kind == 'Select' and node.obj.kind == 'Ident' and not is_local(node.obj.name) \
            and node.obj.name in universe.objects:
        fs = universe.objects[node.obj.name].overloads.get(node.name)
        if not fs:
            raise ScUnsupported('unknown function value %s.%s' % (node.obj.name, node.name),
                                node.line, obj.file)
    else:
        raise ScUnsupported('function argument must be a lambda or a method value', node.line,
                            obj.file)
    fs = [f for f in fs if f.self_param is None and f.arity == 1]
    if len(fs) != 1:
        raise ScUnsupported('method value does not denote exactly one unary function',
                            node.line, obj.file)
    return fs


# ----------------------------------------------------------------------------------------------
# Values shared by the evaluators
# ----------------------------------------------------------------------------------------------

class _Sentinel:
    def __init__(self, name):
        self.name = name

    def __repr__(self):
        return self.name


SC_STRING = _Sentinel('<string>')   # an (unevaluated) String; only legal as a message argument
UNIT = _Sentinel('()')              # symbolic evaluator: the Unit value
BOTTOM = _Sentinel('<nothing>')     # symbolic evaluator: "this expression always throws"


class Closure:
    """a lambda or a nested def together with its defining environment"""

    def __init__(self, name, params, kinds, defaults, ret_kind, body, scopes, ctx, line):
        self.name = name
        self.params = params          # parameter names
        self.kinds = kinds            # kinds or None (lambda: unchecked)
        self.defaults = defaults
        self.ret_kind = ret_kind
        self.body = body
        self.scopes = scopes          # captured scope chain (shared, not copied)
        self.ctx = ctx
        self.line = line


class FuncRef:
    """a method value such as ``AllelePair.j``"""

    def __init__(self, func):
        self.func = func


def bind_args(names, defaults, args, line, what):
    """bind call arguments (list of (name | None, value)) to parameter names.  Returns
    (bound dict, list of parameter names that must take their default)."""
    bound = {}
    pos = [v for nm, v in args if nm is None]
    if len(pos) > len(names):
        raise ScUnsupported('too many arguments for %s' % what, line)
    for nm, v in zip(names, pos):
        bound[nm] = v
    for nm, v in args:
        if nm is None:
            continue
        if nm not in names or nm in bound:
            raise ScUnsupported('bad named argument %s for %s' % (nm, what), line)
        bound[nm] = v
    missing = [nm for nm in names if nm not in bound]
    for nm in missing:
        if nm not in defaults:
            raise ScUnsupported('missing argument %s for %s' % (nm, what), line)
    return bound, missing


# ----------------------------------------------------------------------------------------------
# Concrete evaluator (JVM semantics on Python values)
# ----------------------------------------------------------------------------------------------

INT_MIN, INT_MAX = -2147483648, 2147483647


def _ckind(v):
    if type(v) is bool:
        return 'bool'
    if type(v) is int:
        return 'int'
    if type(v) is float:
        return 'double'
    if type(v) is tuple:
        return 'seq'
    if v is None:
        return 'unit'
    if v is SC_STRING:
        return 'string'
    if isinstance(v, (Closure, FuncRef)):
        return 'function'
    return 'unknown'


def _to_concrete(a):
    if type(a) is bool or type(a) is float:
        return a
    if type(a) is int:
        return i32(a)
    if isinstance(a, (list, tuple)):
        if not all(type(x) is int for x in a):
            raise TypeError('sequence arguments must contain ints')
        return tuple(i32(x) for x in a)
    raise TypeError('unsupported argument %r' % (a,))


def d2i(x):
    """JVM d2i: NaN -> 0, saturating, truncation toward zero"""
    if x != x:
        return 0
    if x >= 2147483647.0:
        return INT_MAX
    if x <= -2147483648.0:
        return INT_MIN
    return int(x)


def _jdiv_double(a, b):
    if b == 0.0:
        if a == 0.0 or a != a:
            return float('nan')
        neg = (math.copysign(1.0, a) < 0) != (math.copysign(1.0, b) < 0)
        return float('-inf') if neg else float('inf')
    return a / b


class CEnv:
    """scope chain of the concrete evaluator: name -> [value, is_var].  Scopes below ``base``
    were captured by a closure; vars in them may not be touched (see Closure)."""

    def __init__(self, scopes=None, base=0):
        self.scopes = scopes if scopes is not None else [{}]
        self.base = base

    def push(self):
        self.scopes.append({})

    def pop(self):
        self.scopes.pop()

    def has(self, name):
        return any(name in s for s in self.scopes)

    def declare(self, name, value, is_var=False):
        self.scopes[-1][name] = [value, is_var]

    def find(self, name, line):
        for i in range(len(self.scopes) - 1, -1, -1):
            cell = self.scopes[i].get(name)
            if cell is not None:
                if cell[1] and i < self.base:
                    raise ScUnsupported('closure refers to the var %s of an enclosing scope'
                                        % name, line)
                return cell
        return None


class ConcreteEval:
    def __init__(self, universe):
        self.u = universe

    # -- helpers -------------------------------------------------------------------------------
    def unsupported(self, msg, line, ctx):
        return ScUnsupported(msg, line, ctx.obj.file if ctx is not None else None)

    def coerce(self, v, kind, what, line, ctx):
        """check a value against a declared kind (Int widens to Double as in Scala)"""
        k = _ckind(v)
        if kind == 'double' and k == 'int':
            return float(v)
        if kind == 'unit':
            return None                      # value discarding
        if kind is None or kind == 'nothing':
            if kind == 'nothing':
                raise self.unsupported('%s of type Nothing produced a value' % what, line, ctx)
            return v
        if k != kind:
            raise self.unsupported('%s: expected %s but got %s' % (what, kind, k), line, ctx)
        return v

    def coerce_declared(self, v, ty, ctx, line):
        if ty is None:
            return v
        kind = self.u.type_kind(ty, ctx.obj)
        if kind is None:
            raise self.unsupported('type %s is outside the subset' % ty, line, ctx)
        return self.coerce(v, kind, 'value of declared type %s' % ty, line, ctx)

    def pick(self, cands, args, line, ctx, implicit_self=False):
        """overload resolution on arity, then on the kinds of the argument values.  Exactly one
        candidate must remain (otherwise refuse: static resolution is not reproduced)."""
        ok = [f for f in cands if arity_ok(f, args, implicit_self and f.self_param is not None)]
        if len(ok) > 1:
            def kinds_match(f):
                skip = 1 if (implicit_self and f.self_param is not None) else 0
                names = [p for p, _ in f.params][skip:]
                kinds = dict(zip(names, f.param_kinds[skip:]))
                pos = [v for nm, v in args if nm is None]
                pairs = list(zip(names, pos)) + [(nm, v) for nm, v in args if nm is not None]
                for nm, v in pairs:
                    want, got = kinds.get(nm), _ckind(v)
                    if want is None or not (want == got or (want == 'double' and got == 'int')):
                        return False
                return True
            ok = [f for f in ok if kinds_match(f)]
        if len(ok) != 1:
            raise self.unsupported('cannot resolve overload of %s (%d candidates match)'
                                   % (cands[0].name, len(ok)), line, ctx)
        return ok[0]

    # -- calls ---------------------------------------------------------------------------------
    def call_func(self, f, args, line, self_value=None):
        if not f.concrete_ok:
            raise ScUnsupported('%s: %s' % (f.qualname, f.concrete_reason), line)
        names = [p for p, _ in f.params]
        if self_value is not None:
            args = [(None, self_value)] + list(args)
        bound, missing = bind_args(names, f.defaults, args, line, f.qualname)
        ctx = Ctx(f.obj, f)
        env = CEnv([{}])
        for nm, kind in zip(names, f.param_kinds):
            if nm in missing:
                v = self.ev(f.defaults[nm], env, ctx)
            else:
                v = bound[nm]
            env.declare(nm, self.coerce(v, kind, 'argument %s of %s' % (nm, f.qualname), line,
                                        ctx))
        v = self.ev(f.body, env, ctx)
        return self.coerce(v, f.ret_kind, 'result of %s' % f.qualname, f.first_line, ctx)

    def call_closure(self, c, args, line):
        bound, missing = bind_args(c.params, c.defaults, args, line, c.name)
        env = CEnv(list(c.scopes) + [{}], base=len(c.scopes))
        for i, nm in enumerate(c.params):
            v = self.ev(c.defaults[nm], env, c.ctx) if nm in missing else bound[nm]
            if c.kinds is not None:
                v = self.coerce(v, c.kinds[i], 'argument %s of %s' % (nm, c.name), line, c.ctx)
            env.declare(nm, v)
        v = self.ev(c.body, env, c.ctx)
        if c.ret_kind is not None:
            v = self.coerce(v, c.ret_kind, 'result of %s' % c.name, c.line, c.ctx)
        return v

    def apply_value(self, fv, args, line, ctx):
        k = _ckind(fv)
        if k == 'seq':
            if len(args) != 1 or args[0][0] is not None or _ckind(args[0][1]) != 'int':
                raise self.unsupported('sequence applied to something other than one Int', line,
                                       ctx)
            i = args[0][1]
            if i < 0 or i >= len(fv):
                raise ScThrow('ArrayIndexOutOfBoundsException', str(i), line)
            return fv[i]
        if isinstance(fv, Closure):
            return self.call_closure(fv, args, line)
        if isinstance(fv, FuncRef):
            return self.call_func(fv.func, args, line)
        raise self.unsupported('value of kind %s is not applicable' % k, line, ctx)

    def fn_value(self, node, env, ctx):
        if node.kind == 'Lambda':
            return self.ev(node, env, ctx)
        fs = method_value(self.u, ctx.obj, node, env.has)
        if fs is None:
            v = self.ev(node, env, ctx)
            if not isinstance(v, Closure):
                raise self.unsupported('expected a function value', node.line, ctx)
            return v
        return FuncRef(fs[0])

    def message_args(self, args, env, ctx):
        """message-taking calls (fatal, new X): String literals - including interpolated ones -
        are NOT evaluated (a throw inside `${...}` would still be a throw, only of another
        kind); every other argument is evaluated.  Returns the message text if it is literal."""
        msg = ''
        for i, (_, a) in enumerate(args):
            if a.kind == 'Lit' and a.ty == 'String':
                if i == 0:
                    msg = a.value
            else:
                self.ev(a, env, ctx)
        return msg

    # -- expressions ---------------------------------------------------------------------------
    def ev(self, n, env, ctx):
        return getattr(self, 'ev_' + n.kind)(n, env, ctx)

    def ev_Lit(self, n, env, ctx):
        if n.ty in ('Int', 'Boolean', 'Double'):
            return n.value
        if n.ty == 'Unit':
            return None
        if n.ty == 'String':
            return SC_STRING
        raise self.unsupported('%s literal is outside the subset' % n.ty, n.line, ctx)

    def ev_Placeholder(self, n, env, ctx):
        return env.find(n.name, n.line)[0]

    def ev_This(self, n, env, ctx):
        raise self.unsupported('`this` is outside the subset', n.line, ctx)

    def ev_TypeApply(self, n, env, ctx):
        raise self.unsupported('explicit type arguments are outside the subset', n.line, ctx)

    def ev_Ident(self, n, env, ctx):
        cell = env.find(n.name, n.line)
        if cell is not None:
            return cell[0]
        o = self.u.member_val_owner(ctx.obj, n.name)
        if o is not None:
            return o.get_val(n.name, n.line)
        fs = self.u.member_funcs(ctx.obj, n.name)
        if fs:
            return self.call_member(fs, [], n.line, env, ctx)
        raise self.unsupported('unknown identifier %s' % n.name, n.line, ctx)

    def call_member(self, fs, args, line, env, ctx):
        """unqualified call of a member; inside a lifted value-class method the receiver is
        passed on implicitly to sibling instance methods"""
        implicit = ctx.func is not None and ctx.func.self_param is not None
        f = self.pick(fs, args, line, ctx, implicit)
        if implicit and f.self_param is not None:
            return self.call_func(f, args, line, env.find(ctx.func.self_param, line)[0])
        if f.self_param is not None:
            raise self.unsupported('instance method %s called without receiver' % f.name, line,
                                   ctx)
        return self.call_func(f, args, line)

    def is_object_ref(self, q, env, ctx):
        return (q.kind == 'Ident' and not env.has(q.name) and
                self.u.member_val_owner(ctx.obj, q.name) is None and
                not self.u.member_funcs(ctx.obj, q.name))

    def ev_Select(self, n, env, ctx):
        q = n.obj
        if self.is_object_ref(q, env, ctx):
            if q.name in self.u.objects:
                O = self.u.objects[q.name]
                if n.name in O.val_decls:
                    return O.get_val(n.name, n.line)
                fs = [f for f in O.overloads.get(n.name, []) if f.self_param is None]
                if fs:
                    return self.call_func(self.pick(fs, [], n.line, ctx), [], n.line)
                raise self.unsupported('object %s has no member %s' % (q.name, n.name), n.line,
                                       ctx)
            if q.name == 'Int' and n.name == 'MaxValue':
                return INT_MAX
            if q.name == 'Int' and n.name == 'MinValue':
                return INT_MIN
            raise self.unsupported('unknown object or value %s' % q.name, n.line, ctx)
        return self.member(self.ev(q, env, ctx), n.name, [], n.line, ctx)

    def member(self, v, name, args, line, ctx):
        k = _ckind(v)
        if not args:
            if name in ('length', 'size') and k == 'seq':
                return len(v)
            if name == 'toInt':
                if k == 'int':
                    return v
                if k == 'double':
                    return d2i(v)
                if k == 'bool' and self.u.has_rich_boolean(ctx.obj):
                    return 1 if v else 0          # is.hail.utils.implicits.RichBoolean.toInt
            if name == 'toDouble' and k in ('int', 'double'):
                return float(v)
        if k == 'int':
            ms = [f for f in self.u.value_class_methods(name) if arity_ok(f, args, True)]
            if len(ms) == 1:
                return self.call_func(ms[0], args, line, v)
        raise self.unsupported('member .%s on a value of kind %s is outside the subset'
                               % (name, k), line, ctx)

    def ev_Apply(self, n, env, ctx):
        r = self.u.resolve_apply(ctx.obj, n.fn, env.has)
        tag = r[0]
        if tag == 'value':
            fv = self.ev(n.fn, env, ctx)
            args = [(nm, self.ev(a, env, ctx)) for nm, a in n.args]
            return self.apply_value(fv, args, n.line, ctx)
        if tag == 'func':
            args = [(nm, self.ev(a, env, ctx)) for nm, a in n.args]
            if n.fn.kind == 'Ident':
                return self.call_member(r[1], args, n.line, env, ctx)
            return self.call_func(self.pick(r[1], args, n.line, ctx), args, n.line)
        if tag == 'builtin':
            name = r[1]
            if name == 'fatal':
                raise ScThrow('HailException', self.message_args(n.args, env, ctx), n.line)
            if not n.args or n.args[0][0] is not None:
                raise self.unsupported('%s needs a positional condition' % name, n.line, ctx)
            c = self.ev(n.args[0][1], env, ctx)
            if _ckind(c) != 'bool':
                raise self.unsupported('%s condition is not Boolean' % name, n.line, ctx)
            # the message parameter is by-name: it is only evaluated on failure (and then the
            # call throws anyway)
            if not c:
                msg = n.args[1][1].value if (len(n.args) > 1 and n.args[1][1].kind == 'Lit'
                                             and n.args[1][1].ty == 'String') else ''
                if name == 'require':
                    raise ScThrow('IllegalArgumentException', 'requirement failed: ' + msg,
                                  n.line)
                raise ScThrow('AssertionError', 'assertion failed: ' + msg, n.line)
            return None
        if tag == 'seqlit':
            vals = []
            for nm, a in n.args:
                if nm is not None:
                    raise self.unsupported('named argument in %s(...)' % r[1], n.line, ctx)
                v = self.ev(a, env, ctx)
                if _ckind(v) != 'int':
                    raise self.unsupported('%s(...) element is not an Int' % r[1], a.line, ctx)
                vals.append(v)
            return tuple(vals)
        if tag == 'math':
            if len(n.args) != 1:
                raise self.unsupported('math.sqrt takes one argument', n.line, ctx)
            x = self.ev(n.args[0][1], env, ctx)
            if _ckind(x) not in ('int', 'double'):
                raise self.unsupported('math.sqrt of a non-number', n.line, ctx)
            x = float(x)
            # correctly rounded (IEEE 754) in both java.lang.Math.sqrt and C sqrt
            if x != x:
                return x
            if x < 0.0:
                return float('nan')
            return math.sqrt(x)              # also maps -0.0 to -0.0 and +inf to +inf
        if tag == 'method':
            recv = self.ev(n.fn.obj, env, ctx)
            m = r[1]
            if m in SEQ_HOF:
                if _ckind(recv) != 'seq':
                    raise self.unsupported('.%s on a value of kind %s' % (m, _ckind(recv)),
                                           n.line, ctx)
                if len(n.args) != 1 or n.args[0][0] is not None:
                    raise self.unsupported('.%s takes one function argument' % m, n.line, ctx)
                fv = self.fn_value(n.args[0][1], env, ctx)
                return self.seq_hof(m, recv, fv, n.line, ctx)
            args = [(nm, self.ev(a, env, ctx)) for nm, a in n.args]
            if m == 'apply':
                return self.apply_value(recv, args, n.line, ctx)
            return self.member(recv, m, args, n.line, ctx)
        raise AssertionError(tag)

    def seq_hof(self, m, seq, fv, line, ctx):
        call = lambda x: self.apply_value(fv, [(None, x)], line, ctx)

        def boolean(x):
            b = call(x)
            if _ckind(b) != 'bool':
                raise self.unsupported('.%s needs a Boolean function' % m, line, ctx)
            return b
        if m == 'map':
            out = tuple(call(x) for x in seq)
            if not all(_ckind(x) == 'int' for x in out):
                raise self.unsupported('.map must produce Ints', line, ctx)
            return out
        if m == 'foreach':
            for x in seq:
                call(x)
            return None
        if m == 'forall':
            for x in seq:
                if not boolean(x):
                    return False
            return True
        if m == 'exists':
            for x in seq:
                if boolean(x):
                    return True
            return False
        if m == 'count':
            return i32(sum(1 for x in seq if boolean(x)))
        raise AssertionError(m)

    def ev_Unary(self, n, env, ctx):
        v = self.ev(n.e, env, ctx)
        k = _ckind(v)
        if n.op == '!' and k == 'bool':
            return not v
        if n.op == '-' and k == 'int':
            return i32(-v)
        if n.op == '-' and k == 'double':
            return -v
        if n.op == '+' and k in ('int', 'double'):
            return v
        if n.op == '~' and k == 'int':
            return i32(~v)
        raise self.unsupported('unary %s on a value of kind %s' % (n.op, k), n.line, ctx)

    def ev_Binary(self, n, env, ctx):
        op = n.op
        a = self.ev(n.l, env, ctx)
        if op in ('&&', '||'):
            if _ckind(a) != 'bool':
                raise self.unsupported('%s on a value of kind %s' % (op, _ckind(a)), n.line, ctx)
            if (op == '&&' and not a) or (op == '||' and a):
                return a
            b = self.ev(n.r, env, ctx)
            if _ckind(b) != 'bool':
                raise self.unsupported('%s on a value of kind %s' % (op, _ckind(b)), n.line, ctx)
            return b
        b = self.ev(n.r, env, ctx)
        return self.binop(op, a, b, n.line, ctx)

    def binop(self, op, a, b, line, ctx):
        ka, kb = _ckind(a), _ckind(b)
        if ka == 'bool' and kb == 'bool':
            if op == '&':
                return a and b
            if op == '|':
                return a or b
            if op == '^' or op == '!=':
                return a != b
            if op == '==':
                return a == b
        elif ka == 'int' and kb == 'int':
            if op == '+':
                return i32(a + b)
            if op == '-':
                return i32(a - b)
            if op == '*':
                return i32(a * b)
            if op in ('/', '%'):
                if b == 0:
                    raise ScThrow('ArithmeticException', '/ by zero', line)
                q = abs(a) // abs(b)
                if (a < 0) != (b < 0):
                    q = -q
                return i32(q) if op == '/' else i32(a - b * q)
            if op == '&':
                return a & b
            if op == '|':
                return a | b
            if op == '^':
                return a ^ b
            if op == '<<':
                return i32(a << (b & 31))
            if op == '>>':
                return a >> (b & 31)
            if op == '>>>':
                return i32((a & 0xFFFFFFFF) >> (b & 31))
            if op == '==':
                return a == b
            if op == '!=':
                return a != b
            if op == '<':
                return a < b
            if op == '<=':
                return a <= b
            if op == '>':
                return a > b
            if op == '>=':
                return a >= b
        elif ka in ('int', 'double') and kb in ('int', 'double'):
            x, y = float(a), float(b)          # binary numeric promotion (exact for Int)
            if op == '+':
                return x + y
            if op == '-':
                return x - y
            if op == '*':
                return x * y
            if op == '/':
                return _jdiv_double(x, y)
            if op == '==':
                return x == y
            if op == '!=':
                return x != y
            if op == '<':
                return x < y
            if op == '<=':
                return x <= y
            if op == '>':
                return x > y
            if op == '>=':
                return x >= y
        raise self.unsupported('operator %s on kinds %s, %s is outside the subset'
                               % (op, ka, kb), line, ctx)

    def ev_If(self, n, env, ctx):
        c = self.ev(n.c, env, ctx)
        if _ckind(c) != 'bool':
            raise self.unsupported('if condition is not Boolean', n.line, ctx)
        if n.e is None:
            if c:
                self.ev(n.t, env, ctx)
            return None
        return self.ev(n.t if c else n.e, env, ctx)

    def ev_Block(self, n, env, ctx):
        env.push()
        try:
            v = None
            for s in n.stmts:
                v = self.ev(s, env, ctx)
                if s.kind in ('ValDef', 'DefDef', 'Assign'):
                    v = None
            return v
        finally:
            env.pop()

    def ev_ValDef(self, n, env, ctx):
        if n.is_lazy:
            raise self.unsupported('local lazy val is outside the subset', n.line, ctx)
        v = self.coerce_declared(self.ev(n.rhs, env, ctx), n.ty, ctx, n.line)
        if _ckind(v) not in ('int', 'bool', 'double', 'seq'):
            raise self.unsupported('val %s of kind %s' % (n.name, _ckind(v)), n.line, ctx)
        env.declare(n.name, v, n.is_var)
        return None

    def ev_Assign(self, n, env, ctx):
        cell = env.find(n.name, n.line)
        if cell is None or not cell[1]:
            raise self.unsupported('assignment to %s, which is not a local var' % n.name,
                                   n.line, ctx)
        v = self.ev(n.rhs, env, ctx)
        if n.op is not None:
            v = self.binop(n.op, cell[0], v, n.line, ctx)
        if _ckind(v) != _ckind(cell[0]):
            raise self.unsupported('assignment changes the kind of %s' % n.name, n.line, ctx)
        cell[0] = v
        return None

    def ev_DefDef(self, n, env, ctx):
        d = n.decl
        if d.problem:
            raise self.unsupported('nested def %s: %s' % (d.name, d.problem), n.line, ctx)
        kinds = [self.u.type_kind(ty, ctx.obj) for _, ty in d.params]
        if any(k is None for k in kinds):
            raise self.unsupported('nested def %s: parameter type outside the subset' % d.name,
                                   n.line, ctx)
        rk = self.u.type_kind(d.ret, ctx.obj) if d.ret is not None else None
        if d.ret is not None and rk is None:
            raise self.unsupported('nested def %s: return type %s' % (d.name, d.ret), n.line, ctx)
        c = Closure(d.name, [p for p, _ in d.params], kinds, d.defaults, rk, d.body,
                    env.scopes[:], ctx, n.line)
        # the def is visible inside its own body (recursion): the captured chain shares the
        # scope dict in which the def is declared
        env.declare(d.name, c)
        return None

    def ev_Lambda(self, n, env, ctx):
        return Closure('<lambda>', list(n.params), None, {}, None, n.body, env.scopes[:], ctx,
                       n.line)

    def ev_Match(self, n, env, ctx):
        s = self.ev(n.scrut, env, ctx)
        if _ckind(s) != 'int':
            raise self.unsupported('match on a value of kind %s' % _ckind(s), n.line, ctx)
        for pats, body in n.cases:
            if any(p == '_' or p == s for p in pats):
                return self.ev(body, env, ctx)
        raise ScThrow('MatchError', str(s), n.line)

    def ev_Throw(self, n, env, ctx):
        if n.e.kind != 'New':
            raise self.unsupported('throw of something other than `new X(...)`', n.line, ctx)
        msg = self.message_args(n.e.args, env, ctx)
        raise ScThrow(n.e.cls.split('.')[-1], msg, n.line)

    def ev_New(self, n, env, ctx):
        if n.cls in self.u.value_classes and len(n.args) == 1 and n.args[0][0] is None:
            v = self.ev(n.args[0][1], env, ctx)
            kind = self.u.type_kind(self.u.value_classes[n.cls][2], ctx.obj)
            return self.coerce(v, kind, 'new %s' % n.cls, n.line, ctx)
        raise self.unsupported('object creation `new %s` is outside the subset' % n.cls, n.line,
                               ctx)


# ----------------------------------------------------------------------------------------------
# Symbolic evaluator (translation to z3)
# ----------------------------------------------------------------------------------------------

TRUE, FALSE = z3.BoolVal(True), z3.BoolVal(False)
BV32 = z3.BitVecSort(32)


def bv(x):
    return z3.BitVecVal(x & 0xFFFFFFFF, 32)


def t_or(*xs):
    ys = []
    for x in xs:
        if z3.is_true(x):
            return TRUE
        if not z3.is_false(x):
            ys.append(x)
    if not ys:
        return FALSE
    return ys[0] if len(ys) == 1 else z3.Or(*ys)


def t_and(*xs):
    ys = []
    for x in xs:
        if z3.is_false(x):
            return FALSE
        if not z3.is_true(x):
            ys.append(x)
    if not ys:
        return TRUE
    return ys[0] if len(ys) == 1 else z3.And(*ys)


def t_not(x):
    if z3.is_true(x):
        return FALSE
    if z3.is_false(x):
        return TRUE
    return z3.Not(x)


def t_ite(c, a, b):
    """If(c, a, b) for terms of equal sort, folded when c is a literal or a and b coincide"""
    if z3.is_true(c):
        return a
    if z3.is_false(c):
        return b
    if a.eq(b):
        return a
    return z3.If(c, a, b)


def const_bool(c):
    """True / False when the z3 simplifier reduces ``c`` to a literal, else None.  Used only to
    skip branches that cannot be taken (sound: the skipped branch has an unsatisfiable guard)."""
    s = z3.simplify(c)
    if z3.is_true(s):
        return True
    if z3.is_false(s):
        return False
    return None


class SymSeq:
    """symbolic sequence: alternatives (guard, [elements]); the guards are mutually exclusive and
    exhaustive over the non-throwing executions that produce the sequence.  Every alternative
    has a concrete length."""

    def __init__(self, alts):
        self.alts = alts

    def __repr__(self):
        return 'SymSeq(%r)' % (self.alts,)


def _skind(v):
    if v is UNIT:
        return 'unit'
    if v is BOTTOM:
        return 'nothing'
    if v is SC_STRING:
        return 'string'
    if isinstance(v, SymSeq):
        return 'seq'
    if isinstance(v, (Closure, FuncRef)):
        return 'function'
    if z3.is_expr(v):
        if z3.is_bool(v):
            return 'bool'
        if z3.is_bv(v) and v.size() == 32:
            return 'int'
    return 'unknown'


def _lift(v, line=None):
    """concrete value -> symbolic value"""
    if type(v) is bool:
        return z3.BoolVal(v)
    if type(v) is int:
        return bv(v)
    if type(v) is tuple:
        return SymSeq([(TRUE, [bv(x) for x in v])])
    raise ScUnsupported('value of kind %s cannot be used symbolically' % _ckind(v), line)


def _to_sym(a):
    if isinstance(a, (list, tuple)):
        return SymSeq([(TRUE, [_to_sym(x) for x in a])])
    if z3.is_expr(a):
        if _skind(a) not in ('int', 'bool'):
            raise TypeError('z3 argument must be BitVec(32) or Bool: %r' % (a,))
        return a
    if type(a) in (bool, int):
        return _lift(i32(a) if type(a) is int else a)
    raise TypeError('unsupported symbolic argument %r' % (a,))


def _bottom_default(kind):
    if kind == 'int':
        return bv(0)
    if kind == 'bool':
        return FALSE
    return None


def _as_bool_term(t):
    return t


class SymEnv:
    """scope chain name -> (value, is_var); copied at branches and merged afterwards"""

    def __init__(self, scopes=None, base=0):
        self.scopes = scopes if scopes is not None else [{}]
        self.base = base

    def push(self):
        self.scopes.append({})

    def pop(self):
        self.scopes.pop()

    def copy(self):
        return SymEnv([dict(s) for s in self.scopes], self.base)

    def has(self, name):
        return any(name in s for s in self.scopes)

    def declare(self, name, value, is_var=False):
        self.scopes[-1][name] = (value, is_var)

    def find(self, name, line):
        for i in range(len(self.scopes) - 1, -1, -1):
            cell = self.scopes[i].get(name)
            if cell is not None:
                if cell[1] and i < self.base:
                    raise ScUnsupported('closure refers to the var %s of an enclosing scope'
                                        % name, line)
                return i, cell
        return None

    def assign(self, name, value, line):
        i, cell = self.find(name, line)
        self.scopes[i][name] = (value, True)


class SymEval:
    def __init__(self, universe, stubs=None):
        self.u = universe
        self.stubs = stubs or {}
        self.stack = []
        # Path condition: conjuncts known to hold at the current point (branch guards).  It is
        # an under-approximation (some facts are not recorded) and is used for one purpose only:
        # a recursive call under an UNSATISFIABLE path condition is unreachable and is pruned.
        self.pc = []

    def unreachable(self):
        s = z3.Solver()
        s.set('timeout', 10000)
        s.add(*self.pc)
        return s.check() == z3.unsat

    def under(self, guard, thunk):
        self.pc.append(guard)
        try:
            return thunk()
        finally:
            self.pc.pop()

    def unsupported(self, msg, line, ctx):
        return ScUnsupported(msg, line, ctx.obj.file if ctx is not None else None)

    # -- merging -------------------------------------------------------------------------------
    def merge(self, c, a, b, line, ctx):
        """value of `if (c) a else b`"""
        if a is b:
            return a
        if a is BOTTOM:
            return b
        if b is BOTTOM:
            return a
        if a is UNIT or b is UNIT:
            return UNIT
        ka, kb = _skind(a), _skind(b)
        if ka == kb and ka in ('int', 'bool'):
            return t_ite(c, a, b)
        if ka == kb == 'seq':
            nc = t_not(c)
            return SymSeq([(t_and(c, g), es) for g, es in a.alts] +
                          [(t_and(nc, g), es) for g, es in b.alts])
        raise self.unsupported('branches yield values of kinds %s and %s' % (ka, kb), line, ctx)

    def join_env(self, c, va, ea, vb, eb, line, ctx):
        """environment after a two-way branch; a branch whose value is BOTTOM never continues"""
        if ea is None or va is BOTTOM:
            return eb
        if eb is None or vb is BOTTOM:
            return ea
        out = []
        for sa, sb in zip(ea.scopes, eb.scopes):
            d = {}
            for name, (xa, var) in sa.items():
                if name not in sb:
                    continue
                xb = sb[name][0]
                d[name] = (xa if xa is xb else self.merge(c, xa, xb, line, ctx), var)
            out.append(d)
        return SymEnv(out, ea.base)

    # -- calls ---------------------------------------------------------------------------------
    def coerce(self, v, kind, what, line, ctx):
        if v is BOTTOM:
            return v
        if kind == 'unit':
            return UNIT
        if kind is None:
            return v
        if kind == 'double':
            raise self.unsupported('%s: Double is not translated symbolically' % what, line, ctx)
        if kind == 'nothing':
            raise self.unsupported('%s of type Nothing produced a value' % what, line, ctx)
        k = _skind(v)
        if k != kind:
            raise self.unsupported('%s: expected %s but got %s' % (what, kind, k), line, ctx)
        return v

    def coerce_declared(self, v, ty, ctx, line):
        if ty is None:
            return v
        kind = self.u.type_kind(ty, ctx.obj)
        if kind is None:
            raise self.unsupported('type %s is outside the subset' % ty, line, ctx)
        return self.coerce(v, kind, 'value of declared type %s' % ty, line, ctx)

    def pick(self, cands, args, line, ctx, implicit_self=False):
        ok = [f for f in cands if arity_ok(f, args, implicit_self and f.self_param is not None)]
        if len(ok) > 1:
            def kinds_match(f):
                skip = 1 if (implicit_self and f.self_param is not None) else 0
                names = [p for p, _ in f.params][skip:]
                kinds = dict(zip(names, f.param_kinds[skip:]))
                pos = [v for nm, v in args if nm is None]
                pairs = list(zip(names, pos)) + [(nm, v) for nm, v in args if nm is not None]
                return all(kinds.get(nm) is not None and kinds.get(nm) == _skind(v)
                           for nm, v in pairs)
            ok = [f for f in ok if kinds_match(f)]
        if len(ok) != 1:
            raise self.unsupported('cannot resolve overload of %s (%d candidates match)'
                                   % (cands[0].name, len(ok)), line, ctx)
        return ok[0]

    def call_func(self, f, args, line, self_value=None, top=False):
        names = [p for p, _ in f.params]
        if self_value is not None:
            args = [(None, self_value)] + list(args)
        bound, missing = bind_args(names, f.defaults, args, line, f.qualname)
        ctx = Ctx(f.obj, f)
        env = SymEnv([{}])
        throws = FALSE
        vals = []
        for nm, kind in zip(names, f.param_kinds):
            if nm in missing:
                v, t = self.ev(f.defaults[nm], env, ctx)
                throws = t_or(throws, t)
            else:
                v = bound[nm]
            v = self.coerce(v, kind, 'argument %s of %s' % (nm, f.qualname), line, ctx)
            if v is BOTTOM:
                return BOTTOM, TRUE
            env.declare(nm, v)
            vals.append(v)
        if not top and f.qualname in self.stubs:
            r = self.stubs[f.qualname](*vals)
            v, t = r.value, r.throws
            if v is None:
                v = UNIT
            return self.coerce(v, f.ret_kind, 'result of stub %s' % f.qualname, line, ctx), \
                t_or(throws, t)
        if f.body is None or f.local_issue is not None:
            raise ScUnsupported('%s: %s' % (f.qualname, f.local_issue or 'no body'), line)
        if f in self.stack:
            if self.unreachable():
                return BOTTOM, TRUE        # infeasible path: value and throws are irrelevant
            raise ScUnsupported('%s: reachable recursive call cannot be translated'
                                % f.qualname, line)
        self.stack.append(f)
        try:
            v, t = self.ev(f.body, env, ctx)
        finally:
            self.stack.pop()
        return self.coerce(v, f.ret_kind, 'result of %s' % f.qualname, f.first_line, ctx), \
            t_or(throws, t)

    def call_closure(self, c, args, line):
        if c in self.stack:
            if self.unreachable():
                return BOTTOM, TRUE
            raise ScUnsupported('%s: reachable recursive call cannot be translated' % c.name,
                                line)
        bound, missing = bind_args(c.params, c.defaults, args, line, c.name)
        env = SymEnv(list(c.scopes) + [{}], base=len(c.scopes))
        throws = FALSE
        for i, nm in enumerate(c.params):
            if nm in missing:
                v, t = self.ev(c.defaults[nm], env, c.ctx)
                throws = t_or(throws, t)
            else:
                v = bound[nm]
            if c.kinds is not None:
                v = self.coerce(v, c.kinds[i], 'argument %s of %s' % (nm, c.name), line, c.ctx)
            env.declare(nm, v)
        self.stack.append(c)
        try:
            v, t = self.ev(c.body, env, c.ctx)
        finally:
            self.stack.pop()
        if c.ret_kind is not None:
            v = self.coerce(v, c.ret_kind, 'result of %s' % c.name, c.line, c.ctx)
        return v, t_or(throws, t)

    def call_member(self, fs, args, line, env, ctx):
        implicit = ctx.func is not None and ctx.func.self_param is not None
        f = self.pick(fs, args, line, ctx, implicit)
        if implicit and f.self_param is not None:
            return self.call_func(f, args, line, env.find(ctx.func.self_param, line)[1][0])
        if f.self_param is not None:
            raise self.unsupported('instance method %s called without receiver' % f.name, line,
                                   ctx)
        return self.call_func(f, args, line)

    def seq_index(self, seq, i, line):
        """(element, out-of-bounds condition) of seq(i)"""
        si = z3.simplify(i)
        iv = si.as_signed_long() if z3.is_bv_value(si) else None
        value, throws = None, FALSE
        for guard, elems in reversed(seq.alts):
            n = len(elems)
            if iv is not None:
                oob = FALSE if 0 <= iv < n else TRUE
                val = elems[iv] if 0 <= iv < n else bv(0)
            else:
                oob = z3.Or(i < bv(0), i >= bv(n))          # signed comparisons
                val = elems[-1] if n else bv(0)
                for j in range(n - 2, -1, -1):
                    val = t_ite(i == bv(j), elems[j], val)
            value = val if value is None else t_ite(guard, val, value)
            throws = t_or(throws, t_and(guard, oob))
        if value is None:
            value = bv(0)
        return value, throws

    def apply_value(self, fv, args, line, ctx):
        k = _skind(fv)
        if k == 'seq':
            if len(args) != 1 or args[0][0] is not None or _skind(args[0][1]) != 'int':
                raise self.unsupported('sequence applied to something other than one Int', line,
                                       ctx)
            return self.seq_index(fv, args[0][1], line)
        if isinstance(fv, Closure):
            return self.call_closure(fv, args, line)
        if isinstance(fv, FuncRef):
            return self.call_func(fv.func, args, line)
        raise self.unsupported('value of kind %s is not applicable' % k, line, ctx)

    def fn_value(self, node, env, ctx):
        if node.kind == 'Lambda':
            return self.ev(node, env, ctx)[0]
        fs = method_value(self.u, ctx.obj, node, env.has)
        if fs is None:
            v, _t = self.ev(node, env, ctx)
            if not isinstance(v, Closure):
                raise self.unsupported('expected a function value', node.line, ctx)
            return v
        return FuncRef(fs[0])

    def ev_args(self, args, env, ctx):
        """evaluate call arguments left to right; returns (values, throws, dead) where dead
        means some argument always throws"""
        out, throws = [], FALSE
        for nm, a in args:
            v, t = self.ev(a, env, ctx)
            throws = t_or(throws, t)
            if v is BOTTOM:
                return out, TRUE if z3.is_true(throws) else throws, True
            out.append((nm, v))
        return out, throws, False

    def message_args(self, args, env, ctx):
        throws = FALSE
        for _, a in args:
            if not (a.kind == 'Lit' and a.ty == 'String'):
                _v, t = self.ev(a, env, ctx)
                throws = t_or(throws, t)
        return throws

    # -- expressions: every ev_X returns (value, throws) ---------------------------------------
    def ev(self, n, env, ctx):
        return getattr(self, 'ev_' + n.kind)(n, env, ctx)

    def ev_Lit(self, n, env, ctx):
        if n.ty == 'Int':
            return bv(n.value), FALSE
        if n.ty == 'Boolean':
            return z3.BoolVal(n.value), FALSE
        if n.ty == 'Unit':
            return UNIT, FALSE
        if n.ty == 'String':
            return SC_STRING, FALSE
        if n.ty == 'Double':
            raise self.unsupported('Double literal is not translated symbolically', n.line, ctx)
        raise self.unsupported('%s literal is outside the subset' % n.ty, n.line, ctx)

    def ev_Placeholder(self, n, env, ctx):
        return env.find(n.name, n.line)[1][0], FALSE

    def ev_This(self, n, env, ctx):
        raise self.unsupported('`this` is outside the subset', n.line, ctx)

    def ev_TypeApply(self, n, env, ctx):
        raise self.unsupported('explicit type arguments are outside the subset', n.line, ctx)

    def ev_Ident(self, n, env, ctx):
        r = env.find(n.name, n.line)
        if r is not None:
            return r[1][0], FALSE
        o = self.u.member_val_owner(ctx.obj, n.name)
        if o is not None:
            return _lift(o.get_val(n.name, n.line), n.line), FALSE
        fs = self.u.member_funcs(ctx.obj, n.name)
        if fs:
            return self.call_member(fs, [], n.line, env, ctx)
        raise self.unsupported('unknown identifier %s' % n.name, n.line, ctx)

    def is_object_ref(self, q, env, ctx):
        return (q.kind == 'Ident' and not env.has(q.name) and
                self.u.member_val_owner(ctx.obj, q.name) is None and
                not self.u.member_funcs(ctx.obj, q.name))

    def ev_Select(self, n, env, ctx):
        q = n.obj
        if self.is_object_ref(q, env, ctx):
            if q.name in self.u.objects:
                O = self.u.objects[q.name]
                if n.name in O.val_decls:
                    return _lift(O.get_val(n.name, n.line), n.line), FALSE
                fs = [f for f in O.overloads.get(n.name, []) if f.self_param is None]
                if fs:
                    return self.call_func(self.pick(fs, [], n.line, ctx), [], n.line)
                raise self.unsupported('object %s has no member %s' % (q.name, n.name), n.line,
                                       ctx)
            if q.name == 'Int' and n.name == 'MaxValue':
                return bv(INT_MAX), FALSE
            if q.name == 'Int' and n.name == 'MinValue':
                return bv(INT_MIN), FALSE
            raise self.unsupported('unknown object or value %s' % q.name, n.line, ctx)
        v, t = self.ev(q, env, ctx)
        if v is BOTTOM:
            return BOTTOM, t
        v2, t2 = self.member(v, n.name, [], n.line, ctx)
        return v2, t_or(t, t2)

    def member(self, v, name, args, line, ctx):
        k = _skind(v)
        if not args:
            if name in ('length', 'size') and k == 'seq':
                value = None
                for guard, elems in reversed(v.alts):
                    x = bv(len(elems))
                    value = x if value is None else t_ite(guard, x, value)
                return (value if value is not None else bv(0)), FALSE
            if name == 'toInt':
                if k == 'int':
                    return v, FALSE
                if k == 'bool' and self.u.has_rich_boolean(ctx.obj):
                    return t_ite(v, bv(1), bv(0)), FALSE
            if name == 'toDouble':
                raise self.unsupported('.toDouble is not translated symbolically', line, ctx)
        if k == 'int':
            ms = [f for f in self.u.value_class_methods(name) if arity_ok(f, args, True)]
            if len(ms) == 1:
                return self.call_func(ms[0], args, line, v)
        raise self.unsupported('member .%s on a value of kind %s is outside the subset'
                               % (name, k), line, ctx)

    def ev_Apply(self, n, env, ctx):
        r = self.u.resolve_apply(ctx.obj, n.fn, env.has)
        tag = r[0]
        if tag == 'value':
            fv, tf = self.ev(n.fn, env, ctx)
            if fv is BOTTOM:
                return BOTTOM, tf
            args, ta, dead = self.ev_args(n.args, env, ctx)
            if dead:
                return BOTTOM, t_or(tf, ta)
            v, t = self.apply_value(fv, args, n.line, ctx)
            return v, t_or(tf, ta, t)
        if tag == 'func':
            args, ta, dead = self.ev_args(n.args, env, ctx)
            if dead:
                return BOTTOM, ta
            if n.fn.kind == 'Ident':
                v, t = self.call_member(r[1], args, n.line, env, ctx)
            else:
                v, t = self.call_func(self.pick(r[1], args, n.line, ctx), args, n.line)
            return v, t_or(ta, t)
        if tag == 'builtin':
            name = r[1]
            if name == 'fatal':
                self.message_args(n.args, env, ctx)
                return BOTTOM, TRUE
            if not n.args or n.args[0][0] is not None:
                raise self.unsupported('%s needs a positional condition' % name, n.line, ctx)
            c, tc = self.ev(n.args[0][1], env, ctx)
            if c is BOTTOM:
                return BOTTOM, tc
            if _skind(c) != 'bool':
                raise self.unsupported('%s condition is not Boolean' % name, n.line, ctx)
            return UNIT, t_or(tc, t_not(c))
        if tag == 'seqlit':
            args, ta, dead = self.ev_args(n.args, env, ctx)
            if dead:
                return BOTTOM, ta
            for (nm, v), (_, a) in zip(args, n.args):
                if nm is not None:
                    raise self.unsupported('named argument in %s(...)' % r[1], n.line, ctx)
                if _skind(v) != 'int':
                    raise self.unsupported('%s(...) element is not an Int' % r[1], a.line, ctx)
            return SymSeq([(TRUE, [v for _, v in args])]), ta
        if tag == 'math':
            raise self.unsupported('math.%s is not translated symbolically' % r[1], n.line, ctx)
        if tag == 'method':
            recv, tr = self.ev(n.fn.obj, env, ctx)
            if recv is BOTTOM:
                return BOTTOM, tr
            m = r[1]
            if m in SEQ_HOF:
                if _skind(recv) != 'seq':
                    raise self.unsupported('.%s on a value of kind %s' % (m, _skind(recv)),
                                           n.line, ctx)
                if len(n.args) != 1 or n.args[0][0] is not None:
                    raise self.unsupported('.%s takes one function argument' % m, n.line, ctx)
                fv = self.fn_value(n.args[0][1], env, ctx)
                v, t = self.seq_hof(m, recv, fv, n.line, ctx)
                return v, t_or(tr, t)
            args, ta, dead = self.ev_args(n.args, env, ctx)
            if dead:
                return BOTTOM, t_or(tr, ta)
            if m == 'apply':
                v, t = self.apply_value(recv, args, n.line, ctx)
            else:
                v, t = self.member(recv, m, args, n.line, ctx)
            return v, t_or(tr, ta, t)
        raise AssertionError(tag)

    def seq_hof(self, m, seq, fv, line, ctx):
        """map / foreach / forall / exists / count over every alternative of a SymSeq.  forall
        and exists stop at the first decisive element, so later elements cannot throw."""
        per_alt = []
        for guard, elems in seq.alts:
            rs, ts = [], []
            for e in elems:
                v, t = self.under(guard, lambda: self.apply_value(fv, [(None, e)], line, ctx))
                if v is BOTTOM:
                    raise self.unsupported('.%s with a function that always throws' % m, line,
                                           ctx)
                want = 'int' if m == 'map' else ('bool' if m != 'foreach' else None)
                if want is not None and _skind(v) != want:
                    raise self.unsupported('.%s needs a function returning %s' % (m, want), line,
                                           ctx)
                rs.append(v)
                ts.append(t)
            if m in ('map', 'foreach', 'count'):
                thr = t_or(*ts) if ts else FALSE
            else:
                thr = FALSE
                for r_, t_ in zip(reversed(rs), reversed(ts)):
                    cont = r_ if m == 'forall' else t_not(r_)
                    thr = t_or(t_, t_and(cont, thr))
            if m == 'map':
                val = rs
            elif m == 'foreach':
                val = UNIT
            elif m == 'forall':
                val = t_and(*rs) if rs else TRUE
            elif m == 'exists':
                val = t_or(*rs) if rs else FALSE
            else:
                val = bv(0)
                for r_ in rs:
                    val = val + t_ite(r_, bv(1), bv(0))
            per_alt.append((guard, val, thr))
        throws = t_or(*[t_and(g, t) for g, _v, t in per_alt]) if per_alt else FALSE
        if m == 'map':
            return SymSeq([(g, v) for g, v, _t in per_alt]), throws
        if m == 'foreach':
            return UNIT, throws
        value = None
        for g, v, _t in reversed(per_alt):
            value = v if value is None else t_ite(g, v, value)
        if value is None:
            value = TRUE if m == 'forall' else (FALSE if m == 'exists' else bv(0))
        return value, throws

    def ev_Unary(self, n, env, ctx):
        v, t = self.ev(n.e, env, ctx)
        if v is BOTTOM:
            return BOTTOM, t
        k = _skind(v)
        if n.op == '!' and k == 'bool':
            return t_not(v), t
        if n.op == '-' and k == 'int':
            return -v, t
        if n.op == '+' and k == 'int':
            return v, t
        if n.op == '~' and k == 'int':
            return ~v, t
        raise self.unsupported('unary %s on a value of kind %s' % (n.op, k), n.line, ctx)

    def ev_Binary(self, n, env, ctx):
        op = n.op
        a, ta = self.ev(n.l, env, ctx)
        if a is BOTTOM:
            return BOTTOM, ta
        if op in ('&&', '||'):
            if _skind(a) != 'bool':
                raise self.unsupported('%s on a value of kind %s' % (op, _skind(a)), n.line, ctx)
            k = const_bool(a)
            if k is not None and k == (op == '||'):
                return z3.BoolVal(k), ta           # right operand is not evaluated
            go = a if op == '&&' else t_not(a)     # condition under which the right side runs
            er = env if k is not None else env.copy()
            b, tb = self.under(go, lambda: self.ev(n.r, er, ctx))
            if b is BOTTOM:
                raise self.unsupported('right operand of %s always throws' % op, n.line, ctx)
            if _skind(b) != 'bool':
                raise self.unsupported('%s on a value of kind %s' % (op, _skind(b)), n.line, ctx)
            if k is not None:
                return b, t_or(ta, tb)
            env.scopes = self.join_env(go, b, er, UNIT, env.copy(), n.line, ctx).scopes
            value = z3.And(a, b) if op == '&&' else z3.Or(a, b)
            return value, t_or(ta, t_and(go, tb))
        b, tb = self.ev(n.r, env, ctx)
        if b is BOTTOM:
            return BOTTOM, t_or(ta, tb)
        v, tz = self.binop(op, a, b, n.line, ctx)
        return v, t_or(ta, tb, tz)

    def binop(self, op, a, b, line, ctx):
        """(value, throws) of a strict binary operator"""
        ka, kb = _skind(a), _skind(b)
        if ka == 'bool' and kb == 'bool':
            if op == '&':
                return z3.And(a, b), FALSE
            if op == '|':
                return z3.Or(a, b), FALSE
            if op == '^' or op == '!=':
                return z3.Xor(a, b), FALSE
            if op == '==':
                return a == b, FALSE
        elif ka == 'int' and kb == 'int':
            if op == '+':
                return a + b, FALSE
            if op == '-':
                return a - b, FALSE
            if op == '*':
                return a * b, FALSE
            if op == '/':
                return a / b, b == bv(0)                 # bvsdiv: truncation, MIN / -1 == MIN
            if op == '%':
                return z3.SRem(a, b), b == bv(0)         # bvsrem: sign of the dividend
            if op == '&':
                return a & b, FALSE
            if op == '|':
                return a | b, FALSE
            if op == '^':
                return a ^ b, FALSE
            if op == '<<':
                return a << (b & bv(31)), FALSE
            if op == '>>':
                return a >> (b & bv(31)), FALSE          # bvashr
            if op == '>>>':
                return z3.LShR(a, b & bv(31)), FALSE
            if op == '==':
                return a == b, FALSE
            if op == '!=':
                return a != b, FALSE
            if op == '<':
                return a < b, FALSE                      # signed (bvslt)
            if op == '<=':
                return a <= b, FALSE
            if op == '>':
                return a > b, FALSE
            if op == '>=':
                return a >= b, FALSE
        raise self.unsupported('operator %s on kinds %s, %s is outside the subset'
                               % (op, ka, kb), line, ctx)

    def ev_If(self, n, env, ctx):
        c, tc = self.ev(n.c, env, ctx)
        if c is BOTTOM:
            return BOTTOM, tc
        if _skind(c) != 'bool':
            raise self.unsupported('if condition is not Boolean', n.line, ctx)
        k = const_bool(c)
        if k is True or (k is False and n.e is not None):
            v, t = self.ev(n.t if k else n.e, env, ctx)
            if n.e is None and v is not BOTTOM:
                v = UNIT
            return v, t_or(tc, t)
        if k is False:
            return UNIT, tc
        ea, eb = env.copy(), env.copy()
        va, ta = self.under(c, lambda: self.ev(n.t, ea, ctx))
        if n.e is not None:
            vb, tb = self.under(t_not(c), lambda: self.ev(n.e, eb, ctx))
        else:
            vb, tb = UNIT, FALSE
            if va is not BOTTOM:
                va = UNIT
        v = self.merge(c, va, vb, n.line, ctx)
        env.scopes = self.join_env(c, va, ea, vb, eb, n.line, ctx).scopes
        return v, t_or(tc, t_ite(c, ta, tb))

    def ev_Block(self, n, env, ctx):
        env.push()
        try:
            v, throws = UNIT, FALSE
            for s in n.stmts:
                v, t = self.ev(s, env, ctx)
                throws = t_or(throws, t)
                if v is BOTTOM or z3.is_true(throws):
                    v = BOTTOM                 # the rest of the block is never reached
                    break
                if s.kind in ('ValDef', 'DefDef', 'Assign'):
                    v = UNIT
            return v, throws
        finally:
            env.pop()

    def ev_ValDef(self, n, env, ctx):
        if n.is_lazy:
            raise self.unsupported('local lazy val is outside the subset', n.line, ctx)
        v, t = self.ev(n.rhs, env, ctx)
        if v is BOTTOM:
            return BOTTOM, t
        v = self.coerce_declared(v, n.ty, ctx, n.line)
        if _skind(v) not in ('int', 'bool', 'seq'):
            raise self.unsupported('val %s of kind %s' % (n.name, _skind(v)), n.line, ctx)
        env.declare(n.name, v, n.is_var)
        return UNIT, t

    def ev_Assign(self, n, env, ctx):
        r = env.find(n.name, n.line)
        if r is None or not r[1][1]:
            raise self.unsupported('assignment to %s, which is not a local var' % n.name,
                                   n.line, ctx)
        v, t = self.ev(n.rhs, env, ctx)
        if v is BOTTOM:
            return BOTTOM, t
        old = env.find(n.name, n.line)[1][0]       # re-read: the rhs may have assigned
        if n.op is not None:
            v, tz = self.binop(n.op, old, v, n.line, ctx)
            t = t_or(t, tz)
        if _skind(v) != _skind(old):
            raise self.unsupported('assignment changes the kind of %s' % n.name, n.line, ctx)
        env.assign(n.name, v, n.line)
        return UNIT, t

    def ev_DefDef(self, n, env, ctx):
        d = n.decl
        if d.problem:
            raise self.unsupported('nested def %s: %s' % (d.name, d.problem), n.line, ctx)
        kinds = [self.u.type_kind(ty, ctx.obj) for _, ty in d.params]
        if any(k is None for k in kinds):
            raise self.unsupported('nested def %s: parameter type outside the subset' % d.name,
                                   n.line, ctx)
        rk = self.u.type_kind(d.ret, ctx.obj) if d.ret is not None else None
        if d.ret is not None and rk is None:
            raise self.unsupported('nested def %s: return type %s' % (d.name, d.ret), n.line, ctx)
        c = Closure(d.name, [p for p, _ in d.params], kinds, d.defaults, rk, d.body,
                    env.scopes[:], ctx, n.line)
        env.declare(d.name, c)
        return UNIT, FALSE

    def ev_Lambda(self, n, env, ctx):
        return Closure('<lambda>', list(n.params), None, {}, None, n.body, env.scopes[:], ctx,
                       n.line), FALSE

    def ev_Match(self, n, env, ctx):
        s, ts = self.ev(n.scrut, env, ctx)
        if s is BOTTOM:
            return BOTTOM, ts
        if _skind(s) != 'int':
            raise self.unsupported('match on a value of kind %s' % _skind(s), n.line, ctx)
        branches = []            # (guard, value, throws, env); the last guard is TRUE
        earlier = []             # negated guards of the preceding cases
        for pats, body in n.cases:
            cond = TRUE if '_' in pats else t_or(*[s == bv(p) for p in pats])
            k = const_bool(cond)
            if k is False:
                continue
            e_i = env.copy()
            v_i, t_i = self.under(t_and(cond, *earlier),
                                  lambda: self.ev(body, e_i, ctx))
            earlier.append(t_not(cond))
            branches.append((TRUE if k else cond, v_i, t_i, e_i))
            if k:
                break
        else:
            branches.append((TRUE, BOTTOM, TRUE, None))          # scala.MatchError
        _g, v, t, e = branches[-1]
        for g_i, v_i, t_i, e_i in reversed(branches[:-1]):
            e = self.join_env(g_i, v_i, e_i, v, e, n.line, ctx)
            v = self.merge(g_i, v_i, v, n.line, ctx)
            t = t_ite(g_i, t_i, t)
        if e is not None:
            env.scopes = e.scopes
        return v, t_or(ts, t)

    def ev_Throw(self, n, env, ctx):
        if n.e.kind != 'New':
            raise self.unsupported('throw of something other than `new X(...)`', n.line, ctx)
        self.message_args(n.e.args, env, ctx)
        return BOTTOM, TRUE

    def ev_New(self, n, env, ctx):
        if n.cls in self.u.value_classes and len(n.args) == 1 and n.args[0][0] is None:
            v, t = self.ev(n.args[0][1], env, ctx)
            kind = self.u.type_kind(self.u.value_classes[n.cls][2], ctx.obj)
            return self.coerce(v, kind, 'new %s' % n.cls, n.line, ctx), t
        raise self.unsupported('object creation `new %s` is outside the subset' % n.cls, n.line,
                               ctx)


# ----------------------------------------------------------------------------------------------
# Modular reasoning: replace a callee by an uninterpreted function
# ----------------------------------------------------------------------------------------------

class ScUFStub:
    """``stubs={'Genotype.allelePairSqrt': ScUFStub('Genotype.allelePairSqrt', 1)}`` makes
    ``sym`` emit ``value_fn(args)`` / ``throws_fn(args)`` (fresh uninterpreted functions over
    BitVec(32) arguments) wherever the callee is called, instead of inlining it.  A contract
    module can then constrain the two functions with the callee's specification.
    ``concretize`` is used by the self test: it replaces applications on numerals by the
    concretely computed result of the real function."""

    def __init__(self, qualname, arity, ret='int'):
        self.qualname = qualname
        rs = BV32 if ret == 'int' else z3.BoolSort()
        self.value_fn = z3.Function(qualname + '!val', *([BV32] * arity + [rs]))
        self.throws_fn = z3.Function(qualname + '!throws', *([BV32] * arity + [z3.BoolSort()]))
        self.ret = ret

    def __call__(self, *args):
        return SymResult(self.value_fn(*args), self.throws_fn(*args))

    def _apps(self, e, out, seen):
        if e.get_id() in seen:
            return
        seen.add(e.get_id())
        if z3.is_app(e):
            d = e.decl()
            if d.eq(self.value_fn) or d.eq(self.throws_fn):
                out.append(e)
            for c in e.children():
                self._apps(c, out, seen)

    def concretize(self, expr, func, max_rounds=64):
        """simplify ``expr``; replace every stub application whose arguments are numerals by
        ``func.eval`` of those numerals; repeat until no application is left (or it is stuck)."""
        for _ in range(max_rounds):
            expr = z3.simplify(expr)
            apps = []
            self._apps(expr, apps, set())
            subs = []
            for a in apps:
                args = [z3.simplify(c) for c in a.children()]
                if not all(z3.is_bv_value(c) for c in args):
                    continue
                ints = [c.as_signed_long() for c in args]
                try:
                    val, thr = func.eval(*ints), False
                except ScThrow:
                    val, thr = (0 if self.ret == 'int' else False), True
                if a.decl().eq(self.throws_fn):
                    subs.append((a, z3.BoolVal(thr)))
                else:
                    subs.append((a, bv(val) if self.ret == 'int' else z3.BoolVal(val)))
            if not subs:
                return expr
            expr = z3.substitute(expr, *subs)
        return z3.simplify(expr)


# ----------------------------------------------------------------------------------------------
# Loading
# ----------------------------------------------------------------------------------------------

def load_objects(paths, type_aliases=None, auto_package=True):
    """Parse every top-level ``object`` (and ``package object``, and value class) in ``paths``.
    With ``auto_package`` a ``package.scala`` next to a listed file is loaded as well, because a
    package object's members (``type Call = Int``) are in scope in every file of the package.
    ``type_aliases`` adds aliases by hand (name -> type string).  Returns {object name: ScObject}.
    """
    u = Universe(type_aliases)
    todo = [os.path.abspath(p) for p in paths]
    if auto_package:
        for p in list(todo):
            pk = os.path.join(os.path.dirname(p), 'package.scala')
            if os.path.isfile(pk) and pk not in todo:
                todo.append(pk)
    for p in todo:
        with open(p, encoding='utf-8') as fh:
            u.load_text(fh.read(), p)
    u.finish()
    return u.objects


def load_source(text, filename='<string>', type_aliases=None):
    """like load_objects for Scala text given as a string (used by the tests)"""
    u = Universe(type_aliases)
    u.load_text(text, filename)
    u.finish()
    return u.objects
