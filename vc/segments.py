"""Atomic segments for asyncio monitors (rely/guarantee on top of pyvc).

asyncio runs one coroutine at a time and switches only at `await`.  For a class whose state is touched only by its own
methods, every schedule is an interleaving of the code segments between awaits.  For every segment we prove
      Inv(state) /\\ local knowledge   { segment }   Inv(state') /\\ Guar(state_at_segment_start, state')
and at every cut (await that may suspend) the shared state is havocked subject to Inv /\\ Rely(state_at_cut, state'),
where Rely is a reflexive relation shown stable under any other task's Guar step (lemma obligations emitted by the
contract module).  An invariant preserved by every segment then holds in every reachable state of every schedule, for
any number of tasks.  A cancellable await has an extra exceptional successor (CancelledError raised at that point).
"""
from __future__ import annotations

from typing import Dict, List, Tuple

import z3

from . import pyvc
from .pyvc import Fork, SExc, SRecord, fresh_value, parse_type, wf_constraints


class Monitor:
    def __init__(self, fields: Dict[str, str], ghosts: Dict[str, str], inv: List[Tuple[str, str]], guar: List[Tuple[str, str]], frozen: List[str] = ()):
        self.fields = fields  # self.<field> -> type (shared, havocked at cuts)
        self.ghosts = ghosts  # ghost globals -> type (shared, havocked at cuts)
        self.inv = inv
        self.guar = guar  # two-state: seg_<ghost> / seg_self_<field> denote the values at the start of the segment
        self.frozen = list(frozen)  # fields never written after __init__ (kept across cuts; obligation: segments do not change them)

    # -- helpers used by contract modules -------------------------------------------------
    def snapshot(self, st, prefix):
        rec = st.env['self']
        for f in self.fields:
            st.env['%s_self_%s' % (prefix, f)] = rec.fields[f]
        for g in self.ghosts:
            st.env['%s_%s' % (prefix, g)] = st.env[g]

    def begin_segment(self, eng, st):
        self.snapshot(st, 'seg')

    def assume_inv(self, eng, st):
        for name, e in self.inv:
            st.assume(eng.ev_bool_str(e, st))

    def end_segment(self, eng, st, label):
        for name, e in self.inv:
            eng.oblige(st, '%s/inv/%s' % (label, name), eng.ev_bool_str(e, st), clause=e)
        for name, e in self.guar:
            eng.oblige(st, '%s/guar/%s' % (label, name), eng.ev_bool_str(e, st), clause=e)
        rec = st.env['self']
        for f in self.frozen:
            eng.oblige(st, '%s/frozen/%s' % (label, f), eng.equal(rec.fields[f], st.env['seg_self_' + f]))

    def interfere(self, eng, st, rely: List[str]):
        """other tasks run: havoc the shared state, assume Inv and the caller-specific rely (over cut_* snapshots)"""
        self.snapshot(st, 'cut')
        rec = st.env['self']
        for f, t in self.fields.items():
            if f in self.frozen:
                continue
            v = fresh_value(parse_type(t), 'self.' + f)
            rec.fields[f] = v
            for w in wf_constraints(v):
                st.assume(w)
        for g, t in self.ghosts.items():
            v = fresh_value(parse_type(t), g)
            st.env[g] = v
            for w in wf_constraints(v):
                st.assume(w)
        self.assume_inv(eng, st)
        for r in rely:
            st.assume(eng.ev_bool_str(r, st))
        self.begin_segment(eng, st)

    def setup(self, eng, st):
        """method entry: ghost globals are symbolic inputs, Inv assumed, first segment begins"""
        for g, t in self.ghosts.items():
            v = fresh_value(parse_type(t), 'in_' + g)
            st.env[g] = v
            eng.inputs[g] = v
            for w in wf_constraints(v):
                st.assume(w)

    def cut_model(self, label, rely_normal: List[str], rely_cancel: List[str] = None, cancellable=True, before=None, after_normal=None, after_cancel=None):
        """call model for an `await` that suspends the task"""

        def model(eng, st, args, kw, node):
            if before is not None:
                before(eng, st, args)
            self.end_segment(eng, st, '%s@L%d' % (label, node.lineno))

            def resume(s):
                self.interfere(eng, s, rely_normal)
                if after_normal is not None:
                    after_normal(eng, s, args)

            def cancel(s):
                self.interfere(eng, s, rely_cancel if rely_cancel is not None else rely_normal)
                if after_cancel is not None:
                    after_cancel(eng, s, args)

            alts = [('resumes', None, 'value', None, resume)]
            if cancellable:
                alts.append(('cancelled-at-await', None, 'raise', SExc('CancelledError'), cancel))
            raise Fork(node, alts)

        return model


def self_record(cls, fields):
    return SRecord(cls, fields)
