"""vcore: obligations, discharge (z3 -> cvc5 fallback), verdicts, evidence, known findings.

Exit codes of a check: 0 held, 1 violation (VIOLATION line printed), 2 undecided, 3 checker inconsistent.
"""
from __future__ import annotations

import json
import multiprocessing
import os
import re
import shutil
import subprocess
import sys
import tempfile
import time
import traceback
from dataclasses import dataclass, field
from typing import Any, Callable, Dict, List, Optional

import z3

VERIF = os.path.dirname(os.path.dirname(os.path.abspath(__file__)))
REPO = os.environ.get('VERIF_REPO', '/repo')
VENV_PY = '/venv/bin/python'
# runs against a deliberately changed tree (tools/seedtest.py) write their evidence elsewhere so that the committed
# evidence always describes the unchanged tree
EVIDENCE_DIR = os.environ.get('VERIF_EVIDENCE_DIR') or os.path.join(VERIF, 'evidence')
Z3_TIMEOUT_MS = int(os.environ.get('VERIF_Z3_TIMEOUT_MS', '20000'))
CVC5_TIMEOUT_S = int(os.environ.get('VERIF_CVC5_TIMEOUT_S', '120'))
RETRY_SEEDS = (0, 7, 13)


class Undecided(Exception):
    """The front end could not bring the code within reach (anchor moved, unsupported syntax...)."""


class CheckerBug(Exception):
    """The machinery is inconsistent (canary verified, zero obligations, solver disagreement)."""


@dataclass
class Obl:
    """One proof obligation.

    query : a z3 Bool. expect == 'unsat' means "hyps /\\ not goal" must be unsatisfiable (a VC);
            expect == 'sat' means the query must be satisfiable (vacuity / reachability / canary).
    """

    name: str
    query: Any
    expect: str = 'unsat'
    kind: str = 'vc'  # vc | vacuity | canary | frame | scan
    info: Dict[str, Any] = field(default_factory=dict)
    # filled by discharge
    status: str = 'pending'  # ok | failed | unknown
    backend: str = ''
    seconds: float = 0.0
    detail: str = ''
    smt2: Optional[str] = None


def valid(name, hyps, goal, **kw) -> Obl:
    hyps = [h for h in hyps if h is not None]
    return Obl(name, z3.And(*hyps, z3.Not(goal)) if hyps else z3.Not(goal), 'unsat', kw.pop('kind', 'vc'), kw)


def satisfiable(name, conj, kind='vacuity', **kw) -> Obl:
    return Obl(name, z3.And(*conj) if isinstance(conj, (list, tuple)) else conj, 'sat', kind, kw)


def decided(name, ok: bool, detail='', kind='scan', **kw) -> Obl:
    """An obligation decided syntactically/exhaustively by the front end itself (no solver)."""
    o = Obl(name, None, 'unsat', kind, kw)
    o.status = 'ok' if ok else 'failed'
    o.backend = 'syntactic'
    o.detail = detail
    return o


# --------------------------------------------------------------------------------------------
# solver back ends


def _to_smt2(query) -> str:
    s = z3.Solver()
    s.add(query)
    return s.to_smt2()


class _Watchdog:
    """z3's `timeout` is a soft limit: a timer thread sets a cancel flag that the search has to notice.  Under load the
    model-based quantifier instantiation of z3 5.1.0 was observed not to notice it (C19 `closed-elems#2`: three pool
    workers spinning in smt::model_checker::check -> theory_array_base::propagate for > 1000 s with a 20 s timeout,
    timer thread idle).  Every in-process check() of a pool worker is therefore guarded by a hard deadline: when it is
    overrun the worker reports the obligation as hung and exits; the scheduler replaces the worker and re-runs the
    obligation with the command-line solvers only, whose time limits kill the process."""

    def __init__(self, conn):
        self.conn = conn
        self.idx = None
        self.deadline = None
        import threading

        self.thread = threading.Thread(target=self._run, daemon=True)
        self.thread.start()

    def _run(self):
        while True:
            time.sleep(0.5)
            d = self.deadline
            if d is not None and time.time() > d:
                try:
                    self.conn.send({'idx': self.idx, 'hung': True})
                except Exception:
                    pass
                os._exit(17)


_WD: Optional[_Watchdog] = None  # set in pool workers only


def _guarded_check(solver, soft_ms):
    """solver.check() under the worker's hard deadline (1.5 x soft timeout + 15 s); ctypes releases the GIL during the
    call, so the watchdog thread runs while z3 does."""
    if _WD is None:
        return solver.check()
    _WD.deadline = time.time() + 1.5 * soft_ms / 1000.0 + 15
    try:
        return solver.check()
    finally:
        _WD.deadline = None


def _solve_cli_only(job):
    """Second chance for an obligation whose in-process solve overran its hard deadline: cvc5, then the z3 5.1.0 binary in
    fresh processes (other seeds, larger budgets), all under time limits that end the process."""
    idx, smt2, expect, z3_ms, cvc5_s = job[:5]
    t0 = time.time()
    out = {'idx': idx, 'res': 'unknown', 'backend': '', 'detail': 'in-process z3 overran its hard deadline (soft timeout ignored)'}
    z3_bin = shutil.which('z3-new') or '/usr/bin/z3'
    if expect == 'sat':
        # vacuity / reachability / canary: as in-process, the full query first (short budget), then its quantifier-free part
        r, d = run_z3_cli(smt2, 10, binary=z3_bin)
        if r in ('sat', 'unsat'):
            out.update(res=r, backend='%s (separate process, after in-process z3 ignored its timeout)' % os.path.basename(z3_bin))
        else:
            fs = z3.parse_smt2_string(smt2)
            conj = []
            for f in fs:
                conj.extend(_flatten_and(f))
            qf = [c for c in conj if not _has_quantifier(c)]
            r, d2 = run_z3_cli(_to_smt2(z3.And(*qf)) if qf else '(check-sat)', 60, binary=z3_bin)
            if r == 'sat':
                out.update(res='sat', backend='%s (separate process, after in-process z3 ignored its timeout; quantifier-free part: %d of %d conjuncts)' % (os.path.basename(z3_bin), len(qf), len(conj)))
            else:
                out['detail'] += ' | full: %s | quantifier-free part: %s' % (d[:100], d2[:100])
        out['seconds'] = time.time() - t0
        return out
    attempts = [('z3-cli', 7, 2), ('cvc5', 0, 0), ('z3-cli', 13, 2), ('z3-cli', 0, 6)]
    for kind, rs, mult in attempts:
        if kind == 'cvc5':
            if cvc5_s <= 0:
                continue
            r, d = run_cvc5(smt2, cvc5_s)
            name = 'cvc5-cli'
        else:
            r, d = run_z3_cli(smt2, max(1, mult * z3_ms // 1000), binary=z3_bin, extra=('smt.random_seed=%d' % rs,))
            name = '%s seed %d' % (os.path.basename(z3_bin), rs)
        if r in ('sat', 'unsat'):
            out['res'] = r
            out['backend'] = '%s (separate process, after in-process z3 ignored its timeout)' % name
            break
        out['detail'] += ' | %s: %s' % (name, d[:120])
    out['seconds'] = time.time() - t0
    return out


def _worker_loop(conn):
    global _WD
    _WD = _Watchdog(conn)
    while True:
        try:
            job = conn.recv()
        except EOFError:
            break
        if job is None:
            break
        _WD.idx = job[0]
        try:
            out = _solve_worker(job)
        except Exception as e:  # never lose a job
            out = {'idx': job[0], 'res': 'unknown', 'backend': '', 'detail': 'worker exception: %r' % (e,), 'seconds': 0.0}
        conn.send(out)


def run_jobs(jobs, procs=16):
    """Run solver jobs on `procs` forked workers; a worker that reports a hang (or dies) is replaced and its job re-queued
    once in command-line-only mode.  Returns the result dicts in job order."""
    from multiprocessing.connection import wait as mp_wait

    mp = multiprocessing.get_context('fork')

    def spawn():
        pc, cc = mp.Pipe()
        p = mp.Process(target=_worker_loop, args=(cc,), daemon=True)
        p.start()
        cc.close()
        return {'p': p, 'c': pc, 'job': None}

    def retire(w):
        try:
            w['p'].kill()
            w['p'].join(5)
            w['c'].close()
        except Exception:
            pass

    pending = list(jobs)[::-1]
    results = {}
    hung = 0
    workers = [spawn() for _ in range(max(1, min(procs, len(jobs))))]
    while len(results) < len(jobs):
        for w in workers:
            if w['job'] is None and pending:
                w['job'] = pending.pop()
                w['c'].send(w['job'])
        busy = [w for w in workers if w['job'] is not None]
        ready = mp_wait([w['c'] for w in busy], timeout=1.0)
        for w in busy:
            if w['c'] not in ready:
                continue
            try:
                r = w['c'].recv()
            except (EOFError, OSError):
                r = None
            if r is not None and not r.get('hung'):
                results[r['idx']] = r
                w['job'] = None
                continue
            job = w['job']
            retire(w)
            workers[workers.index(w)] = spawn()
            hung += 1
            if len(job) > 6 and job[6] == 'cli':
                results[job[0]] = {'idx': job[0], 'res': 'unknown', 'backend': '', 'detail': 'worker lost twice', 'seconds': 0.0}
            else:
                pending.append(tuple(job[:6]) + ('cli',))
    for w in workers:
        try:
            w['c'].send(None)
        except Exception:
            pass
    for w in workers:
        w['p'].join(2)
        if w['p'].is_alive():
            retire(w)
    return [results[j[0]] for j in jobs]


def _solve_worker(job):
    idx, smt2, expect, z3_ms, cvc5_s, use_cvc5_first = job[:6]
    if len(job) > 6 and job[6] == 'cli':
        return _solve_cli_only(job)
    t0 = time.time()
    out = {'idx': idx, 'res': 'unknown', 'backend': '', 'detail': ''}
    if use_cvc5_first and cvc5_s > 0:
        # obligations the contract marks as known to be out of z3's reach within its budget (32-bit multiplications):
        # ask cvc5 first instead of spending z3's whole budget before every answer
        r2, d2 = run_cvc5(smt2, cvc5_s)
        if r2 in ('sat', 'unsat'):
            out.update(res=r2, backend='cvc5-cli', seconds=time.time() - t0)
            return out
        out['detail'] = 'cvc5: ' + d2 + ' | '
        cvc5_s = 0
    z3_timed_out = False
    try:
        s = z3.Solver()
        s.set('timeout', z3_ms if expect == 'unsat' else min(z3_ms, 5000))
        s.from_string(smt2)
        r = _guarded_check(s, z3_ms if expect == 'unsat' else min(z3_ms, 5000))
        out['backend'] = 'z3-' + z3.get_version_string()
        if r == z3.unknown and expect == 'unsat':
            # The pool worker's default z3 context is shared by every obligation the worker has solved before, and
            # that history changes term ids and with them the order of quantifier instantiation: measured on the C30
            # paging VCs, about 1 solve in 10^4 comes back `unknown (incomplete quantifiers)` in a shared context and
            # 0 of 5*10^4 in a fresh one.  An `unknown` is therefore re-solved in fresh contexts (the verdict is then a
            # function of the SMT-LIB text alone) before it counts as undecided.  A retry can only replace `unknown` by
            # a definite answer of the same solver on the same text; timeouts are not retried (cvc5 takes those).
            first_reason = s.reason_unknown()
            for attempt, rs in enumerate(() if re.search('timeout|canceled', first_reason) else RETRY_SEEDS):
                c2 = z3.Context()
                s = z3.Solver(ctx=c2)
                s.set('timeout', z3_ms)
                s.set('random_seed', rs)
                s.from_string(smt2)
                r = _guarded_check(s, z3_ms)
                if r != z3.unknown:
                    out['backend'] += ' (fresh context, retry %d after: %s)' % (attempt + 1, first_reason[:60])
                    break
        if r == z3.sat:
            out['res'] = 'sat'
        elif r == z3.unsat:
            out['res'] = 'unsat'
        else:
            out['detail'] += 'z3: ' + s.reason_unknown()
            z3_timed_out = bool(re.search('timeout|canceled', s.reason_unknown()))
            if expect == 'sat':
                # satisfiability under quantified hypotheses is not decidable by the solver: re-check the
                # quantifier-free part of the top-level conjunction (recorded in the backend string)
                fs = z3.parse_smt2_string(smt2)
                conj = []
                for f in fs:
                    conj.extend(_flatten_and(f))
                qf = [c for c in conj if not _has_quantifier(c)]
                r2 = z3.unknown
                for mult in (1, 4):  # the quantifier-free part gets the full budget, then four times it (loaded machine)
                    s2 = z3.Solver()
                    s2.set('timeout', mult * z3_ms)
                    s2.add(*qf)
                    r2 = _guarded_check(s2, mult * z3_ms)
                    if r2 != z3.unknown:
                        break
                if r2 == z3.sat:
                    out['res'] = 'sat'
                    out['backend'] += ' (quantifier-free part: %d of %d conjuncts)' % (len(qf), len(conj))
                    cvc5_s = 0
    except Exception as e:  # z3 internal error: treat as unknown
        out['detail'] = 'z3 exception: %r' % (e,)
    if out['res'] == 'unknown' and cvc5_s > 0:
        r2, d2 = run_cvc5(smt2, cvc5_s)
        if r2 in ('sat', 'unsat'):
            out['res'] = r2
            out['backend'] = 'cvc5-cli'
        out['detail'] += ' | cvc5: ' + d2
    if out['res'] == 'unknown' and expect == 'unsat' and z3_timed_out:
        # The same SMT-LIB text was seen to time out in-process (in every fresh context of that process) while the z3 binary
        # decides it at once: the in-process search depends on the process's memory layout, which the obligations built
        # earlier in the run determine.  A separate process takes that history out of the verdict: ask the binary first.
        z3_bin = shutil.which('z3-new') or '/usr/bin/z3'
        try:
            rc_, d_ = run_z3_cli(smt2, max(5, z3_ms // 1000), binary=z3_bin)
        except Exception as e:  # pylint: disable=broad-except
            rc_, d_ = 'unknown', repr(e)
        if rc_ in ('sat', 'unsat'):
            out['res'] = rc_
            out['backend'] = '%s (separate process, after the in-process solve timed out)' % os.path.basename(z3_bin)
            out['seconds'] = time.time() - t0
            return out
        out['detail'] += ' | z3 binary: ' + d_[:80]
        # both budgets exhausted.  Solve times of quantified VCs are heavy-tailed and a loaded machine stretches them
        # (C19 closed-elems#2: 0.6 s, 1.6 s, 7 s and one 20 s timeout across four runs of the same text), so restart in
        # fresh contexts with other seeds, the last time with four times the budget: a verdict must not flip to undecided
        # merely because all cores are busy
        for attempt, (rs, mult) in enumerate(((7, 1), (13, 1), (0, 4))):
            try:
                s = z3.Solver(ctx=z3.Context())
                s.set('timeout', mult * z3_ms)
                s.set('random_seed', rs)
                s.from_string(smt2)
                r = _guarded_check(s, mult * z3_ms)
            except Exception as e:
                out['detail'] += ' | z3 restart exception: %r' % (e,)
                break
            if r != z3.unknown:
                out['res'] = 'sat' if r == z3.sat else 'unsat'
                out['backend'] = 'z3-%s (restart %d after timeout, seed %d, budget x%d)' % (z3.get_version_string(), attempt + 1, rs, mult)
                break
    out['seconds'] = time.time() - t0
    return out


def _consts_of(f, cache):
    i = f.get_id()
    if i in cache:
        return cache[i]
    out = set()
    stack = [f]
    seen = set()
    while stack:
        x = stack.pop()
        if x.get_id() in seen:
            continue
        seen.add(x.get_id())
        if z3.is_quantifier(x):
            stack.append(x.body())
            continue
        if z3.is_app(x):
            d = x.decl()
            if d.kind() == z3.Z3_OP_UNINTERPRETED:
                out.add(d.name())
            stack.extend(x.children())
    cache[i] = out
    return out


_SLICE_MEMO: Dict[int, set] = {}
_SLICE_PIN: Dict[int, Any] = {}


def slice_hyps(hyps, goal):
    """cone of influence: keep the hypotheses that (transitively) share an uninterpreted symbol with the goal.
    Dropping the others only strengthens the obligation, and they cannot be needed since they share no symbol."""
    # (wave 4) the symbol sets are memoised across calls: the path conditions of one procedure are shared by hundreds of
    # obligations (z3 terms are hash-consed, so the same conjunct has the same id); the term is pinned next to its entry so
    # that its id cannot be reused by another term while the entry exists
    cache = _SLICE_MEMO
    flat = []
    for h in hyps:
        flat.extend(_flatten_and(h))
    for h in flat + [goal]:
        _SLICE_PIN.setdefault(h.get_id(), h)
    syms = set(_consts_of(goal, cache))
    remaining = [(h, _consts_of(h, cache)) for h in flat]
    keep = []
    changed = True
    while changed:
        changed = False
        rest = []
        for h, cs in remaining:
            if cs & syms or not cs:
                keep.append(h)
                if cs - syms:
                    syms |= cs
                    changed = True
            else:
                rest.append((h, cs))
        remaining = rest
    return keep


def _flatten_and(f):
    if z3.is_and(f):
        out = []
        for c in f.children():
            out.extend(_flatten_and(c))
        return out
    return [f]


def _has_quantifier(f, _seen=None):
    seen = set() if _seen is None else _seen
    stack = [f]
    while stack:
        x = stack.pop()
        if x.get_id() in seen:
            continue
        seen.add(x.get_id())
        if z3.is_quantifier(x):
            return True
        stack.extend(x.children())
    return False


def run_cvc5(smt2: str, timeout_s: int, extra=()):
    text = smt2
    if '(set-logic' not in text:
        text = '(set-logic ALL)\n' + text
    with tempfile.NamedTemporaryFile('w', suffix='.smt2', delete=False) as f:
        f.write(text)
        path = f.name
    try:
        p = subprocess.run(
            ['/usr/bin/cvc5', '--strings-exp', '--tlimit=%d' % (timeout_s * 1000), *extra, path],
            capture_output=True,
            text=True,
            timeout=timeout_s + 10,
        )
        first = (p.stdout.strip().splitlines() or [''])[0].strip()
        if first in ('sat', 'unsat'):
            return first, first
        return 'unknown', (p.stdout + p.stderr).strip()[:300]
    except subprocess.TimeoutExpired:
        return 'unknown', 'timeout'
    finally:
        os.unlink(path)


def run_z3_cli(smt2: str, timeout_s: int, binary='/usr/bin/z3', extra=()):
    with tempfile.NamedTemporaryFile('w', suffix='.smt2', delete=False) as f:
        f.write(smt2)
        path = f.name
    try:
        p = subprocess.run([binary, '-T:%d' % timeout_s, *extra, path], capture_output=True, text=True, timeout=timeout_s + 10)
        first = (p.stdout.strip().splitlines() or [''])[0].strip()
        if first in ('sat', 'unsat'):
            return first, first
        return 'unknown', (p.stdout + p.stderr).strip()[:300]
    except subprocess.TimeoutExpired:
        return 'unknown', 'timeout'
    finally:
        os.unlink(path)


def discharge(obls: List[Obl], procs: int = 16, z3_ms: int = None, cvc5_s: int = None, progress=False):
    z3_ms = z3_ms or Z3_TIMEOUT_MS
    cvc5_s = CVC5_TIMEOUT_S if cvc5_s is None else cvc5_s
    jobs = []
    for i, o in enumerate(obls):
        if o.status != 'pending':
            continue
        try:
            o.smt2 = _to_smt2(o.query)
        except Exception as e:
            o.status = 'unknown'
            o.detail = 'serialisation failed: %r' % (e,)
            continue
        jobs.append((i, o.smt2, o.expect, o.info.get('z3_ms', z3_ms), cvc5_s, bool(o.info.get('cvc5_first'))))
    if not jobs:
        return
    results = run_jobs(jobs, procs)
    for r in results:
        o = obls[r['idx']]
        o.backend = r['backend']
        o.seconds = r['seconds']
        o.detail = r['detail']
        if r['res'] == 'unknown':
            o.status = 'unknown'
        elif r['res'] == o.expect:
            o.status = 'ok'
        else:
            o.status = 'failed'


def model_of(o: Obl, timeout_ms=60000):
    """Re-solve a failed VC in-process to obtain a z3 model (or None)."""
    if o.info.get('cvc5_first'):
        # (C21) the contract marked the VC as out of z3's reach (cvc5 decided it): z3 would spend - and, under load, ignore - its
        # whole budget here without producing the model; the failing input then comes from the obligation's native replayer
        return None
    s = z3.Solver()
    s.set('timeout', timeout_ms)
    s.add(o.query)
    if s.check() == z3.sat:
        return s.model()
    return None


def cross_check(obls: List[Obl], procs=16, timeout_s=60):
    """thorough tier: re-discharge every solver obligation with cvc5 (and z3 4.8.12); report disagreements."""
    jobs = [(i, o) for i, o in enumerate(obls) if o.smt2 and o.backend != 'syntactic']
    ctx = multiprocessing.get_context('fork')
    with ctx.Pool(procs) as pool:
        res = pool.map(_cross_worker, [(i, o.smt2, timeout_s) for i, o in jobs], chunksize=1)
    summary = {'cvc5_agree': 0, 'cvc5_unknown': 0, 'z3old_agree': 0, 'z3old_unknown': 0, 'disagree': []}
    for (i, o), (_, c5, zo) in zip(jobs, res):
        for tag, r in (('cvc5', c5), ('z3old', zo)):
            if r == 'unknown':
                summary[tag + '_unknown'] += 1
            elif (r == o.expect) == (o.status == 'ok'):
                summary[tag + '_agree'] += 1
            else:
                summary['disagree'].append({'obligation': o.name, 'solver': tag, 'got': r, 'primary': o.status})
    return summary


def _cross_worker(job):
    i, smt2, t = job
    c5, _ = run_cvc5(smt2, t)
    zo, _ = run_z3_cli(smt2, t)
    return i, c5, zo


# --------------------------------------------------------------------------------------------
# property context, evidence, verdicts


class Ctx:
    def __init__(self, pid: str, tier: str, seed: int):
        self.pid = pid
        self.tier = tier
        self.seed = seed
        self.obls: List[Obl] = []
        self.functions: List[str] = []
        self.assumptions: List[str] = []
        self.undecided_clauses: List[str] = []
        self.bounded: List[Dict[str, Any]] = []
        self.notes: List[str] = []
        self.replayers: Dict[str, Callable] = {}  # obligation-name prefix -> replay function(model, obl) -> dict|None
        self.witness_search: Optional[Callable] = None  # () -> {'confirmed': bool, 'input': ...}: concrete search on the real code
        self.extra: Dict[str, Any] = {}
        self.t0 = time.time()

    def add(self, o, replay: Callable = None):
        if isinstance(o, (list, tuple)):
            for x in o:
                self.add(x, replay)
            return
        if not o.name.startswith(self.pid + '/'):
            o.name = self.pid + '/' + o.name
        # same numbering as before (name, name#2, name#3, ...), looked up in a name set instead of scanning the list
        # (the scan was quadratic: 53 of 84 s of C12's obligation generation)
        names = self.__dict__.setdefault('_names', None)
        if names is None or len(names) != len(self.obls):
            names = self._names = {p.name for p in self.obls}
            self._next_k = {}
        if o.name in names:
            base = o.name
            k = self._next_k.get(base, 2)
            while '%s#%d' % (base, k) in names:
                k += 1
            self._next_k[base] = k + 1
            o.name = '%s#%d' % (base, k)
        names.add(o.name)
        self.obls.append(o)
        if replay is not None:
            self.replayers[o.name] = replay

    def under_contract(self, path, qualname):
        s = '%s::%s' % (path, qualname)
        if s not in self.functions:
            self.functions.append(s)

    def assume(self, text):
        if text not in self.assumptions:
            self.assumptions.append(text)

    def undecided(self, text):
        self.undecided_clauses.append(text)

    def bounded_standin(self, name, bound, cases, ok, detail=''):
        self.bounded.append({'name': name, 'bound': bound, 'cases': cases, 'ok': bool(ok), 'detail': detail})


def load_known_findings():
    p = os.path.join(VERIF, 'known_findings.json')
    if not os.path.exists(p):
        return []
    return json.load(open(p))['findings']


def match_known(pid, oname, findings):
    for f in findings:
        if f.get('property') != pid or f.get('status') != 'known':
            continue
        if re.fullmatch(f['obligation'], oname):
            return f
    return None


TRUSTED_BASE = [
    'CPython ast module (parsing of the real source re-read on every run)',
    'z3 5.1.0 (python wheel); cvc5 1.0.3 CLI as fallback for z3 unknowns',
    'the VC generators under /verif/vc (mitigated by canaries, vacuity checks, concrete cross-validation and the mutation self-test)',
]


def finish(ctx: Ctx, checker_cmd: str) -> int:
    """Discharge, replay failures, write evidence, print verdict lines, return exit code."""
    pid = ctx.pid
    if not ctx.obls:
        print('CHECKER-ERROR property=%s zero obligations generated' % pid)
        return 3
    discharge(ctx.obls)
    findings = load_known_findings()
    _refute_unknowns(ctx)
    failed = [o for o in ctx.obls if o.status == 'failed']
    unknown = [o for o in ctx.obls if o.status == 'unknown']
    rc = 0
    lines = []
    violations = 0
    checker_bug = False
    os.makedirs(os.path.join(VERIF, 'replays'), exist_ok=True)
    known_hits = []
    for o in failed:
        if o.kind in ('canary', 'vacuity'):
            # a canary that verifies / a precondition that is unsatisfiable: machinery or contract broken
            lines.append('CHECKER-ERROR property=%s %s obligation %s came back %s' % (pid, o.kind, o.name, 'unsat'))
            checker_bug = True
            continue
        kf = match_known(pid, o.name, findings)
        rep = o.info.get('__replay__')
        model = o.info.get('__model__')
        if rep is None:
            if o.query is not None:
                try:
                    model = model_of(o)
                except Exception:
                    model = None
            replayer = ctx.replayers.get(o.name)
            if replayer is not None:
                try:
                    rep = replayer(model, o)
                except Exception:
                    rep = {'confirmed': False, 'error': traceback.format_exc()}
            if not (rep and rep.get('confirmed')) and ctx.witness_search is not None:
                w = _search_once(ctx)
                if w is not None:
                    rep = w
        if kf is not None and (rep is None or kf.get('needs_confirmed', False) is False or rep.get('confirmed')):
            if not any(k is kf for k, _ in known_hits):
                lines.append('KNOWN-FINDING: property=%s %s [first failing obligation: %s]' % (pid, kf['text'], o.name))
            known_hits.append((kf, o))
            continue
        violations += 1
        path = os.path.join(VERIF, 'replays', '%s-%s.json' % (pid, re.sub(r'[^A-Za-z0-9_.-]+', '_', o.name)[-120:]))
        doc = {
            'property': pid,
            'obligation': o.name,
            'kind': o.kind,
            'info': _jsonable({k: v for k, v in o.info.items() if not k.startswith('__')}),
            'solver': o.backend,
            'solver_output': o.info.get('__solver_output__', 'sat (counter-model exists): the negated obligation is satisfiable')
            if o.query is not None
            else o.detail,
            'counter_model': _model_dict(model),
            'replay': _jsonable(rep),
            'smt2': o.smt2,
        }
        with open(path, 'w') as f:
            json.dump(doc, f, indent=1, default=str)
        tail = '' if (rep and rep.get('confirmed')) else ' no-failing-input-found'
        lines.append('VIOLATION property=%s replay=%s%s' % (pid, path, tail))
        lines.append('  failed obligation: %s %s' % (o.name, ('input=%s' % json.dumps(rep.get('input'), default=str)[:300]) if rep and rep.get('confirmed') else ''))
    for b in ctx.bounded:
        if not b['ok']:
            kf = match_known(pid, 'bounded/' + b['name'], findings)
            if kf:
                lines.append('KNOWN-FINDING: property=%s %s [bounded/%s]' % (pid, kf['text'], b['name']))
                continue
            violations += 1
            path = os.path.join(VERIF, 'replays', '%s-bounded-%s.json' % (pid, re.sub(r'[^A-Za-z0-9_.-]+', '_', b['name'])))
            json.dump(b, open(path, 'w'), indent=1, default=str)
            lines.append('VIOLATION property=%s replay=%s' % (pid, path))
    if violations:
        rc = 1  # a failed obligation of the claim outranks a failed vacuity/canary side-check (often its consequence)
    elif checker_bug:
        rc = 3
    elif unknown:
        rc = 2
        for o in unknown:
            lines.append('UNDECIDED property=%s obligation=%s (%s)' % (pid, o.name, o.detail[:200]))
    n_solver = len([o for o in ctx.obls])
    n_ok = len([o for o in ctx.obls if o.status == 'ok'])
    by_backend: Dict[str, int] = {}
    for o in ctx.obls:
        by_backend[o.backend or 'none'] = by_backend.get(o.backend or 'none', 0) + 1
    samples = []
    for o in sorted(ctx.obls, key=lambda o: -o.seconds)[:3] + ctx.obls[:3]:
        samples.append(
            {
                'obligation': o.name,
                'kind': o.kind,
                'expect': o.expect,
                'status': o.status,
                'backend': o.backend,
                'seconds': round(o.seconds, 3),
                'smt2_bytes': len(o.smt2 or ''),
                'smt2_head': (o.smt2 or o.detail or '')[:400],
            }
        )
    cross = ctx.extra.get('cross_check')
    ev = {
        'property_id': pid,
        'tier': ctx.tier,
        'seed': ctx.seed,
        'level': 'proof',
        'coverage': {
            # obligations that fail exactly as a listed known finding are reported separately (known_findings_hit) and are
            # not counted here: `discharged == obligations` then means every other obligation was discharged
            'obligations': n_solver - len(known_hits),
            'discharged': n_ok,
            'obligations_including_known_findings': n_solver,
            'checker_cmd': checker_cmd,
            'trusted_base': TRUSTED_BASE + ctx.extra.get('trusted_base', []),
            'functions_under_contract': ctx.functions,
            'by_backend': by_backend,
            'by_kind': _count(o.kind for o in ctx.obls),
            'solver_s': round(sum(o.seconds for o in ctx.obls), 3),
            'undecided_clauses': ctx.undecided_clauses,
            'bounded_standins': ctx.bounded,
            'known_findings_hit': [{'obligation': o.name, 'text': kf['text']} for kf, o in known_hits],
            'failed': [o.name for o in failed if o.kind not in ('canary', 'vacuity')],
            'unknown': [o.name for o in unknown],
            'samples': samples,
            'all_obligations': [[o.name, o.status, o.backend, round(o.seconds, 3)] for o in ctx.obls],
            'notes': ctx.notes,
        },
        'assumptions': ctx.assumptions,
        'wall_s': round(time.time() - ctx.t0, 3),
        'violations': violations,
    }
    if cross is not None:
        ev['coverage']['cross_check'] = cross
    for k, v in ctx.extra.items():
        if k not in ('cross_check', 'trusted_base') and not k.startswith('__'):
            ev['coverage'][k] = _jsonable(v)
    os.makedirs(EVIDENCE_DIR, exist_ok=True)
    with open(os.path.join(EVIDENCE_DIR, pid + '.json'), 'w') as f:
        json.dump(ev, f, indent=1, default=str)
    for l in lines:
        print(l)
    print(
        'RESULT property=%s tier=%s obligations=%d discharged=%d failed=%d unknown=%d known=%d wall=%.1fs exit=%d'
        % (pid, ctx.tier, n_solver, n_ok, len(failed), len(unknown), len(known_hits), time.time() - ctx.t0, rc)
    )
    return rc


def _search_once(ctx):
    if '__witness__' not in ctx.extra:
        try:
            ctx.extra['__witness__'] = ctx.witness_search()
        except Exception:
            ctx.extra['__witness__'] = {'confirmed': False, 'error': traceback.format_exc()}
    w = ctx.extra['__witness__']
    return w if (w and w.get('confirmed')) else None


def _refute_unknowns(ctx):
    """An obligation the solver leaves `unknown` is undecided, not violated.  Try to turn it into a sound refutation:
    (1) drop the quantified hypotheses (fewer hypotheses: any model is only a CANDIDATE), solve, and replay the
    candidate on the real code; (2) run the property's concrete witness search on the real code.  Only a witness that
    the real code confirms turns the obligation into `failed`; otherwise it stays `unknown` (exit 2)."""
    for o in ctx.obls:
        if o.status != 'unknown' or o.expect != 'unsat' or o.query is None:
            continue
        rep = None
        model = None
        replayer = ctx.replayers.get(o.name)
        if replayer is not None:
            try:
                conj = _flatten_and(o.query)
                goal = conj[-1]
                qf = [c for c in conj[:-1] if not _has_quantifier(c)] + [goal]
                s = z3.Solver()
                s.set('timeout', 10000)
                s.add(*qf)
                if s.check() == z3.sat:
                    model = s.model()
                    rep = replayer(model, o)
            except Exception:
                rep = {'confirmed': False, 'error': traceback.format_exc()}
        if not (rep and rep.get('confirmed')) and ctx.witness_search is not None:
            rep = _search_once(ctx)
        if rep and rep.get('confirmed'):
            o.status = 'failed'
            o.info['__replay__'] = rep
            o.info['__model__'] = model
            o.info['__solver_output__'] = 'unknown (%s); refuted by a witness confirmed on the real code' % o.detail[:200]


def _count(it):
    d: Dict[str, int] = {}
    for x in it:
        d[x] = d.get(x, 0) + 1
    return d


def _model_dict(m):
    if m is None:
        return None
    out = {}
    for d in m.decls():
        try:
            out[d.name()] = str(m[d])[:500]
        except Exception:
            pass
    return out


def _jsonable(x):
    try:
        json.dumps(x)
        return x
    except Exception:
        if isinstance(x, dict):
            return {str(k): _jsonable(v) for k, v in x.items()}
        if isinstance(x, (list, tuple)):
            return [_jsonable(v) for v in x]
        return repr(x)


# --------------------------------------------------------------------------------------------
# source location helpers


def read_repo(path: str) -> str:
    full = os.path.join(REPO, path)
    if not os.path.exists(full):
        raise Undecided('anchor-moved: file %s not found' % path)
    return open(full, encoding='utf-8').read()


def run_native(script: str, payload: dict, timeout=120) -> dict:
    """Run a replay script under /venv/bin/python (real code, stub importer). Returns its JSON output."""
    env = dict(os.environ)
    env['VERIF_REPO'] = REPO
    env['PYTHONPATH'] = VERIF
    env['PYTHONDONTWRITEBYTECODE'] = '1'
    try:
        p = subprocess.run(
            [VENV_PY, '-c', script], input=json.dumps(payload), capture_output=True, text=True, timeout=timeout, env=env, cwd=VERIF
        )
    except subprocess.TimeoutExpired:
        return {'error': 'replay host timed out after %ds' % timeout, 'confirmed': False}
    if p.returncode != 0:
        return {'error': 'replay host failed', 'stderr': p.stderr[-2000:], 'stdout': p.stdout[-500:]}
    try:
        return json.loads(p.stdout.strip().splitlines()[-1])
    except Exception:
        return {'error': 'replay host output not JSON', 'stdout': p.stdout[-2000:], 'stderr': p.stderr[-2000:]}
