"""Front end for the Hail batch MySQL migrations: tokenizer, script splitter,
recursive-descent parser for the procedural/DML subset, tolerant DDL replay.

Public API (see the individual docstrings):

    migration_files(repo)            ordered migration paths from build.yaml
    effective_routines(repo)         name -> Routine after replaying all migrations
    effective_tables(repo)           name -> Table   after replaying all migrations
    routine_history(repo)            every CREATE/DROP of a routine, in order
    py_routine_ddl(repo)             routine DDL found inside .py migrations
    replay_notes(repo)               things tolerated during the replay
    parse_statement(text)            one standalone statement (embedded SQL)
    parse_statements(text)           several, separated by ';'
    parse_expr(text)                 one expression
    parse_routine(text, file, line)  one CREATE PROCEDURE|FUNCTION|TRIGGER
    split_script(text)               DELIMITER-aware splitting of a .sql file
    tokenize(text)                   the tokenizer

    python3-vt -m vc.sqlparse --selftest

Design rules: hand-written tokenizer + recursive descent that follows the
MySQL grammar's expression layering (expr / bool_pri / predicate / bit_expr /
simple_expr); everything outside the subset raises SqlUnsupported - nothing is
skipped silently.  The only tolerant part is table DDL, where whatever cannot
be interpreted is recorded in Table.unparsed / replay_notes.
"""
from __future__ import annotations

import ast as _pyast
import bisect
import functools
import glob
import os
import re
import sys
from typing import Any, Optional

from .sqlast import *          # noqa: F401,F403  (re-export the AST)
from .sqlast import (RESERVED, SqlSyntaxError, SqlUnsupported)

# ==========================================================================
# 1. Tokenizer
# ==========================================================================

class Token:
    """kind: 'ident' | 'num' | 'str' | 'op' | 'uservar' | 'param' | 'nparam' |
    'hole' | 'eof'.  value: identifier text / number text / decoded string /
    operator / variable name / placeholder index or name / hole text.
    quoted: identifier was back-quoted (so it is never a keyword).
    pos, end: offsets into the tokenized text; line: 1-based source line."""
    __slots__ = ('kind', 'value', 'line', 'pos', 'end', 'quoted')

    def __init__(self, kind, value, line, pos, end, quoted=False):
        self.kind, self.value, self.line = kind, value, line
        self.pos, self.end, self.quoted = pos, end, quoted

    @property
    def upper(self):
        return self.value.upper() if self.kind == 'ident' and not self.quoted else None

    def __repr__(self):
        return 'Token(%s,%r,l%d)' % (self.kind, self.value, self.line)

    def describe(self):
        if self.kind == 'eof':
            return 'end of input'
        if self.kind == 'str':
            return 'string %r' % self.value
        return '%s %r' % (self.kind, self.value)


_OPS3 = ('<=>',)
_OPS2 = ('<=', '>=', '<>', '!=', ':=', '<<', '>>', '&&', '||', '->')
_OPS1 = '()+-*/%=<>,;.!&|^~:'
_ESCAPES = {'0': '\0', 'b': '\b', 'n': '\n', 'r': '\r', 't': '\t', 'Z': '\x1a',
            '\\': '\\', "'": "'", '"': '"'}
_IDENT_START = re.compile(r'[A-Za-z_$\u0080-\uffff]')
_IDENT_CHARS = re.compile(r'[A-Za-z0-9_$\u0080-\uffff]*')
_NUMBER = re.compile(r'(?:\d+\.\d*|\.\d+|\d+)(?:[eE][+-]?\d+)?')
_NPARAM = re.compile(r'%\(([A-Za-z_][A-Za-z0-9_]*)\)s')


def _skip_quoted(text, i, file, line):
    """text[i] is a quote character (' " or `); return the index just past the
    closing quote.  Doubled quotes and (for ' and ") backslash escapes are
    honoured."""
    q = text[i]
    n = len(text)
    j = i + 1
    while j < n:
        c = text[j]
        if c == '\\' and q != '`':
            j += 2
            continue
        if c == q:
            if j + 1 < n and text[j + 1] == q:
                j += 2
                continue
            return j + 1
        j += 1
    raise SqlSyntaxError('unterminated %s-quoted text' % q, file, line)


def _decode_string(body, q):
    """Decode the inside of a q-quoted string literal: backslash escapes and
    doubled quote characters, in one left-to-right pass."""
    out = []
    i, n = 0, len(body)
    while i < n:
        c = body[i]
        if c == '\\' and i + 1 < n:
            d = body[i + 1]
            # MySQL: \% and \_ keep the backslash (LIKE patterns)
            out.append(_ESCAPES.get(d, '\\' + d if d in '%_' else d))
            i += 2
        elif c == q and body[i + 1:i + 2] == q:
            out.append(q)
            i += 2
        else:
            out.append(c)
            i += 1
    return ''.join(out)


def _skip_hole(text, i, file, line):
    """text[i] == '{'; return index past the matching '}' (nested braces and
    Python string literals inside the hole are skipped)."""
    depth = 0
    n = len(text)
    j = i
    while j < n:
        c = text[j]
        if c == '{':
            depth += 1
        elif c == '}':
            depth -= 1
            if depth == 0:
                return j + 1
        elif c in '\'"':
            k = j + 1
            while k < n and text[k] != c:
                k += 2 if text[k] == '\\' else 1
            j = k
        j += 1
    raise SqlSyntaxError('unterminated {hole}', file, line)


def _comment_end(text, i):
    """If a comment starts at text[i] return the index just past it, else -1.
    Raises for executable comments (/*! and /*+) which are not plain comments."""
    c = text[i]
    if c == '#':
        j = text.find('\n', i)
        return len(text) if j < 0 else j
    if c == '-' and text.startswith('--', i):
        nxt = text[i + 2:i + 3]
        if nxt == '' or nxt in ' \t\r\n\x0b\x0c':
            j = text.find('\n', i)
            return len(text) if j < 0 else j
        return -1
    if c == '/' and text.startswith('/*', i):
        if text[i + 2:i + 3] in ('!', '+'):
            raise SqlUnsupported('executable comment /*! or optimizer hint /*+')
        j = text.find('*/', i + 2)
        if j < 0:
            raise SqlSyntaxError('unterminated /* comment')
        return j + 2
    return -1


def tokenize(text: str, file: Optional[str] = None, line: int = 1,
             placeholders: bool = False) -> list:
    """Tokenize `text`.  `line` is the source line of text[0].

    placeholders=False (migration files): '%' is always the modulo operator and
    '{' is an error.  placeholders=True (SQL embedded in Python): `%s` and
    `%(name)s` are driver placeholders, `%%` is a literal '%' operator and
    `{...}` is a Python format hole; a hole glued to identifier characters
    (`jobs_{x}`) becomes one composite hole token.
    """
    toks = []
    i, n = 0, len(text)
    nparam = 0
    nl = [m.start() for m in re.finditer('\n', text)]

    def ln(pos):
        return line + bisect.bisect_left(nl, pos)

    while i < n:
        c = text[i]
        if c.isspace():
            i += 1
            continue
        try:
            ce = _comment_end(text, i)
        except SqlUnsupported as e:
            raise type(e)(e.message, file, ln(i))
        if ce >= 0:
            i = ce
            continue
        start = i
        if c in '\'"':
            end = _skip_quoted(text, i, file, ln(i))
            toks.append(Token('str', _decode_string(text[i + 1:end - 1], c), ln(start), start, end))
            i = end
            continue
        if c == '`':
            end = _skip_quoted(text, i, file, ln(i))
            toks.append(Token('ident', text[i + 1:end - 1].replace('``', '`'), ln(start), start, end, True))
            i = end
            continue
        if c == '@':
            if text.startswith('@@', i):
                raise SqlUnsupported('system variable reference @@...', file, ln(i))
            if text[i + 1:i + 2] == '`':
                end = _skip_quoted(text, i + 1, file, ln(i))
                name = text[i + 2:end - 1].replace('``', '`')
            else:
                m = re.compile(r'[A-Za-z0-9_.$]+').match(text, i + 1)
                if not m:
                    raise SqlSyntaxError("stray '@'", file, ln(i))
                end, name = m.end(), m.group(0)
            toks.append(Token('uservar', name, ln(start), start, end))
            i = end
            continue
        if placeholders and c == '%':
            if text.startswith('%%', i):
                toks.append(Token('op', '%', ln(start), start, i + 2))
                i += 2
                continue
            m = _NPARAM.match(text, i)
            if m:
                toks.append(Token('nparam', m.group(1), ln(start), start, m.end()))
                i = m.end()
                continue
            if text.startswith('%s', i) and not _IDENT_CHARS.match(text, i + 2).group(0):
                toks.append(Token('param', nparam, ln(start), start, i + 2))
                nparam += 1
                i += 2
                continue
        if c.isdigit() or (c == '.' and text[i + 1:i + 2].isdigit()
                           and not (toks and toks[-1].kind == 'ident' and toks[-1].end == i)):
            m = _NUMBER.match(text, i)
            end = m.end()
            if _IDENT_START.match(text[end:end + 1] or ' '):
                raise SqlSyntaxError('identifier or malformed number starting with a digit: %r'
                                     % text[i:end + 10], file, ln(i))
            toks.append(Token('num', m.group(0), ln(start), start, end))
            i = end
            continue
        if _IDENT_START.match(c) or (placeholders and c == '{'):
            # identifier, or (in placeholder mode) a run of identifier chars and holes
            j = i
            has_hole = False
            while j < n:
                if placeholders and text[j] == '{':
                    j = _skip_hole(text, j, file, ln(j))
                    has_hole = True
                    continue
                m = _IDENT_CHARS.match(text, j)
                if m.end() == j:
                    break
                j = m.end()
            if has_hole:
                toks.append(Token('hole', text[i:j], ln(start), start, j))
            else:
                toks.append(Token('ident', text[i:j], ln(start), start, j))
            i = j
            continue
        if c == '{':
            raise SqlSyntaxError("'{' outside embedded SQL", file, ln(i))
        for ops, k in ((_OPS3, 3), (_OPS2, 2)):
            if text[i:i + k] in ops:
                toks.append(Token('op', text[i:i + k], ln(start), start, i + k))
                i += k
                break
        else:
            if c in _OPS1:
                toks.append(Token('op', c, ln(start), start, i + 1))
                i += 1
            else:
                raise SqlSyntaxError('unexpected character %r' % c, file, ln(i))
    toks.append(Token('eof', None, ln(n - 1) if n else line, n, n))
    return toks


# ==========================================================================
# 2. Script splitter (DELIMITER handling)
# ==========================================================================

class RawStmt:
    """One top-level statement of a .sql file: text (without the delimiter),
    first_line / last_line (1-based, of its first / last significant char)."""
    __slots__ = ('text', 'first_line', 'last_line')

    def __init__(self, text, first_line, last_line):
        self.text, self.first_line, self.last_line = text, first_line, last_line

    def __repr__(self):
        return 'RawStmt(l%d-%d,%r)' % (self.first_line, self.last_line, self.text[:40])


_DELIM_RE = re.compile(r'DELIMITER[ \t]+(\S+)[ \t]*(?=\r?\n|$)', re.I)


def split_script(text: str, file: Optional[str] = None) -> list:
    """Split a mysql-client script into statements, honouring `DELIMITER xx`
    directives, comments (#, -- , /* */), back-quotes and both string quotes.
    A DELIMITER directive is recognised only at a statement boundary."""
    nl = [m.start() for m in re.finditer('\n', text)]

    def ln(pos):
        return 1 + bisect.bisect_left(nl, pos)

    out = []
    delim = ';'
    i, n = 0, len(text)
    start = None          # offset of the first significant char of the current statement
    last = None           # offset just past the last significant char seen

    def emit(end):
        nonlocal start, last
        if start is not None and last is not None and last > start:
            out.append(RawStmt(text[start:last], ln(start), ln(last - 1)))
        start = last = None

    while i < n:
        c = text[i]
        if c.isspace():
            i += 1
            continue
        try:
            ce = _comment_end(text, i)
        except SqlUnsupported as e:
            raise type(e)(e.message, file, ln(i))
        if ce >= 0:
            i = ce
            continue
        if start is None:
            m = _DELIM_RE.match(text, i)
            if m:
                delim = m.group(1)
                i = m.end()
                continue
        if text.startswith(delim, i):
            emit(i)
            i += len(delim)
            continue
        if start is None:
            start = i
        if c in '\'"`':
            i = _skip_quoted(text, i, file, ln(i))
        else:
            i += 1
        last = i
    emit(n)
    return out


# ==========================================================================
# 3. Parser: infrastructure, types, expressions
# ==========================================================================

# Unquoted words that may not be taken as an implicit alias (`FROM t x`,
# `SELECT e x`).  RESERVED plus a few non-reserved words that can legally
# follow a table reference or select expression.
_NO_IMPLICIT_ALIAS = RESERVED | frozenset(
    'END DO UNTIL OFFSET BEGIN WINDOW'.split())

# Reserved words that are nevertheless callable as functions.
_RESERVED_FUNCS = frozenset(
    'IF LEFT RIGHT REPLACE INSERT MOD REPEAT VALUES DATABASE CHAR'.split())

# Niladic functions that may be written without parentheses.
_NILADIC = frozenset('CURRENT_TIMESTAMP CURRENT_DATE CURRENT_TIME CURRENT_USER LOCALTIME '
                     'LOCALTIMESTAMP UTC_DATE UTC_TIME UTC_TIMESTAMP'.split())

_INTERVAL_UNITS = frozenset(
    'MICROSECOND SECOND MINUTE HOUR DAY WEEK MONTH QUARTER YEAR'.split())

_TYPE_SYNONYMS = {'INTEGER': 'INT', 'BOOL': 'BOOLEAN', 'DEC': 'DECIMAL', 'NUMERIC': 'DECIMAL',
                  'FIXED': 'DECIMAL', 'REAL': 'DOUBLE'}
_KNOWN_TYPES = frozenset('''TINYINT SMALLINT MEDIUMINT INT BIGINT BOOLEAN BIT DECIMAL FLOAT DOUBLE
DATE TIME DATETIME TIMESTAMP YEAR CHAR VARCHAR BINARY VARBINARY TINYBLOB BLOB MEDIUMBLOB LONGBLOB
TINYTEXT TEXT MEDIUMTEXT LONGTEXT ENUM SET JSON SIGNED UNSIGNED'''.split())

_COMPARE_OPS = {'=': '=', '<=>': '<=>', '<>': '<>', '!=': '<>', '<': '<', '<=': '<=',
                '>': '>', '>=': '>='}


class Parser:
    """Recursive-descent parser over a token list.

    in_routine   True while parsing a stored-routine body (BEGIN ... END blocks,
                 DECLARE etc. are only legal there)
    """

    def __init__(self, text: str, file: Optional[str] = None, line: int = 1,
                 placeholders: bool = False, tokens: Optional[list] = None):
        self.text = text
        self.file = file
        self.toks = tokens if tokens is not None else tokenize(text, file, line, placeholders)
        self.i = 0
        self.in_routine = False

    # ---- token helpers ---------------------------------------------------

    @property
    def tok(self) -> Token:
        return self.toks[self.i]

    def peek(self, k: int = 1) -> Token:
        j = min(self.i + k, len(self.toks) - 1)
        return self.toks[j]

    def advance(self) -> Token:
        t = self.toks[self.i]
        if t.kind != 'eof':
            self.i += 1
        return t

    def fail(self, msg: str, tok: Optional[Token] = None, unsupported: bool = False):
        t = tok or self.tok
        cls = SqlUnsupported if unsupported else SqlSyntaxError
        raise cls(msg, self.file, t.line)

    def unsupported(self, what: str, tok: Optional[Token] = None):
        self.fail('unsupported: ' + what, tok, unsupported=True)

    def unexpected(self, expected: str = ''):
        self.fail('unexpected %s%s' % (self.tok.describe(), (', expected ' + expected) if expected else ''))

    def kw(self, *names) -> Optional[str]:
        """The current token as an upper-cased keyword if it is one of `names`."""
        u = self.tok.upper
        return u if u in names else None

    def kw_at(self, k: int, *names) -> Optional[str]:
        u = self.peek(k).upper
        return u if u in names else None

    def accept_kw(self, *names) -> Optional[str]:
        u = self.kw(*names)
        if u:
            self.i += 1
        return u

    def expect_kw(self, *names) -> str:
        u = self.accept_kw(*names)
        if not u:
            self.unexpected(' or '.join(names))
        return u

    def op(self, *ops) -> Optional[str]:
        t = self.tok
        return t.value if t.kind == 'op' and t.value in ops else None

    def op_at(self, k: int, *ops) -> Optional[str]:
        t = self.peek(k)
        return t.value if t.kind == 'op' and t.value in ops else None

    def accept_op(self, *ops) -> Optional[str]:
        o = self.op(*ops)
        if o:
            self.i += 1
        return o

    def expect_op(self, *ops) -> str:
        o = self.accept_op(*ops)
        if not o:
            self.unexpected(' or '.join(repr(x) for x in ops))
        return o

    def at_eof(self) -> bool:
        return self.tok.kind == 'eof'

    def is_ident(self, allow_reserved: bool = False) -> bool:
        t = self.tok
        return t.kind == 'ident' and (t.quoted or allow_reserved or t.value.upper() not in RESERVED)

    def ident(self, what: str = 'identifier', allow_reserved: bool = False) -> str:
        if not self.is_ident(allow_reserved):
            self.unexpected(what)
        return self.advance().value

    def raw(self, first: Token, last: Token) -> str:
        """Source text from token `first` to token `last` inclusive."""
        return self.text[first.pos:last.end]

    # ---- types -----------------------------------------------------------

    def parse_type(self) -> SqlType:
        t = self.tok
        if t.kind != 'ident' or t.quoted:
            self.unexpected('a data type')
        base = self.advance().value.upper()
        if base == 'DOUBLE' and self.kw('PRECISION'):
            self.advance()
        if base == 'NATIONAL' or base == 'LONG':
            self.unsupported('type %s ...' % base, t)
        base = _TYPE_SYNONYMS.get(base, base)
        if base not in _KNOWN_TYPES:
            self.fail('unknown data type %r' % base, t, unsupported=True)
        if base in ('SIGNED', 'UNSIGNED'):      # CAST target types
            self.accept_kw('INTEGER', 'INT')
            return SqlType(base, line=t.line)
        args = []
        if self.accept_op('('):
            while True:
                a = self.tok
                if a.kind in ('num',):
                    args.append(a.value)
                elif a.kind == 'str':
                    args.append(self.text[a.pos:a.end])
                else:
                    self.unexpected('type argument')
                self.advance()
                if not self.accept_op(','):
                    break
            self.expect_op(')')
        unsigned = False
        attrs = []
        while True:
            if self.accept_kw('UNSIGNED'):
                unsigned = True
            elif self.accept_kw('SIGNED'):
                pass
            elif self.accept_kw('ZEROFILL'):
                attrs.append('ZEROFILL')
            elif self.kw('CHARACTER') and self.kw_at(1, 'SET'):
                self.advance(); self.advance()
                attrs.append('CHARACTER SET ' + self.ident('charset name', True))
            elif self.accept_kw('CHARSET'):
                attrs.append('CHARACTER SET ' + self.ident('charset name', True))
            elif self.kw('COLLATE'):
                self.advance()
                attrs.append('COLLATE ' + self.ident('collation name', True))
            else:
                break
        return SqlType(base, tuple(args), unsigned, tuple(attrs), line=t.line)

    # ---- expressions -----------------------------------------------------
    # Layering follows sql_yacc.yy:  expr > bool_pri > predicate > bit_expr >
    # simple_expr.  `@v := e` is a simple_expr whose right side is a full expr.

    def parse_expr(self) -> Expr:
        return self._or()

    def _or(self) -> Expr:
        left = self._xor()
        while True:
            t = self.tok
            if self.op('||'):
                self.unsupported("'||' (OR or string concatenation depending on sql_mode)")
            if not self.accept_kw('OR'):
                return left
            left = BinOp('OR', left, self._xor(), line=t.line)

    def _xor(self) -> Expr:
        left = self._and()
        while True:
            t = self.tok
            if not self.accept_kw('XOR'):
                return left
            left = BinOp('XOR', left, self._and(), line=t.line)

    def _and(self) -> Expr:
        left = self._not()
        while True:
            t = self.tok
            if not (self.accept_kw('AND') or self.accept_op('&&')):
                return left
            left = BinOp('AND', left, self._not(), line=t.line)

    def _not(self) -> Expr:
        t = self.tok
        if self.accept_kw('NOT'):
            operand = self._not()
            if isinstance(operand, Exists) and not operand.negated:
                return Exists(operand.select, True, line=t.line)
            return UnOp('NOT', operand, line=t.line)
        return self._bool_pri()

    def _bool_pri(self) -> Expr:
        left = self._predicate()
        while True:
            t = self.tok
            if self.kw('IS'):
                self.advance()
                neg = bool(self.accept_kw('NOT'))
                if self.accept_kw('NULL'):
                    left = IsNull(left, neg, line=t.line)
                else:
                    v = self.accept_kw('TRUE', 'FALSE', 'UNKNOWN')
                    if not v:
                        self.unexpected('NULL, TRUE, FALSE or UNKNOWN')
                    left = IsBool(left, v, neg, line=t.line)
                continue
            if t.kind == 'op' and t.value in _COMPARE_OPS:
                self.advance()
                if self.kw('ALL', 'ANY', 'SOME'):
                    self.unsupported('quantified comparison (ALL/ANY/SOME)')
                left = BinOp(_COMPARE_OPS[t.value], left, self._predicate(), line=t.line)
                continue
            return left

    def _predicate(self) -> Expr:
        left = self._bit_expr()
        t = self.tok
        neg = False
        if self.kw('NOT') and self.kw_at(1, 'IN', 'BETWEEN', 'LIKE', 'REGEXP', 'RLIKE'):
            self.advance()
            neg = True
        if self.accept_kw('IN'):
            if self.tok.kind in ('param', 'nparam', 'hole'):
                return In(left, self._primary(), neg, line=t.line)
            self.expect_op('(')
            if self.kw('SELECT', 'WITH') or (self.op('(') and self._paren_starts_query()):
                items = self.parse_query()
            else:
                items = [self.parse_expr()]
                while self.accept_op(','):
                    items.append(self.parse_expr())
            self.expect_op(')')
            return In(left, items, neg, line=t.line)
        if self.accept_kw('BETWEEN'):
            lo = self._bit_expr()
            self.expect_kw('AND')
            hi = self._predicate()
            return Between(left, lo, hi, neg, line=t.line)
        if self.accept_kw('LIKE'):
            pat = self._unary()
            if self.kw('ESCAPE'):
                self.unsupported('LIKE ... ESCAPE')
            e = BinOp('LIKE', left, pat, line=t.line)
            return UnOp('NOT', e, line=t.line) if neg else e
        if self.kw('REGEXP', 'RLIKE'):
            self.unsupported('REGEXP')
        if self.kw('SOUNDS', 'MEMBER'):
            self.unsupported(self.tok.value)
        return left

    _BIT_LEVELS = (('|',), ('&',), ('<<', '>>'), ('+', '-'), ('*', '/', '%'))

    def _bit_expr(self, level: int = 0) -> Expr:
        if level == len(self._BIT_LEVELS):
            return self._unary()
        left = self._bit_expr(level + 1)
        ops = self._BIT_LEVELS[level]
        while True:
            t = self.tok
            o = self.accept_op(*ops)
            if not o and level == 4:
                o = self.accept_kw('DIV', 'MOD')
            if not o:
                if level == 4 and self.op('^'):
                    self.unsupported("bitwise XOR '^'")
                return left
            left = BinOp(o, left, self._bit_expr(level + 1), line=t.line)

    def _unary(self) -> Expr:
        t = self.tok
        o = self.accept_op('-', '+', '!')
        if o:
            return UnOp(o, self._unary(), line=t.line)
        if self.op('~'):
            self.unsupported("bitwise NOT '~'")
        if self.kw('BINARY') and not self.op_at(1, '('):
            self.unsupported('BINARY operator')
        e = self._primary()
        if self.kw('COLLATE'):
            self.unsupported('COLLATE in expressions')
        if self.op('->'):
            self.unsupported('JSON path operator ->')
        return e

    def _paren_starts_query(self) -> bool:
        """Current token is '('.  True when the parenthesis (possibly nested)
        opens a query expression: ((SELECT ...) UNION ...)."""
        k = 0
        while self.op_at(k, '('):
            k += 1
        return bool(self.kw_at(k, 'SELECT', 'WITH'))

    def _primary(self) -> Expr:
        t = self.tok
        k = t.kind
        if k == 'num':
            self.advance()
            if re.fullmatch(r'\d+', t.value):
                return Lit(int(t.value), 'int', t.value, line=t.line)
            return Lit(float(t.value), 'float', t.value, line=t.line)
        if k == 'str':
            self.advance()
            if self.tok.kind == 'str':
                self.unsupported('adjacent string literal concatenation')
            return Lit(t.value, 'str', line=t.line)
        if k == 'param':
            self.advance()
            return Param(t.value, line=t.line)
        if k == 'nparam':
            self.advance()
            return NamedParam(t.value, line=t.line)
        if k == 'hole':
            self.advance()
            return Hole(t.value, line=t.line)
        if k == 'uservar':
            self.advance()
            v = UserVar(t.value, line=t.line)
            if self.accept_op(':='):
                return AssignExpr(v, self.parse_expr(), line=t.line)
            return v
        if k == 'op':
            if t.value == '(':
                if self._paren_starts_query():
                    self.advance()
                    q = self.parse_query()
                    self.expect_op(')')
                    if self.kw('UNION'):
                        self.unsupported('UNION of parenthesised queries in expression position')
                    return Subquery(q, line=t.line)
                self.advance()
                items = [self.parse_expr()]
                while self.accept_op(','):
                    items.append(self.parse_expr())
                self.expect_op(')')
                return items[0] if len(items) == 1 else Tuple(items, line=t.line)
            self.unexpected('an expression')
        if k != 'ident':
            self.unexpected('an expression')
        # ---- identifiers and keywords
        if not t.quoted:
            u = t.value.upper()
            if u == 'NULL':
                self.advance()
                return Lit(None, 'null', line=t.line)
            if u in ('TRUE', 'FALSE'):
                self.advance()
                return Lit(u == 'TRUE', 'bool', line=t.line)
            if u == 'CASE':
                return self._case()
            if u == 'EXISTS':
                self.advance()
                self.expect_op('(')
                q = self.parse_query()
                self.expect_op(')')
                return Exists(q, False, line=t.line)
            if u == 'CAST' and self.op_at(1, '('):
                self.advance(); self.advance()
                e = self.parse_expr()
                self.expect_kw('AS')
                ty = self.parse_type()
                if self.kw('ARRAY'):
                    self.unsupported('CAST ... AS ... ARRAY')
                self.expect_op(')')
                return Cast(e, ty, line=t.line)
            if u == 'CONVERT' and self.op_at(1, '('):
                self.advance(); self.advance()
                e = self.parse_expr()
                if self.kw('USING'):
                    self.unsupported('CONVERT(... USING ...)')
                self.expect_op(',')
                ty = self.parse_type()
                self.expect_op(')')
                return Cast(e, ty, line=t.line)
            if u == 'INTERVAL':
                self.advance()
                e = self.parse_expr()
                unit = self.tok.upper
                if unit not in _INTERVAL_UNITS:
                    self.unexpected('an interval unit')
                self.advance()
                return Interval(e, unit, line=t.line)
            if u == 'ROW' and self.op_at(1, '('):
                self.advance(); self.advance()
                items = [self.parse_expr()]
                while self.accept_op(','):
                    items.append(self.parse_expr())
                self.expect_op(')')
                return Tuple(items, line=t.line)
            if u in _NILADIC and not self.op_at(1, '('):
                self.advance()
                return Func(u, [], raw_name=t.value, line=t.line)
            if u in ('DATE', 'TIME', 'TIMESTAMP') and self.peek().kind == 'str':
                self.unsupported('typed literal %s \'...\'' % u)
            if self.op_at(1, '(') and (u not in RESERVED or u in _RESERVED_FUNCS):
                return self._func_call()
            if u in RESERVED:
                self.fail('unexpected keyword %s in expression' % u)
        elif self.op_at(1, '('):
            return self._func_call()
        # ---- (qualified) name
        parts = [self.advance().value]
        while self.op('.'):
            nxt = self.peek()
            if nxt.kind == 'ident':
                self.advance()
                parts.append(self.advance().value)
            elif nxt.kind == 'hole':
                self.advance()
                h = self.advance()
                return Hole('.'.join(parts) + '.' + h.value, line=t.line)
            elif nxt.kind == 'op' and nxt.value == '*':
                self.fail("'%s.*' is only allowed in a select list" % '.'.join(parts))
            else:
                self.advance()
                self.unexpected('identifier after "."')
        if len(parts) > 3:
            self.fail('name with more than three parts', t)
        if len(parts) > 1 and self.op('('):
            self.unsupported('schema-qualified function call')
        return Name(tuple(parts), line=t.line)

    def _case(self) -> Expr:
        t = self.advance()
        operand = None
        if not self.kw('WHEN'):
            operand = self.parse_expr()
        whens = []
        while self.accept_kw('WHEN'):
            c = self.parse_expr()
            self.expect_kw('THEN')
            whens.append((c, self.parse_expr()))
        if not whens:
            self.unexpected('WHEN')
        else_ = self.parse_expr() if self.accept_kw('ELSE') else None
        self.expect_kw('END')
        return Case(operand, whens, else_, line=t.line)

    def _func_call(self) -> Expr:
        t = self.advance()
        name = t.value.upper()
        self.expect_op('(')
        args, distinct, star = [], False, False
        if self.op('*') and self.op_at(1, ')'):
            self.advance()
            star = True
        elif not self.op(')'):
            if self.accept_kw('DISTINCT'):
                distinct = True
            elif self.kw('ALL') and name in ('COUNT', 'SUM', 'AVG', 'MIN', 'MAX'):
                self.advance()
            args.append(self.parse_expr())
            while self.accept_op(','):
                args.append(self.parse_expr())
            if self.kw('ORDER', 'SEPARATOR', 'FROM', 'FOR', 'IN', 'USING', 'AS', 'RETURNING'):
                self.unsupported('special argument syntax in %s(...)' % name)
        self.expect_op(')')
        over = None
        if self.kw('OVER'):
            self.advance()
            if not self.op('('):
                self.unsupported('named window')
            self.advance()
            over = WindowSpec(line=t.line)
            if self.kw('PARTITION'):
                self.advance()
                self.expect_kw('BY')
                over.partition_by.append(self.parse_expr())
                while self.accept_op(','):
                    over.partition_by.append(self.parse_expr())
            if self.kw('ORDER'):
                over.order_by = self._order_by()
            if not self.op(')'):
                self.unsupported('window frame / named window reference')
            self.advance()
        return Func(name, args, distinct, star, over, t.value, line=t.line)

    def _order_by(self) -> list:
        self.expect_kw('ORDER')
        self.expect_kw('BY')
        out = []
        while True:
            e = self.parse_expr()
            d = self.accept_kw('ASC', 'DESC') or 'ASC'
            out.append((e, d))
            if not self.accept_op(','):
                return out

    # ======================================================================
    # 4. Queries
    # ======================================================================

    def parse_query(self, allow_into: bool = False):
        """query expression: [WITH ctes] term (UNION [ALL] term)* [ORDER BY] [LIMIT]
        Returns Select, Union or With."""
        t = self.tok
        if self.kw('WITH'):
            self.advance()
            if self.kw('RECURSIVE'):
                self.unsupported('WITH RECURSIVE')
            ctes = []
            while True:
                name = self.ident('CTE name')
                if self.op('('):
                    self.unsupported('CTE column list')
                self.expect_kw('AS')
                self.expect_op('(')
                q = self.parse_query()
                self.expect_op(')')
                ctes.append((name, q))
                if not self.accept_op(','):
                    break
            return With(ctes, self._union(allow_into), line=t.line)
        return self._union(allow_into)

    def _query_term(self, allow_into: bool):
        """Returns (node, parenthesised)."""
        t = self.tok
        if t.kind == 'hole':
            self.advance()
            return Hole(t.value, line=t.line), True
        if self.accept_op('('):
            q = self.parse_query()
            self.expect_op(')')
            return q, True
        return self._select_block(allow_into), False

    def _union(self, allow_into: bool):
        t = self.tok
        first, paren = self._query_term(allow_into)
        if not self.kw('UNION'):
            if paren and self.kw('ORDER', 'LIMIT'):
                self.unsupported('ORDER BY/LIMIT applied to a parenthesised query')
            return first
        terms = [(first, paren)]
        flags = []
        while self.accept_kw('UNION'):
            if self.accept_kw('ALL'):
                flags.append(True)
            else:
                self.accept_kw('DISTINCT')
                flags.append(False)
            terms.append(self._query_term(False))
        u = Union([q for q, _ in terms], flags, line=t.line)
        for idx, (q, par) in enumerate(terms):
            if isinstance(q, Select) and q.into:
                self.unsupported('INTO inside UNION', t)
            if par or not isinstance(q, Select):
                continue
            if q.locking:
                self.unsupported('locking clause on an unparenthesised UNION operand', t)
            if q.order_by or q.limit is not None:
                if idx != len(terms) - 1:
                    self.fail('ORDER BY/LIMIT on an unparenthesised non-final UNION operand', t)
                # MySQL: a trailing ORDER BY/LIMIT belongs to the whole union
                u.order_by, u.limit, u.offset = q.order_by, q.limit, q.offset
                q.order_by, q.limit, q.offset = [], None, None
        if terms[-1][1]:
            if self.kw('ORDER'):
                u.order_by = self._order_by()
            if self.kw('LIMIT'):
                u.limit, u.offset = self._limit()
        return u

    def _into_targets(self) -> list:
        out = []
        while True:
            t = self.tok
            if t.kind == 'uservar':
                self.advance()
                out.append(UserVar(t.value, line=t.line))
            elif self.kw('OUTFILE', 'DUMPFILE'):
                self.unsupported('SELECT ... INTO OUTFILE')
            else:
                out.append(Name((self.ident('INTO target'),), line=t.line))
            if not self.accept_op(','):
                return out

    def _limit(self):
        self.expect_kw('LIMIT')
        a = self._limit_value()
        if self.accept_op(','):
            return self._limit_value(), a          # LIMIT offset, count
        if self.accept_kw('OFFSET'):
            return a, self._limit_value()
        return a, None

    def _limit_value(self) -> Expr:
        t = self.tok
        if t.kind in ('num', 'param', 'nparam', 'hole') or (t.kind == 'ident' and self.is_ident()):
            e = self._primary()
            if isinstance(e, (Lit, Param, NamedParam, Hole, Name)):
                return e
        self.fail('LIMIT/OFFSET must be a literal, placeholder or variable', t)

    def _select_col(self) -> SelectCol:
        t = self.tok
        if self.op('*'):
            self.advance()
            return SelectCol(Star(None, line=t.line), None, line=t.line)
        if t.kind == 'ident' and self.op_at(1, '.') and self.op_at(2, '*') and (t.quoted or t.value.upper() not in RESERVED):
            self.advance(); self.advance(); self.advance()
            return SelectCol(Star(t.value, line=t.line), None, line=t.line)
        e = self.parse_expr()
        alias = None
        if self.accept_kw('AS'):
            if self.tok.kind == 'str':
                alias = self.advance().value
            else:
                alias = self.ident('column alias', allow_reserved=False)
        elif self.tok.kind == 'ident' and (self.tok.quoted or self.tok.value.upper() not in _NO_IMPLICIT_ALIAS):
            alias = self.advance().value
        elif self.tok.kind == 'str':
            self.unsupported('string literal as implicit column alias')
        return SelectCol(e, alias, line=t.line)

    def _locking(self, sel: Select):
        while self.kw('FOR', 'LOCK'):
            if sel.locking:
                self.unsupported('multiple locking clauses')
            if self.accept_kw('LOCK'):
                self.expect_kw('IN'); self.expect_kw('SHARE'); self.expect_kw('MODE')
                sel.locking = 'LOCK IN SHARE MODE'
                continue
            self.advance()
            sel.locking = 'FOR ' + self.expect_kw('UPDATE', 'SHARE')
            if self.kw('OF'):
                self.unsupported('FOR UPDATE OF ...')
            if self.accept_kw('NOWAIT'):
                sel.lock_option = 'NOWAIT'
            elif self.accept_kw('SKIP'):
                self.expect_kw('LOCKED')
                sel.lock_option = 'SKIP LOCKED'

    def _where_clause(self) -> Optional[Expr]:
        """[WHERE expr], or a {hole} standing for the whole optional clause."""
        t = self.tok
        if self.accept_kw('WHERE'):
            return self.parse_expr()
        if t.kind == 'hole':
            self.advance()
            return Hole(t.value, True, line=t.line)
        return None

    def _select_block(self, allow_into: bool) -> Select:
        t = self.tok
        self.expect_kw('SELECT')
        sel = Select(line=t.line)
        while True:
            m = self.accept_kw('ALL', 'DISTINCT', 'DISTINCTROW', 'STRAIGHT_JOIN', 'SQL_CALC_FOUND_ROWS',
                               'HIGH_PRIORITY', 'SQL_NO_CACHE', 'SQL_SMALL_RESULT', 'SQL_BIG_RESULT',
                               'SQL_BUFFER_RESULT')
            if not m:
                break
            if m in ('DISTINCT', 'DISTINCTROW'):
                sel.distinct = True
            elif m != 'ALL':
                sel.modifiers.append(m)
        sel.columns.append(self._select_col())
        while self.accept_op(','):
            sel.columns.append(self._select_col())

        def into():
            if self.kw('INTO'):
                if not allow_into:
                    self.fail('INTO is not allowed in this query')
                if sel.into:
                    self.fail('duplicate INTO clause')
                self.advance()
                sel.into = self._into_targets()

        into()
        if self.accept_kw('FROM'):
            if self.kw('DUAL'):
                self.advance()
            else:
                sel.from_ = self.parse_table_refs()
        sel.where = self._where_clause()
        if self.kw('GROUP'):
            self.advance()
            self.expect_kw('BY')
            sel.group_by.append(self.parse_expr())
            while self.accept_op(','):
                sel.group_by.append(self.parse_expr())
            if self.kw('WITH'):
                self.unsupported('GROUP BY ... WITH ROLLUP')
            if self.kw('ASC', 'DESC'):
                self.unsupported('GROUP BY ... ASC/DESC')
        if self.accept_kw('HAVING'):
            sel.having = self.parse_expr()
        if self.kw('WINDOW'):
            self.unsupported('WINDOW clause')
        if self.kw('ORDER'):
            sel.order_by = self._order_by()
        if self.kw('LIMIT'):
            sel.limit, sel.offset = self._limit()
        if self.kw('PROCEDURE'):
            self.unsupported('PROCEDURE ANALYSE')
        into()
        self._locking(sel)
        into()
        return sel

    # ---- table references --------------------------------------------------

    def parse_table_refs(self) -> FromItem:
        """table_reference (',' table_reference)*  - comma binds looser than JOIN."""
        left = self._joined_table()
        while True:
            t = self.tok
            if not self.accept_op(','):
                return left
            left = Join('CROSS', left, self._joined_table(), None, None, True, line=t.line)

    def _joined_table(self) -> FromItem:
        left = self._table_factor()
        while True:
            t = self.tok
            kind = None
            if self.accept_kw('STRAIGHT_JOIN'):
                kind = 'STRAIGHT'
            elif self.kw('NATURAL'):
                self.unsupported('NATURAL JOIN')
            elif self.kw('INNER', 'CROSS'):
                kind = self.advance().value.upper()
                self.expect_kw('JOIN')
            elif self.kw('LEFT', 'RIGHT'):
                kind = self.advance().value.upper()
                self.accept_kw('OUTER')
                self.expect_kw('JOIN')
            elif self.accept_kw('JOIN'):
                kind = 'INNER'
            else:
                return left
            right = self._table_factor()
            on = using = None
            if self.accept_kw('ON'):
                on = self.parse_expr()
            elif self.accept_kw('USING'):
                self.expect_op('(')
                using = [self.ident('column', True)]
                while self.accept_op(','):
                    using.append(self.ident('column', True))
                self.expect_op(')')
            elif kind in ('LEFT', 'RIGHT'):
                self.unexpected('ON or USING')
            left = Join(kind, left, right, on, using, line=t.line)

    def _alias(self) -> Optional[str]:
        if self.accept_kw('AS'):
            return self.ident('alias')
        if self.tok.kind == 'ident' and (self.tok.quoted or self.tok.value.upper() not in _NO_IMPLICIT_ALIAS):
            return self.advance().value
        return None

    def _table_name(self):
        """[schema.]table -> (schema, name)"""
        a = self.ident('table name')
        if self.op('.') and self.peek().kind == 'ident':
            self.advance()
            return a, self.advance().value
        return None, a

    def _table_factor(self) -> FromItem:
        t = self.tok
        if t.kind == 'hole':
            self.advance()
            return HoleRef(t.value, self._alias(), line=t.line)
        lateral = bool(self.accept_kw('LATERAL'))
        if self.op('('):
            if self._paren_starts_query() or self.peek().kind == 'hole' and self.op_at(2, ')'):
                self.advance()
                q = self.parse_query()
                self.expect_op(')')
                if self.kw('UNION'):
                    self.unsupported('UNION after a parenthesised derived table')
                alias = self._alias()
                if alias is None:
                    self.fail('derived table needs an alias')
                if self.op('('):
                    self.unsupported('derived table column list')
                return SubqueryRef(q, alias, lateral, line=t.line)
            if lateral:
                self.unexpected('a subquery after LATERAL')
            self.advance()
            inner = self.parse_table_refs()
            self.expect_op(')')
            return inner
        if lateral:
            self.unexpected('a subquery after LATERAL')
        if self.kw('JSON_TABLE'):
            self.unsupported('JSON_TABLE')
        schema, name = self._table_name()
        if self.kw('PARTITION'):
            self.unsupported('PARTITION selection')
        alias = self._alias()
        hints = []
        while self.kw('USE', 'FORCE', 'IGNORE') and self.kw_at(1, 'INDEX', 'KEY'):
            ht = self.tok
            kind = self.advance().value.upper()
            self.advance()
            if self.kw('FOR'):
                self.unsupported('index hint FOR JOIN/ORDER BY/GROUP BY')
            self.expect_op('(')
            names = []
            if not self.op(')'):
                names.append('PRIMARY' if self.accept_kw('PRIMARY') else self.ident('index name', True))
                while self.accept_op(','):
                    names.append('PRIMARY' if self.accept_kw('PRIMARY') else self.ident('index name', True))
            self.expect_op(')')
            hints.append(IndexHint(kind, tuple(names), line=ht.line))
        return TableRef(name, alias, hints, schema, line=t.line)

    # ======================================================================
    # 5. Statements
    # ======================================================================

    _BLOCK_END = ('END', 'ELSE', 'ELSEIF', 'UNTIL', 'WHEN')

    def _stmt_list(self) -> list:
        """statement ';' ... up to (not including) END / ELSE / ELSEIF / UNTIL."""
        out = []
        while not self.kw(*self._BLOCK_END):
            if self.at_eof():
                self.unexpected('END')
            out.append(self.parse_stmt())
            self.expect_op(';')
        return out

    def _label_ahead(self) -> bool:
        return (self.tok.kind == 'ident' and self.op_at(1, ':')
                and bool(self.kw_at(2, 'BEGIN', 'LOOP', 'WHILE', 'REPEAT')))

    def _end_label(self, label: Optional[str]):
        """Optional label after END/END LOOP...; must match the opening label."""
        if self.tok.kind == 'ident' and not self.kw(*self._BLOCK_END) and not self.op_at(0, ';'):
            t = self.tok
            end = self.ident('end label')
            if label is None or end.lower() != label.lower():
                self.fail('end label %r does not match %r' % (end, label), t)

    def parse_stmt(self) -> Stmt:
        t = self.tok
        label = None
        if self._label_ahead():
            if not self.in_routine:
                self.fail('labelled statement outside a routine body')
            label = self.ident('label')
            self.expect_op(':')
        u = self.tok.upper
        if u is None:
            if self.op('(') and self._paren_starts_query():
                return SelectStmt(self.parse_query(True), line=t.line)
            self.unexpected('a statement')
        ln = t.line
        if u in ('BEGIN', 'LOOP', 'WHILE', 'REPEAT', 'DECLARE', 'IF', 'LEAVE', 'ITERATE', 'OPEN',
                 'FETCH', 'CLOSE', 'RETURN', 'SIGNAL', 'RESIGNAL', 'CASE') and not self.in_routine:
            self.fail('%s is only supported inside a routine body' % u, unsupported=True)
        if u == 'BEGIN':
            self.advance()
            if self.kw('WORK') or self.op(';') or self.at_eof():
                self.unsupported('BEGIN [WORK] as a transaction statement inside a routine', t)
            stmts = self._stmt_list()
            self.expect_kw('END')
            self._end_label(label)
            return Block(label, stmts, True, line=ln)
        if u == 'LOOP':
            self.advance()
            body = Block(None, self._stmt_list(), False, line=self.tok.line)
            self.expect_kw('END'); self.expect_kw('LOOP')
            self._end_label(label)
            return Loop(label, body, line=ln)
        if u == 'WHILE':
            self.advance()
            cond = self.parse_expr()
            self.expect_kw('DO')
            body = Block(None, self._stmt_list(), False, line=self.tok.line)
            self.expect_kw('END'); self.expect_kw('WHILE')
            self._end_label(label)
            return While(label, cond, body, line=ln)
        if u == 'REPEAT':
            self.advance()
            body = Block(None, self._stmt_list(), False, line=self.tok.line)
            self.expect_kw('UNTIL')
            cond = self.parse_expr()
            self.expect_kw('END'); self.expect_kw('REPEAT')
            self._end_label(label)
            return Repeat(label, body, cond, line=ln)
        if u == 'DECLARE':
            return self._declare()
        if u == 'SET':
            return self._set()
        if u == 'IF':
            return self._if()
        if u == 'CASE':
            self.unsupported('CASE statement')
        if u in ('LEAVE', 'ITERATE'):
            self.advance()
            lab = self.ident('label')
            return (Leave if u == 'LEAVE' else Iterate)(lab, line=ln)
        if u in ('OPEN', 'CLOSE'):
            self.advance()
            c = self.ident('cursor name')
            return (Open if u == 'OPEN' else Close)(c, line=ln)
        if u == 'FETCH':
            self.advance()
            if self.accept_kw('NEXT'):
                self.expect_kw('FROM')
            else:
                self.accept_kw('FROM')
            c = self.ident('cursor name')
            self.expect_kw('INTO')
            return Fetch(c, self._into_targets(), line=ln)
        if u == 'CALL':
            self.advance()
            schema, name = self._table_name()
            if schema:
                self.unsupported('schema-qualified CALL', t)
            args = []
            if self.accept_op('('):
                if not self.op(')'):
                    args.append(self.parse_expr())
                    while self.accept_op(','):
                        args.append(self.parse_expr())
                self.expect_op(')')
            return Call(name, args, line=ln)
        if u == 'SIGNAL':
            return self._signal()
        if u == 'RESIGNAL':
            self.unsupported('RESIGNAL')
        if u == 'START':
            self.advance()
            self.expect_kw('TRANSACTION')
            opts = []
            while not (self.op(';') or self.at_eof()):
                if self.accept_kw('WITH'):
                    self.expect_kw('CONSISTENT'); self.expect_kw('SNAPSHOT')
                    opts.append('WITH CONSISTENT SNAPSHOT')
                elif self.accept_kw('READ'):
                    opts.append('READ ' + self.expect_kw('ONLY', 'WRITE'))
                else:
                    self.unexpected('transaction characteristic')
                self.accept_op(',')
            return StartTransaction(tuple(opts), line=ln)
        if u in ('COMMIT', 'ROLLBACK'):
            self.advance()
            self.accept_kw('WORK')
            if self.kw('TO', 'AND', 'RELEASE', 'NO'):
                self.unsupported('%s modifiers (savepoints / chain / release)' % u)
            return (Commit if u == 'COMMIT' else Rollback)(line=ln)
        if u == 'RETURN':
            self.advance()
            return Return(self.parse_expr(), line=ln)
        if u in ('SELECT', 'WITH'):
            return SelectStmt(self.parse_query(True), line=ln)
        if u == 'UPDATE':
            return self._update()
        if u in ('INSERT', 'REPLACE'):
            return self._insert()
        if u == 'DELETE':
            return self._delete()
        self.fail('unsupported statement starting with %s' % u, unsupported=True)

    def _declare(self) -> Stmt:
        t = self.advance()
        if self.kw('CONTINUE', 'EXIT', 'UNDO') and self.kw_at(1, 'HANDLER'):
            kind = self.advance().value.upper()
            if kind == 'UNDO':
                self.unsupported('UNDO handler', t)
            self.advance()
            self.expect_kw('FOR')
            conds = []
            while True:
                c = self.tok
                if self.accept_kw('NOT'):
                    self.expect_kw('FOUND')
                    conds.append('NOT FOUND')
                elif self.accept_kw('SQLEXCEPTION', 'SQLWARNING'):
                    conds.append(c.value.upper())
                elif self.accept_kw('SQLSTATE'):
                    self.accept_kw('VALUE')
                    if self.tok.kind != 'str':
                        self.unexpected('SQLSTATE string')
                    conds.append("SQLSTATE '%s'" % self.advance().value)
                elif c.kind == 'num':
                    conds.append(self.advance().value)
                else:
                    conds.append(self.ident('condition name'))
                if not self.accept_op(','):
                    break
            return DeclareHandler(kind, tuple(conds), self.parse_stmt(), line=t.line)
        names = [self.ident('variable name')]
        if self.kw('CURSOR'):
            self.advance()
            self.expect_kw('FOR')
            return DeclareCursor(names[0], self.parse_query(False), line=t.line)
        if self.kw('CONDITION'):
            self.unsupported('DECLARE ... CONDITION', t)
        while self.accept_op(','):
            names.append(self.ident('variable name'))
        ty = self.parse_type()
        default = self.parse_expr() if self.accept_kw('DEFAULT') else None
        return Declare(names, ty, default, line=t.line)

    def _set(self) -> Stmt:
        t = self.advance()
        if self.kw('GLOBAL', 'SESSION', 'LOCAL', 'PERSIST', 'PERSIST_ONLY', 'TRANSACTION', 'NAMES',
                   'PASSWORD', 'ROLE', 'DEFAULT', 'RESOURCE'):
            self.unsupported('SET %s ...' % self.tok.value.upper(), t)
        if self.kw('CHARACTER', 'CHARSET'):
            self.unsupported('SET CHARACTER SET', t)
        out = []
        while True:
            a = self.tok
            if a.kind == 'uservar':
                self.advance()
                target = UserVar(a.value, line=a.line)
            else:
                parts = [self.ident('SET target')]
                while self.accept_op('.'):
                    parts.append(self.ident('SET target', True))
                target = Name(tuple(parts), line=a.line)
            self.expect_op('=', ':=')
            out.append((target, self.parse_expr()))
            if not self.accept_op(','):
                return Set(out, line=t.line)

    def _if(self) -> Stmt:
        t = self.advance()
        branches = []
        orelse = None
        while True:
            cond = self.parse_expr()
            self.expect_kw('THEN')
            branches.append((cond, Block(None, self._stmt_list(), False, line=self.tok.line)))
            if self.accept_kw('ELSEIF'):
                continue
            if self.accept_kw('ELSE'):
                orelse = Block(None, self._stmt_list(), False, line=self.tok.line)
            self.expect_kw('END'); self.expect_kw('IF')
            return If(branches, orelse, line=t.line)

    def _signal(self) -> Stmt:
        t = self.advance()
        sqlstate = cond = None
        if self.accept_kw('SQLSTATE'):
            self.accept_kw('VALUE')
            if self.tok.kind != 'str':
                self.unexpected('SQLSTATE string')
            sqlstate = self.advance().value
        else:
            cond = self.ident('condition name')
        items = []
        if self.accept_kw('SET'):
            while True:
                k = self.ident('signal item').upper()
                if k not in ('MESSAGE_TEXT', 'MYSQL_ERRNO', 'CLASS_ORIGIN', 'SUBCLASS_ORIGIN', 'CONSTRAINT_CATALOG',
                             'CONSTRAINT_SCHEMA', 'CONSTRAINT_NAME', 'CATALOG_NAME', 'SCHEMA_NAME', 'TABLE_NAME',
                             'COLUMN_NAME', 'CURSOR_NAME'):
                    self.fail('unknown signal item %s' % k)
                self.expect_op('=')
                items.append((k, self._primary()))
                if not self.accept_op(','):
                    break
        return Signal(sqlstate, items, cond, line=t.line)

    def _assignments(self) -> list:
        """col = expr [, col = expr ...] for UPDATE SET / ON DUPLICATE KEY UPDATE."""
        out = []
        while True:
            a = self.tok
            parts = [self.ident('column name')]
            while self.accept_op('.'):
                parts.append(self.ident('column name', True))
            self.expect_op('=', ':=')
            if self.kw('DEFAULT') and not self.op_at(1, '('):
                d = self.advance()
                val = Name(('DEFAULT',), line=d.line)
            else:
                val = self.parse_expr()
            out.append((Name(tuple(parts), line=a.line), val))
            if not self.accept_op(','):
                return out

    def _update(self) -> Stmt:
        t = self.advance()
        if self.kw('LOW_PRIORITY'):
            self.advance()
        ignore = bool(self.accept_kw('IGNORE'))
        tables = self.parse_table_refs()
        self.expect_kw('SET')
        assigns = self._assignments()
        where = self._where_clause()
        order_by = self._order_by() if self.kw('ORDER') else []
        limit = None
        if self.kw('LIMIT'):
            limit, off = self._limit()
            if off is not None:
                self.fail('UPDATE ... LIMIT takes no offset', t)
        if (order_by or limit is not None) and isinstance(tables, Join):
            self.fail('multi-table UPDATE cannot have ORDER BY/LIMIT', t)
        return Update(tables, assigns, where, order_by, limit, ignore, line=t.line)

    def _insert(self) -> Stmt:
        t = self.advance()
        replace = t.value.upper() == 'REPLACE'
        while self.kw('LOW_PRIORITY', 'DELAYED', 'HIGH_PRIORITY'):
            self.advance()
        ignore = bool(self.accept_kw('IGNORE'))
        self.accept_kw('INTO')
        if self.tok.kind == 'hole':
            schema, table = None, self.advance().value
        else:
            schema, table = self._table_name()
        if self.kw('PARTITION'):
            self.unsupported('INSERT ... PARTITION')
        columns = None
        if self.op('(') and not self._paren_starts_query():
            self.advance()
            columns = []
            if not self.op(')'):
                while True:
                    c = self.ident('column name', True)
                    if self.accept_op('.'):
                        c = self.ident('column name', True)
                    columns.append(c)
                    if not self.accept_op(','):
                        break
            self.expect_op(')')
        row_alias = None
        if self.accept_kw('VALUES', 'VALUE'):
            if self.tok.kind in ('param', 'nparam', 'hole'):
                source = self._primary()
            else:
                source = []
                while True:
                    self.accept_kw('ROW')
                    self.expect_op('(')
                    row = []
                    if not self.op(')'):
                        while True:
                            if self.kw('DEFAULT') and not self.op_at(1, '('):
                                d = self.advance()
                                row.append(Name(('DEFAULT',), line=d.line))
                            else:
                                row.append(self.parse_expr())
                            if not self.accept_op(','):
                                break
                    self.expect_op(')')
                    source.append(row)
                    if not self.accept_op(','):
                        break
            if self.accept_kw('AS'):
                row_alias = self.ident('row alias')
                if self.op('('):
                    self.unsupported('INSERT ... AS alias(col, ...)')
        elif self.kw('SET'):
            self.advance()
            if columns is not None:
                self.fail('INSERT ... SET with a column list')
            assigns = self._assignments()
            columns = [n.last for n, _ in assigns]
            source = [[v for _, v in assigns]]
        elif self.kw('SELECT', 'WITH') or self.op('('):
            source = self.parse_query(False)
        elif self.kw('TABLE'):
            self.unsupported('INSERT ... TABLE')
        else:
            self.unexpected('VALUES, SELECT or SET')
        on_dup = []
        if self.kw('ON'):
            self.advance()
            self.expect_kw('DUPLICATE'); self.expect_kw('KEY'); self.expect_kw('UPDATE')
            if replace:
                self.fail('REPLACE ... ON DUPLICATE KEY UPDATE')
            on_dup = self._assignments()
        return Insert(table, columns, source, on_dup, ignore, row_alias, replace, schema, line=t.line)

    def _delete(self) -> Stmt:
        t = self.advance()
        while self.kw('LOW_PRIORITY', 'QUICK'):
            self.advance()
        if self.kw('IGNORE'):
            self.unsupported('DELETE IGNORE')

        def target_list():
            out = []
            while True:
                n = self.ident('table name')
                if self.accept_op('.'):
                    if self.accept_op('*'):
                        pass
                    else:
                        self.unsupported('schema-qualified DELETE target')
                out.append(n)
                if not self.accept_op(','):
                    return out

        if not self.kw('FROM'):
            # DELETE t1[, t2] FROM joins [WHERE]
            targets = target_list()
            self.expect_kw('FROM')
            using = self.parse_table_refs()
            where = self._where_clause()
            return Delete(targets[0], None, where, [], None, targets, using, line=t.line)
        self.advance()
        if self.tok.kind == 'hole':
            table = self.advance().value
            targets = [table]
        else:
            targets = target_list()
            table = targets[0]
        if self.accept_kw('USING'):
            using = self.parse_table_refs()
            where = self._where_clause()
            return Delete(table, None, where, [], None, targets, using, line=t.line)
        if len(targets) > 1:
            self.unexpected('USING')
        if self.kw('PARTITION'):
            self.unsupported('DELETE ... PARTITION')
        alias = self._alias()
        where = self._where_clause()
        order_by = self._order_by() if self.kw('ORDER') else []
        limit = None
        if self.kw('LIMIT'):
            limit, off = self._limit()
            if off is not None:
                self.fail('DELETE ... LIMIT takes no offset', t)
        return Delete(table, alias, where, order_by, limit, [], None, line=t.line)

    # ======================================================================
    # 6. CREATE PROCEDURE | FUNCTION | TRIGGER
    # ======================================================================

    def parse_routine(self, source_file=None, first_line=0, last_line=0, parse_body=True,
                      allow_more=False) -> Routine:
        t = self.tok
        self.expect_kw('CREATE')
        if self.kw('DEFINER'):
            self.advance()
            self.expect_op('=')
            # user[@host] | CURRENT_USER
            self.advance()
            if self.tok.kind == 'uservar':
                self.advance()
        if self.kw('OR'):
            self.unsupported('CREATE OR REPLACE')
        kind = self.expect_kw('PROCEDURE', 'FUNCTION', 'TRIGGER').lower()
        if self.kw('IF'):
            self.unsupported('CREATE %s IF NOT EXISTS' % kind.upper())
        schema, name = self._table_name()
        r = Routine(kind, name, source_file=source_file, first_line=first_line or t.line,
                    last_line=last_line, raw_text=self.text, line=t.line)
        if kind == 'trigger':
            r.trigger_time = self.expect_kw('BEFORE', 'AFTER')
            r.trigger_event = self.expect_kw('INSERT', 'UPDATE', 'DELETE')
            self.expect_kw('ON')
            _, r.table = self._table_name()
            self.expect_kw('FOR'); self.expect_kw('EACH'); self.expect_kw('ROW')
            if self.kw('FOLLOWS', 'PRECEDES'):
                self.unsupported('trigger ordering (%s)' % self.tok.value.upper())
        else:
            self.expect_op('(')
            if not self.op(')'):
                while True:
                    pt = self.tok
                    mode = 'IN'
                    if self.kw('IN', 'OUT', 'INOUT') and self.peek().kind == 'ident' and self.peek(2).kind == 'ident':
                        if kind == 'function':
                            self.fail('parameter mode in a FUNCTION')
                        mode = self.advance().value.upper()
                    pname = self.ident('parameter name')
                    r.params.append(RoutineParam(mode, pname, self.parse_type(), line=pt.line))
                    if not self.accept_op(','):
                        break
            self.expect_op(')')
            if kind == 'function':
                self.expect_kw('RETURNS')
                r.returns = self.parse_type()
            chars = []
            while True:
                if self.accept_kw('COMMENT'):
                    if self.tok.kind != 'str':
                        self.unexpected('comment string')
                    chars.append('COMMENT ' + self.text[self.tok.pos:self.tok.end])
                    self.advance()
                elif self.accept_kw('LANGUAGE'):
                    chars.append('LANGUAGE ' + self.expect_kw('SQL'))
                elif self.kw('NOT') and self.kw_at(1, 'DETERMINISTIC'):
                    self.advance(); self.advance()
                    chars.append('NOT DETERMINISTIC')
                elif self.accept_kw('DETERMINISTIC'):
                    chars.append('DETERMINISTIC')
                elif self.kw('CONTAINS') and self.kw_at(1, 'SQL'):
                    self.advance(); self.advance()
                    chars.append('CONTAINS SQL')
                elif self.kw('NO') and self.kw_at(1, 'SQL'):
                    self.advance(); self.advance()
                    chars.append('NO SQL')
                elif self.kw('READS', 'MODIFIES') and self.kw_at(1, 'SQL') and self.kw_at(2, 'DATA'):
                    w = self.advance().value.upper()
                    self.advance(); self.advance()
                    chars.append(w + ' SQL DATA')
                elif self.kw('SQL') and self.kw_at(1, 'SECURITY'):
                    self.advance(); self.advance()
                    chars.append('SQL SECURITY ' + self.expect_kw('DEFINER', 'INVOKER'))
                else:
                    break
            r.characteristics = tuple(chars)
        r.body_line = self.tok.line
        r.body_text = self.text[self.tok.pos:]
        body_start = self.i
        if not r.last_line:
            r.last_line = self.toks[-1].line
        self.rest_pos = None
        if parse_body:
            self.in_routine = True
            r.body = self.parse_stmt()
            self.in_routine = False
            if allow_more and self.op(';'):
                # "CREATE ... END; <more statements>" inside one DELIMITER chunk
                end_tok = self.toks[self.i - 1]
                self.rest_pos = self.tok.end
                r.raw_text = self.text[:end_tok.end]
                r.body_text = self.text[self.toks[body_start].pos:end_tok.end]
                r.last_line = end_tok.line
            elif not self.at_eof():
                self.unexpected('end of routine definition')
        return r


# ==========================================================================
# 7. Entry points for standalone SQL
# ==========================================================================

def parse_statements(text: str, file: Optional[str] = None, line: int = 1,
                     placeholders: bool = True) -> list:
    """Parse `;`-separated standalone statements (as embedded in Python source:
    `%s` / `%(name)s` placeholders, `{...}` format holes).  Placeholders are
    numbered left to right from 0 across the whole text."""
    p = Parser(text, file, line, placeholders)
    out = []
    while True:
        while p.accept_op(';'):
            pass
        if p.at_eof():
            return out
        out.append(p.parse_stmt())
        if not p.at_eof():
            p.expect_op(';')


def parse_statement(text: str, file: Optional[str] = None, line: int = 1,
                    placeholders: bool = True) -> Stmt:
    """Parse exactly one standalone statement (a trailing ';' is allowed)."""
    stmts = parse_statements(text, file, line, placeholders)
    if len(stmts) != 1:
        raise SqlSyntaxError('expected exactly one statement, found %d' % len(stmts), file, line)
    return stmts[0]


def parse_expr(text: str, file: Optional[str] = None, line: int = 1,
               placeholders: bool = True) -> Expr:
    """Parse one expression."""
    p = Parser(text, file, line, placeholders)
    e = p.parse_expr()
    if not p.at_eof():
        p.unexpected('end of expression')
    return e


def parse_routine(text: str, file: Optional[str] = None, line: int = 1,
                  last_line: int = 0, parse_body: bool = True) -> Routine:
    """Parse one CREATE PROCEDURE | FUNCTION | TRIGGER statement (no delimiter)."""
    return Parser(text, file, line, False).parse_routine(file, line, last_line, parse_body)


def parse_routine_body(text: str, file: Optional[str] = None, line: int = 1) -> Stmt:
    """Parse a routine body on its own (what Routine.body.to_sql() prints)."""
    p = Parser(text, file, line, False)
    p.in_routine = True
    s = p.parse_stmt()
    p.accept_op(';')
    if not p.at_eof():
        p.unexpected('end of routine body')
    return s


# ==========================================================================
# 8. build.yaml
# ==========================================================================

def _migration_scripts_by_hand(yaml_text: str, step_name: str) -> list:
    """Minimal indentation reader: finds the `kind: createDatabase2` step whose
    `name:` is `step_name` and returns the `script:` values of its
    `migrations:` list, in order.  Used when PyYAML is not importable."""
    lines = yaml_text.split('\n')
    step_re = re.compile(r'^(\s*)- kind:\s*(\S+)\s*(?:#.*)?$')
    i, n = 0, len(lines)
    while i < n:
        m = step_re.match(lines[i])
        if not m:
            i += 1
            continue
        indent = len(m.group(1))
        kind = m.group(2)
        j = i + 1
        block = []
        while j < n:
            l = lines[j]
            if l.strip() and not l.lstrip().startswith('#'):
                ind = len(l) - len(l.lstrip())
                if ind <= indent:
                    break
            block.append(l)
            j += 1
        i = j
        if kind != 'createDatabase2':
            continue
        key_indent = indent + 2
        name = None
        for l in block:
            mm = re.match(r'^ {%d}name:\s*(\S+)' % key_indent, l)
            if mm:
                name = mm.group(1).strip('\'"')
        if name != step_name:
            continue
        scripts = []
        in_mig = False
        for l in block:
            if not l.strip() or l.lstrip().startswith('#'):
                continue
            ind = len(l) - len(l.lstrip())
            if re.match(r'^ {%d}migrations:\s*$' % key_indent, l):
                in_mig = True
                continue
            if in_mig:
                if ind <= key_indent and not l.lstrip().startswith('- '):
                    in_mig = False
                    continue
                if ind < key_indent:
                    in_mig = False
                    continue
                mm = re.match(r'^\s*(?:- )?script:\s*(\S+)', l)
                if mm:
                    scripts.append(mm.group(1).strip('\'"'))
        return scripts
    raise SqlUnsupported('no createDatabase2 step named %r in build.yaml' % step_name)


def _migration_scripts_yaml(yaml_text: str, step_name: str) -> Optional[list]:
    try:
        import yaml  # type: ignore
    except Exception:
        return None
    doc = yaml.safe_load(yaml_text)
    for step in doc['steps']:
        if step.get('kind') == 'createDatabase2' and step.get('name') == step_name:
            return [m['script'] for m in step['migrations']]
    raise SqlUnsupported('no createDatabase2 step named %r in build.yaml' % step_name)


def migration_files(repo: str = '/repo', step_name: str = 'batch_database') -> list:
    """Absolute paths of the batch database migrations, in build.yaml order.
    (`/io/sql/<file>` maps to `<repo>/batch/sql/<file>`.)"""
    with open(os.path.join(repo, 'build.yaml'), encoding='utf-8') as f:
        text = f.read()
    scripts = _migration_scripts_by_hand(text, step_name)
    via_yaml = _migration_scripts_yaml(text, step_name)
    if via_yaml is not None and via_yaml != scripts:
        raise SqlUnsupported('hand-written build.yaml reader disagrees with PyYAML', 'build.yaml', None)
    out = []
    for s in scripts:
        if not s.startswith('/io/sql/'):
            raise SqlUnsupported('unexpected migration script path %r' % s, 'build.yaml', None)
        p = os.path.join(repo, 'batch', 'sql', s[len('/io/sql/'):])
        if not os.path.isfile(p):
            raise SqlUnsupported('migration file %s does not exist' % p, 'build.yaml', None)
        out.append(p)
    return out


# ==========================================================================
# 9. Table DDL (tolerant)
# ==========================================================================

def _split_top_level(toks: list) -> list:
    """Split a token list at top-level commas (parentheses respected)."""
    parts, cur, depth = [], [], 0
    for t in toks:
        if t.kind == 'op' and t.value == '(':
            depth += 1
        elif t.kind == 'op' and t.value == ')':
            depth -= 1
        if depth == 0 and t.kind == 'op' and t.value == ',':
            parts.append(cur)
            cur = []
        else:
            cur.append(t)
    parts.append(cur)
    return parts


class _DDL:
    """Applies CREATE/ALTER/DROP/RENAME TABLE and CREATE/DROP INDEX to a dict of
    Table objects.  Never raises on DDL it cannot interpret: such fragments go
    to Table.unparsed (or to `notes` when no table can be identified)."""

    _CONSTRAINT_KW = ('PRIMARY', 'CONSTRAINT', 'UNIQUE', 'FOREIGN', 'INDEX', 'KEY', 'FULLTEXT', 'SPATIAL', 'CHECK')

    def __init__(self):
        self.tables = {}          # name -> Table (insertion ordered)
        self.temporary = set()
        self.notes = []           # (file, line, message)
        self.on_drop = None       # callback(table_name)
        self.on_rename = None     # callback(old, new)

    # ---- helpers -----------------------------------------------------------

    def note(self, file, line, msg):
        self.notes.append((file, line, msg))

    def find(self, name):
        if name in self.tables:
            return self.tables[name]
        for k, t in self.tables.items():
            if k.lower() == name.lower():
                return t
        return None

    @staticmethod
    def _sub(p: Parser, toks: list) -> Parser:
        """A parser over a slice of p's tokens (an EOF token is appended)."""
        last = toks[-1] if toks else p.tok
        eof = Token('eof', None, last.line, last.end, last.end)
        q = Parser(p.text, p.file, tokens=list(toks) + [eof])
        return q

    @staticmethod
    def _raw(p: Parser, toks: list) -> str:
        return re.sub(r'\s+', ' ', p.text[toks[0].pos:toks[-1].end]).strip() if toks else ''

    def _key_parts(self, p: Parser) -> tuple:
        """( col [(len)] [ASC|DESC], ... ) -> column names; functional key parts
        are returned as their raw text in parentheses."""
        p.expect_op('(')
        cols = []
        while True:
            if p.op('('):
                depth, first = 0, p.tok
                while True:
                    t = p.advance()
                    if t.kind == 'op' and t.value == '(':
                        depth += 1
                    elif t.kind == 'op' and t.value == ')':
                        depth -= 1
                        if depth == 0:
                            break
                    elif t.kind == 'eof':
                        p.unexpected("')'")
                cols.append(p.raw(first, t))
            else:
                cols.append(p.ident('column name', True))
                if p.accept_op('('):
                    p.advance()
                    p.expect_op(')')
            p.accept_kw('ASC', 'DESC')
            if not p.accept_op(','):
                break
        p.expect_op(')')
        return tuple(cols)

    @staticmethod
    def _auto_index_name(tbl: Table, first_col: str) -> str:
        names = {k.lower() for k in tbl.unique_keys} | {k.lower() for k in tbl.indexes}
        if first_col.lower() not in names:
            return first_col
        k = 2
        while ('%s_%d' % (first_col, k)).lower() in names:
            k += 1
        return '%s_%d' % (first_col, k)

    @staticmethod
    def _auto_fk_name(tbl: Table) -> str:
        mx = 0
        for fk in tbl.foreign_keys:
            m = re.fullmatch(re.escape(tbl.name) + r'_ibfk_(\d+)', fk.name or '')
            if m:
                mx = max(mx, int(m.group(1)))
        return '%s_ibfk_%d' % (tbl.name, mx + 1)

    # ---- column definitions -------------------------------------------------

    def column_def(self, p: Parser, tbl: Table):
        """Parse `name type attrs...` to the end of p.  Returns (Column,
        inline_pk, inline_unique, position) where position is None, 'FIRST' or
        ('AFTER', col)."""
        first = p.tok
        name = p.ident('column name', True)
        ty = p.parse_type()
        col = Column(name, ty.base, type_args=ty.args, unsigned=ty.unsigned)
        pk = uniq = False
        position = None
        extras = []
        while not p.at_eof():
            t = p.tok
            if p.kw('NOT') and p.kw_at(1, 'NULL'):
                p.advance(); p.advance()
                col.nullable = False
            elif p.accept_kw('NULL'):
                col.nullable = True
            elif p.accept_kw('DEFAULT'):
                d0 = p.tok
                if p.op('('):
                    depth = 0
                    while True:
                        x = p.advance()
                        if x.kind == 'eof':
                            p.unexpected("')'")
                        if x.kind == 'op' and x.value == '(':
                            depth += 1
                        elif x.kind == 'op' and x.value == ')':
                            depth -= 1
                            if depth == 0:
                                break
                    col.default = p.raw(d0, x)
                else:
                    p.accept_op('-', '+')
                    x = p.advance()
                    if x.kind not in ('num', 'str', 'ident'):
                        p.fail('unexpected DEFAULT value', x)
                    if x.kind == 'ident' and p.op('('):
                        while not p.op(')'):
                            if p.at_eof():
                                p.unexpected("')'")
                            p.advance()
                        x = p.advance()
                    col.default = p.raw(d0, x)
            elif p.accept_kw('AUTO_INCREMENT'):
                col.auto_increment = True
            elif p.accept_kw('PRIMARY'):
                p.expect_kw('KEY')
                pk = True
            elif p.accept_kw('UNIQUE'):
                p.accept_kw('KEY')
                uniq = True
            elif p.accept_kw('COMMENT'):
                if p.tok.kind != 'str':
                    p.unexpected('comment string')
                p.advance()
            elif p.accept_kw('COLLATE'):
                extras.append('COLLATE ' + p.ident('collation', True))
            elif p.kw('GENERATED', 'AS'):
                if p.accept_kw('GENERATED'):
                    p.expect_kw('ALWAYS')
                p.expect_kw('AS')
                g0 = p.tok
                p.expect_op('(')
                depth = 1
                while depth:
                    x = p.advance()
                    if x.kind == 'eof':
                        p.unexpected("')'")
                    if x.kind == 'op' and x.value == '(':
                        depth += 1
                    elif x.kind == 'op' and x.value == ')':
                        depth -= 1
                col.generated = True
                col.generated_expr = p.raw(g0, x)
                p.accept_kw('VIRTUAL', 'STORED')
            elif p.kw('ON') and p.kw_at(1, 'UPDATE'):
                p.advance(); p.advance()
                x = p.advance()
                if p.accept_op('('):
                    while not p.accept_op(')'):
                        p.advance()
                extras.append('ON UPDATE ' + x.value)
            elif p.accept_kw('FIRST'):
                position = 'FIRST'
            elif p.accept_kw('AFTER'):
                position = ('AFTER', p.ident('column name', True))
            elif p.accept_kw('VISIBLE', 'INVISIBLE'):
                pass
            else:
                p.fail('uninterpreted column attribute %s' % t.describe(), t)
        col.raw = re.sub(r'\s+', ' ', p.text[first.pos:p.toks[-1].end]).strip()
        return col, pk, uniq, position

    def _put_column(self, tbl: Table, col: Column, position, replace: Optional[str] = None):
        """Insert (or replace column `replace` by) col, honouring FIRST/AFTER."""
        items = [(k, v) for k, v in tbl.columns.items()]
        if replace is not None:
            idx = next(i for i, (k, _) in enumerate(items) if k.lower() == replace.lower())
            items[idx] = (col.name, col)
            if position is not None:
                item = items.pop(idx)
            else:
                item = None
        else:
            item = (col.name, col)
            if position is None:
                items.append(item)
                item = None
        if item is not None:
            if position == 'FIRST':
                items.insert(0, item)
            else:
                after = position[1].lower()
                idx = next((i for i, (k, _) in enumerate(items) if k.lower() == after), len(items) - 1)
                items.insert(idx + 1, item)
        tbl.columns = dict(items)

    def _set_pk(self, tbl: Table, cols: tuple):
        tbl.primary_key = tuple(cols)
        for c in cols:
            col = tbl.column(c)
            if col is not None:
                col.nullable = False     # PRIMARY KEY columns are implicitly NOT NULL

    # ---- table-level constraints ---------------------------------------------

    def constraint(self, p: Parser, tbl: Table):
        """PRIMARY KEY / UNIQUE / INDEX / FOREIGN KEY / CHECK definition (to end of p)."""
        cname = None
        if p.accept_kw('CONSTRAINT'):
            if not p.kw('PRIMARY', 'UNIQUE', 'FOREIGN', 'CHECK'):
                cname = p.ident('constraint name', True)
        if p.accept_kw('PRIMARY'):
            p.expect_kw('KEY')
            if p.accept_kw('USING'):
                p.advance()
            self._set_pk(tbl, self._key_parts(p))
        elif p.kw('UNIQUE', 'INDEX', 'KEY', 'FULLTEXT', 'SPATIAL'):
            k = p.advance().value.upper()
            if k in ('UNIQUE', 'FULLTEXT', 'SPATIAL'):
                p.accept_kw('INDEX', 'KEY')
            name = cname
            if not p.op('(') and not p.kw('USING'):
                name = p.ident('index name', True)
            if p.accept_kw('USING'):
                p.advance()
            cols = self._key_parts(p)
            name = name or self._auto_index_name(tbl, cols[0])
            (tbl.unique_keys if k == 'UNIQUE' else tbl.indexes)[name] = cols
        elif p.accept_kw('FOREIGN'):
            p.expect_kw('KEY')
            if not p.op('('):
                cname = cname or p.ident('foreign key name', True)
            cols = self._key_parts(p)
            p.expect_kw('REFERENCES')
            _, ref = p._table_name()
            refcols = self._key_parts(p)
            fk = ForeignKey(cname or self._auto_fk_name(tbl), cols, ref, refcols)
            while p.accept_kw('ON'):
                which = p.expect_kw('DELETE', 'UPDATE')
                if p.accept_kw('SET'):
                    action = 'SET ' + p.expect_kw('NULL', 'DEFAULT')
                elif p.accept_kw('NO'):
                    p.expect_kw('ACTION')
                    action = 'NO ACTION'
                else:
                    action = p.expect_kw('CASCADE', 'RESTRICT')
                if which == 'DELETE':
                    fk.on_delete = action
                else:
                    fk.on_update = action
            tbl.foreign_keys.append(fk)
        elif p.kw('CHECK'):
            p.fail('CHECK constraint not interpreted')
        else:
            p.unexpected('a constraint')
        # trailing index options (USING BTREE, COMMENT, VISIBLE ...) are tolerated
        while not p.at_eof():
            if p.accept_kw('USING'):
                p.advance()
            elif p.accept_kw('VISIBLE', 'INVISIBLE'):
                pass
            elif p.accept_kw('COMMENT'):
                p.advance()
            else:
                p.fail('uninterpreted constraint option %s' % p.tok.describe())

    # ---- statements -----------------------------------------------------------

    def apply(self, text: str, file: Optional[str], line: int) -> bool:
        """Apply one DDL statement.  Returns True when it was a table/index DDL
        statement (handled or tolerated), False when it is something else."""
        try:
            toks = tokenize(text, file, line, False)
        except SqlUnsupported as e:
            head = text.lstrip()[:20].upper()
            if re.match(r'(CREATE|ALTER|DROP|RENAME)\b', head):
                self.note(file, line, 'untokenizable DDL: %s' % e.message)
                return True
            return False
        p = Parser(text, file, tokens=toks)
        try:
            return self._apply(p, file, line)
        except SqlUnsupported as e:
            self.note(file, e.line or line, 'DDL not interpreted (%s): %s' % (e.message, self._raw(p, toks[:-1])[:160]))
            return True

    def _apply(self, p: Parser, file, line) -> bool:
        if p.kw('CREATE'):
            k = 1
            temporary = False
            if p.kw_at(k, 'TEMPORARY'):
                temporary = True
                k += 1
            if p.kw_at(k, 'TABLE'):
                p.i += k + 1
                self._create_table(p, file, line, temporary)
                return True
            unique = False
            if p.kw_at(k, 'UNIQUE', 'FULLTEXT', 'SPATIAL'):
                unique = p.kw_at(k, 'UNIQUE') is not None
                k += 1
            if p.kw_at(k, 'INDEX'):
                p.i += k + 1
                name = p.ident('index name', True)
                if p.accept_kw('USING'):
                    p.advance()
                p.expect_kw('ON')
                _, tname = p._table_name()
                tbl = self.find(tname)
                if tbl is None:
                    self.note(file, line, 'CREATE INDEX on unknown table %s' % tname)
                    return True
                cols = self._key_parts(p)
                (tbl.unique_keys if unique else tbl.indexes)[name] = cols
                tbl.source.append((file, line))
                return True
            return False
        if p.kw('DROP'):
            k = 1
            if p.kw_at(k, 'TEMPORARY'):
                k += 1
            if p.kw_at(k, 'TABLE', 'TABLES'):
                p.i += k + 1
                if_exists = False
                if p.accept_kw('IF'):
                    p.expect_kw('EXISTS')
                    if_exists = True
                while True:
                    _, tname = p._table_name()
                    tbl = self.find(tname)
                    if tbl is None:
                        if not if_exists:
                            self.note(file, line, 'DROP TABLE of unknown table %s' % tname)
                    else:
                        del self.tables[tbl.name]
                        self.temporary.discard(tbl.name)
                        if self.on_drop:
                            self.on_drop(tbl.name, file, line)
                    if not p.accept_op(','):
                        break
                p.accept_kw('CASCADE', 'RESTRICT')
                return True
            if p.kw_at(k, 'INDEX'):
                p.i += k + 1
                name = p.ident('index name', True)
                p.expect_kw('ON')
                _, tname = p._table_name()
                tbl = self.find(tname)
                if tbl is None:
                    self.note(file, line, 'DROP INDEX on unknown table %s' % tname)
                else:
                    self._drop_index(tbl, name, file, line)
                return True
            return False
        if p.kw('RENAME') and p.kw_at(1, 'TABLE', 'TABLES'):
            p.advance(); p.advance()
            while True:
                _, a = p._table_name()
                p.expect_kw('TO')
                _, b = p._table_name()
                self._rename(a, b, file, line)
                if not p.accept_op(','):
                    break
            return True
        if p.kw('ALTER') and p.kw_at(1, 'TABLE'):
            p.advance(); p.advance()
            _, tname = p._table_name()
            tbl = self.find(tname)
            if tbl is None:
                self.note(file, line, 'ALTER TABLE of unknown table %s' % tname)
                return True
            tbl.source.append((file, line))
            rest = p.toks[p.i:-1]
            for spec in _split_top_level(rest):
                if not spec:
                    continue
                # the table may have been renamed by an earlier spec
                try:
                    self._alter_spec(self._sub(p, spec), tbl, file, line)
                except SqlUnsupported as e:
                    tbl.unparsed.append('%s:%s: ALTER ... %s  [%s]' % (
                        os.path.basename(file or '?'), e.line or line, self._raw(p, spec), e.message))
            return True
        return False

    def _rename(self, a, b, file, line):
        tbl = self.find(a)
        if tbl is None:
            self.note(file, line, 'RENAME of unknown table %s' % a)
            return
        old = tbl.name
        items = [((b if k == old else k), v) for k, v in self.tables.items()]
        tbl.name = b
        tbl.source.append((file, line))
        self.tables = dict(items)
        if old in self.temporary:
            self.temporary.discard(old)
            self.temporary.add(b)
        if self.on_rename:
            self.on_rename(old, b, file, line)

    def _drop_index(self, tbl, name, file, line):
        for d in (tbl.unique_keys, tbl.indexes):
            for k in list(d):
                if k.lower() == name.lower():
                    del d[k]
                    return
        for fk in tbl.foreign_keys:
            if (fk.name or '').lower() == name.lower():
                # the implicit index backing a foreign key; indexes of FKs are not modelled
                return
        tbl.unparsed.append('%s:%s: DROP INDEX %s: no such index is modelled (implicit FK index?)'
                            % (os.path.basename(file or '?'), line, name))

    def _create_table(self, p: Parser, file, line, temporary):
        if_not_exists = False
        if p.accept_kw('IF'):
            p.expect_kw('NOT'); p.expect_kw('EXISTS')
            if_not_exists = True
        _, name = p._table_name()
        if self.find(name) is not None:
            if not if_not_exists:
                self.note(file, line, 'CREATE TABLE %s: table already exists' % name)
            return
        tbl = Table(name)
        tbl.source.append((file, line))
        if p.accept_kw('LIKE'):
            _, other = p._table_name()
            src = self.find(other)
            if src is None:
                self.note(file, line, 'CREATE TABLE %s LIKE unknown table %s' % (name, other))
                return
            import copy
            tbl = copy.deepcopy(src)
            tbl.name = name
            tbl.foreign_keys = []
            tbl.source = [(file, line)]
        elif p.op('(') and not p._paren_starts_query():
            # find the matching ')'
            depth, j = 0, p.i
            while True:
                t = p.toks[j]
                if t.kind == 'eof':
                    p.fail("unbalanced '(' in CREATE TABLE")
                if t.kind == 'op' and t.value == '(':
                    depth += 1
                elif t.kind == 'op' and t.value == ')':
                    depth -= 1
                    if depth == 0:
                        break
                j += 1
            inner = p.toks[p.i + 1:j]
            for d in _split_top_level(inner):
                if not d:
                    continue
                q = self._sub(p, d)
                try:
                    if q.kw(*self._CONSTRAINT_KW):
                        self.constraint(q, tbl)
                    else:
                        col, pk, uniq, _ = self.column_def(q, tbl)
                        tbl.columns[col.name] = col
                        if pk:
                            self._set_pk(tbl, (col.name,))
                        if uniq:
                            tbl.unique_keys[self._auto_index_name(tbl, col.name)] = (col.name,)
                except SqlUnsupported as e:
                    tbl.unparsed.append('%s:%s: CREATE TABLE ... %s  [%s]' % (
                        os.path.basename(file or '?'), e.line or line, self._raw(p, d), e.message))
            p.i = j + 1
            opts = p.toks[p.i:-1]
            if opts and any(t.upper in ('SELECT', 'AS') for t in opts):
                tbl.unparsed.append('%s:%s: CREATE TABLE ... (defs) AS SELECT not interpreted'
                                    % (os.path.basename(file or '?'), line))
            # table options (ENGINE=..., DEFAULT CHARSET=...) are irrelevant here
            if tbl.primary_key:
                self._set_pk(tbl, tbl.primary_key)
        else:
            tbl.unparsed.append('%s:%s: CREATE TABLE ... AS SELECT: columns not derived: %s' % (
                os.path.basename(file or '?'), line, self._raw(p, p.toks[p.i:-1])[:200]))
        self.tables[name] = tbl
        if temporary:
            self.temporary.add(name)

    def _alter_spec(self, p: Parser, tbl: Table, file, line):
        if p.accept_kw('ADD'):
            if p.kw(*self._CONSTRAINT_KW):
                self.constraint(p, tbl)
                return
            p.accept_kw('COLUMN')
            if p.op('('):
                inner = p.toks[p.i + 1:-2]
                for d in _split_top_level(inner):
                    col, pk, uniq, pos = self.column_def(self._sub(p, d), tbl)
                    self._add_column(tbl, col, pk, uniq, pos)
                return
            col, pk, uniq, pos = self.column_def(p, tbl)
            self._add_column(tbl, col, pk, uniq, pos)
            return
        if p.accept_kw('DROP'):
            if p.accept_kw('PRIMARY'):
                p.expect_kw('KEY')
                tbl.primary_key = ()
            elif p.accept_kw('INDEX', 'KEY'):
                self._drop_index(tbl, p.ident('index name', True), file, line)
            elif p.accept_kw('FOREIGN'):
                p.expect_kw('KEY')
                name = p.ident('foreign key name', True)
                n0 = len(tbl.foreign_keys)
                tbl.foreign_keys = [fk for fk in tbl.foreign_keys if (fk.name or '').lower() != name.lower()]
                if len(tbl.foreign_keys) == n0:
                    tbl.unparsed.append('%s:%s: DROP FOREIGN KEY %s: no such foreign key is modelled'
                                        % (os.path.basename(file or '?'), line, name))
            elif p.accept_kw('CONSTRAINT', 'CHECK'):
                name = p.ident('constraint name', True)
                n0 = len(tbl.foreign_keys)
                tbl.foreign_keys = [fk for fk in tbl.foreign_keys if (fk.name or '').lower() != name.lower()]
                if len(tbl.foreign_keys) == n0:
                    self._drop_index(tbl, name, file, line)
            else:
                p.accept_kw('COLUMN')
                name = p.ident('column name', True)
                col = tbl.column(name)
                if col is None:
                    p.fail('DROP COLUMN of unknown column %s' % name)
                del tbl.columns[col.name]
                low = col.name.lower()
                tbl.primary_key = tuple(c for c in tbl.primary_key if c.lower() != low)
                for d in (tbl.unique_keys, tbl.indexes):
                    for k in list(d):
                        d[k] = tuple(c for c in d[k] if c.lower() != low)
                        if not d[k]:
                            del d[k]
                for fk in list(tbl.foreign_keys):
                    if any(c.lower() == low for c in fk.columns):
                        tbl.foreign_keys.remove(fk)
                        tbl.unparsed.append('%s:%s: DROP COLUMN %s: foreign key %s on it removed as well '
                                            '(MySQL requires an explicit DROP FOREIGN KEY first)'
                                            % (os.path.basename(file or '?'), line, col.name, fk.name))
            if not p.at_eof():
                p.unexpected('end of DROP specification')
            return
        if p.accept_kw('MODIFY'):
            p.accept_kw('COLUMN')
            name = p.tok.value
            col, pk, uniq, pos = self.column_def(p, tbl)
            if tbl.column(name) is None:
                p.fail('MODIFY of unknown column %s' % name)
            self._replace_column(tbl, name, col, pk, uniq, pos)
            return
        if p.accept_kw('CHANGE'):
            p.accept_kw('COLUMN')
            old = p.ident('column name', True)
            if tbl.column(old) is None:
                p.fail('CHANGE of unknown column %s' % old)
            col, pk, uniq, pos = self.column_def(p, tbl)
            self._replace_column(tbl, old, col, pk, uniq, pos)
            return
        if p.accept_kw('RENAME'):
            if p.accept_kw('COLUMN'):
                old = p.ident('column name', True)
                p.expect_kw('TO')
                new = p.ident('column name', True)
                col = tbl.column(old)
                if col is None:
                    p.fail('RENAME COLUMN of unknown column %s' % old)
                oldname = col.name
                col.name = new
                tbl.columns = dict(((new if k == oldname else k), v) for k, v in tbl.columns.items())
                self._rename_col_refs(tbl, oldname, new)
            elif p.accept_kw('INDEX', 'KEY'):
                old = p.ident('index name', True)
                p.expect_kw('TO')
                new = p.ident('index name', True)
                for d_name in ('unique_keys', 'indexes'):
                    d = getattr(tbl, d_name)
                    for k in list(d):
                        if k.lower() == old.lower():
                            setattr(tbl, d_name, dict(((new if kk == k else kk), v) for kk, v in d.items()))
                            break
                    else:
                        continue
                    break
                else:
                    p.fail('RENAME INDEX of unknown index %s' % old)
            else:
                p.accept_kw('TO', 'AS')
                _, new = p._table_name()
                self._rename(tbl.name, new, file, line)
            if not p.at_eof():
                p.unexpected('end of RENAME specification')
            return
        if p.kw('ALGORITHM', 'LOCK'):
            p.advance()
            p.accept_op('=')
            p.advance()
            if not p.at_eof():
                p.unexpected('end of ALGORITHM/LOCK option')
            return
        p.fail('ALTER TABLE specification not interpreted')

    def _rename_col_refs(self, tbl, old, new):
        low = old.lower()
        ren = lambda cols: tuple(new if c.lower() == low else c for c in cols)
        tbl.primary_key = ren(tbl.primary_key)
        for d in (tbl.unique_keys, tbl.indexes):
            for k in d:
                d[k] = ren(d[k])
        for fk in tbl.foreign_keys:
            fk.columns = ren(fk.columns)

    def _add_column(self, tbl, col, pk, uniq, pos):
        if tbl.column(col.name) is not None:
            raise SqlUnsupported('ADD COLUMN of existing column %s' % col.name)
        self._put_column(tbl, col, pos)
        if pk:
            self._set_pk(tbl, (col.name,))
        if uniq:
            tbl.unique_keys[self._auto_index_name(tbl, col.name)] = (col.name,)

    def _replace_column(self, tbl, old, col, pk, uniq, pos):
        oldcol = tbl.column(old)
        self._put_column(tbl, col, pos, replace=oldcol.name)
        if oldcol.name != col.name:
            self._rename_col_refs(tbl, oldcol.name, col.name)
        if any(c.lower() == col.name.lower() for c in tbl.primary_key):
            col.nullable = False
        if pk:
            self._set_pk(tbl, (col.name,))
        if uniq:
            tbl.unique_keys[self._auto_index_name(tbl, col.name)] = (col.name,)


# ==========================================================================
# 10. Replaying the migrations
# ==========================================================================

class RoutineEvent:
    """One CREATE or DROP of a routine seen during the replay.
    action: 'create' | 'drop' | 'drop-missing' | 'dropped-with-table' | 'moved-with-table'"""
    __slots__ = ('action', 'kind', 'name', 'file', 'line', 'detail')

    def __init__(self, action, kind, name, file, line, detail=''):
        self.action, self.kind, self.name = action, kind, name
        self.file, self.line, self.detail = file, line, detail

    def __repr__(self):
        return 'RoutineEvent(%s %s %s @%s:%s%s)' % (self.action, self.kind, self.name,
                                                   os.path.basename(self.file or '?'), self.line,
                                                   ' ' + self.detail if self.detail else '')


class Replay:
    """Result of replaying all migrations (see _replay)."""

    def __init__(self):
        self.files = []
        self.routines = {}          # lower-cased name -> Routine (header parsed, body unparsed)
        self.history = []           # list[RoutineEvent]
        self.ddl = _DDL()
        self.py_routine_ddl = []    # (file, line, snippet)
        self.py_table_ddl = []      # (file, line, text, applied: bool)
        self.other_statements = {}  # leading keywords -> count (top-level DML etc., not interpreted)
        self.notes = self.ddl.notes


_ROUTINE_HEAD = re.compile(
    r'\s*(CREATE|DROP)\s+(?:DEFINER\s*=\s*\S+\s+)?(PROCEDURE|FUNCTION|TRIGGER)\b', re.I)
_PY_ROUTINE_DDL = re.compile(r'\bCREATE\s+(?:DEFINER\s*=\s*\S+\s+)?(PROCEDURE|FUNCTION|TRIGGER)\b', re.I)
_PY_TABLE_DDL = re.compile(r'^\s*(CREATE\s+(TEMPORARY\s+)?TABLE|ALTER\s+TABLE|DROP\s+(TEMPORARY\s+)?TABLE|'
                           r'RENAME\s+TABLE|CREATE\s+(UNIQUE\s+)?INDEX|DROP\s+INDEX)\b', re.I)

# f-string DDL in .py migrations whose holes range over a literal list in the
# same file.  Each entry: file name -> (text that must occur in the file for
# the transcription to be trusted, list of substitutions for the holes).
# 078-driver_behavior.py runs, for each (table, col, typ) below,
#   ALTER TABLE {table} ADD COLUMN {col} {typ}, ALGORITHM=INSTANT;
#   UPDATE {table} SET {col} = {value};
#   ALTER TABLE {table} MODIFY COLUMN {col} {typ} NOT NULL;
_PY_DDL_EXPANSIONS = {
    '078-driver_behavior.py': [
        ("('inst_colls', 'max_new_instances_per_autoscaler_loop', 'INT', 10)", ('inst_colls', 'max_new_instances_per_autoscaler_loop', 'INT')),
        ("('inst_colls', 'autoscaler_loop_period_secs', 'INT', 15)", ('inst_colls', 'autoscaler_loop_period_secs', 'INT')),
        ("('inst_colls', 'worker_max_idle_time_secs', 'INT', 30)", ('inst_colls', 'worker_max_idle_time_secs', 'INT')),
        ("('pools', 'standing_worker_max_idle_time_secs', 'INT', standing_worker_max_idle_time_secs)", ('pools', 'standing_worker_max_idle_time_secs', 'INT')),
        ("('pools', 'job_queue_scheduling_window_secs', 'INT', 150)", ('pools', 'job_queue_scheduling_window_secs', 'INT')),
    ],
}


def python_sql_strings(path: str, source: Optional[str] = None) -> list:
    """(line, text, has_holes) for every string constant / f-string of a Python
    file.  In f-strings each formatted value is replaced by `{<source>}`.
    Constants that are pieces of an f-string are not reported separately."""
    if source is None:
        with open(path, encoding='utf-8') as f:
            source = f.read()
    tree = _pyast.parse(source, path)
    inner = set()          # everything nested inside an f-string (pieces, and nodes inside its holes)
    for node in _pyast.walk(tree):
        if isinstance(node, _pyast.JoinedStr):
            for sub in _pyast.walk(node):
                if sub is not node:
                    inner.add(id(sub))
    out = []
    for node in _pyast.walk(tree):
        if isinstance(node, _pyast.JoinedStr) and id(node) not in inner:
            parts = []
            for v in node.values:
                if isinstance(v, _pyast.Constant):
                    parts.append(str(v.value))
                else:
                    parts.append('{' + _pyast.unparse(v.value) + '}')
            out.append((node.lineno, ''.join(parts), True))
        elif isinstance(node, _pyast.Constant) and isinstance(node.value, str) and id(node) not in inner:
            out.append((node.lineno, node.value, False))
    out.sort(key=lambda x: x[0])
    return out


@functools.lru_cache(maxsize=4)
def _replay(repo: str = '/repo') -> Replay:
    """Replay every migration in build.yaml order.

    .sql files: split with DELIMITER handling; CREATE/DROP PROCEDURE|FUNCTION|
    TRIGGER maintain the routine table, table/index DDL maintains the schema,
    everything else (data migration DML, SET, LOCK ...) is counted in
    `other_statements` and otherwise ignored.  DROP TABLE drops the table's
    triggers, RENAME TABLE moves them (as MySQL does).  TEMPORARY tables vanish
    at the end of their migration (one connection per migration).

    .py files: string constants are scanned for routine DDL (reported, never
    applied) and table DDL (applied when it has no format holes, or when the
    holes are covered by _PY_DDL_EXPANSIONS; reported either way).
    """
    rp = Replay()
    rp.files = migration_files(repo)
    ddl = rp.ddl

    def on_drop(table, file, line):
        for k, r in list(rp.routines.items()):
            if r.kind == 'trigger' and r.table.lower() == table.lower():
                del rp.routines[k]
                rp.history.append(RoutineEvent('dropped-with-table', 'trigger', r.name, file, line, 'table ' + table))

    def on_rename(old, new, file, line):
        for r in rp.routines.values():
            if r.kind == 'trigger' and r.table.lower() == old.lower():
                r.table = new
                rp.history.append(RoutineEvent('moved-with-table', 'trigger', r.name, file, line,
                                               '%s -> %s' % (old, new)))

    ddl.on_drop, ddl.on_rename = on_drop, on_rename

    for path in rp.files:
        with open(path, encoding='utf-8') as f:
            text = f.read()
        if path.endswith('.sql'):
            for rs, r in _sub_statements(split_script(text, path), path):
                m = _ROUTINE_HEAD.match(rs.text)
                if r is not None:
                    key = r.name.lower()
                    if key in rp.routines:
                        ddl.note(path, rs.first_line, 'CREATE %s %s: already exists (MySQL would fail here); '
                                 'new definition replaces the old one' % (r.kind.upper(), r.name))
                    if r.kind == 'trigger' and ddl.find(r.table) is None:
                        ddl.note(path, rs.first_line, 'CREATE TRIGGER %s on unknown table %s' % (r.name, r.table))
                    rp.routines[key] = r
                    rp.history.append(RoutineEvent('create', r.kind, r.name, path, rs.first_line))
                elif m:
                    p = Parser(rs.text, path, rs.first_line)
                    p.expect_kw('DROP')
                    kind = p.expect_kw('PROCEDURE', 'FUNCTION', 'TRIGGER').lower()
                    if_exists = False
                    if p.accept_kw('IF'):
                        p.expect_kw('EXISTS')
                        if_exists = True
                    _, name = p._table_name()
                    if not p.at_eof():
                        p.unexpected('end of DROP statement')
                    cur = rp.routines.get(name.lower())
                    if cur is not None and cur.kind == kind:
                        del rp.routines[name.lower()]
                        rp.history.append(RoutineEvent('drop', kind, name, path, rs.first_line))
                    else:
                        rp.history.append(RoutineEvent('drop-missing', kind, name, path, rs.first_line))
                        if not if_exists:
                            ddl.note(path, rs.first_line, 'DROP %s %s: does not exist (MySQL would fail here)'
                                     % (kind.upper(), name))
                elif not ddl.apply(rs.text, path, rs.first_line):
                    words = re.findall(r'[A-Za-z_]+', rs.text[:60])[:2]
                    key = ' '.join(w.upper() for w in words[:2 if words and words[0].upper() in
                                                             ('INSERT', 'DELETE', 'LOCK', 'UNLOCK', 'START', 'CREATE',
                                                              'DROP', 'ALTER', 'OPTIMIZE', 'ANALYZE') else 1])
                    rp.other_statements[key] = rp.other_statements.get(key, 0) + 1
        elif path.endswith('.py'):
            base = os.path.basename(path)
            for lineno, s, holes in python_sql_strings(path, text):
                if _PY_ROUTINE_DDL.search(s):
                    rp.py_routine_ddl.append((path, lineno, s.strip()[:200]))
                # a string may contain several statements
                if not _PY_TABLE_DDL.match(s):
                    continue
                if not holes:
                    for rs in split_script(s):
                        if _PY_TABLE_DDL.match(rs.text):
                            ddl.apply(rs.text, path, lineno + rs.first_line - 1)
                            rp.py_table_ddl.append((path, lineno, rs.text, True))
                    continue
                exp = _PY_DDL_EXPANSIONS.get(base)
                if exp and all(marker in text for marker, _ in exp) and \
                        re.search(r'\{table\}.*\{col\}.*\{typ\}', s):
                    for _, (table, col, typ) in exp:
                        stmt = s.replace('{table}', table).replace('{col}', col).replace('{typ}', typ)
                        ddl.apply(stmt.rstrip().rstrip(';'), path, lineno)
                        rp.py_table_ddl.append((path, lineno, stmt, True))
                elif base == '058-rm-resource-foreign-keys.py' and 'DROP FOREIGN KEY' in s:
                    # The hole-y statement is the body of delete_foreign_key_constraint(db, db_name,
                    # table, referenced_table, referenced_columns): it looks the constraint name up
                    # in INFORMATION_SCHEMA and drops it.  Replay each call site in the file.
                    calls = re.findall(r"delete_foreign_key_constraint\(db, db_name, '(\w+)', '(\w+)', \[([^\]]*)\]\)", text)
                    for tname, ref, cols in calls:
                        refcols = tuple(c.strip().strip('\'"') for c in cols.split(',') if c.strip())
                        tbl = ddl.find(tname)
                        hit = [fk for fk in (tbl.foreign_keys if tbl else [])
                               if fk.ref_table.lower() == ref.lower() and tuple(fk.ref_columns) == refcols]
                        if len(hit) == 1:
                            tbl.foreign_keys.remove(hit[0])
                            tbl.source.append((path, lineno))
                            rp.py_table_ddl.append((path, lineno, 'ALTER TABLE %s DROP FOREIGN KEY %s  -- via '
                                                    'delete_foreign_key_constraint(%r, %r, %r)'
                                                    % (tname, hit[0].name, tname, ref, list(refcols)), True))
                        else:
                            ddl.note(path, lineno, 'delete_foreign_key_constraint(%r, %r, %r): %d matching foreign '
                                     'keys modelled, nothing dropped' % (tname, ref, list(refcols), len(hit)))
                    if not calls:
                        ddl.note(path, lineno, 'no delete_foreign_key_constraint call sites found')
                else:
                    rp.py_table_ddl.append((path, lineno, s.strip(), False))
                    ddl.note(path, lineno, 'table DDL with format holes in .py migration NOT applied: %s' % s.strip())
        else:
            raise SqlUnsupported('migration is neither .sql nor .py', path, None)
        # temporary tables do not survive the migration's connection
        for tname in list(ddl.temporary):
            ddl.tables.pop(tname, None)
        ddl.temporary.clear()
    return rp


def _first_semicolon(text: str, file, line) -> int:
    """Offset of the first ';' outside quotes and comments, or -1."""
    i, n = 0, len(text)
    while i < n:
        c = text[i]
        ce = _comment_end(text, i) if c in '#-/' else -1
        if ce >= 0:
            i = ce
        elif c in '\'"`':
            i = _skip_quoted(text, i, file, line)
        elif c == ';':
            return i
        else:
            i += 1
    return -1


def _sub_statements(chunks: list, path: str):
    """A chunk delimited by a non-';' delimiter (DELIMITER $$) may still hold
    several statements separated by ';' - the server splits them, e.g.
        DROP TRIGGER IF EXISTS t;  CREATE TRIGGER t ... END $$
    Yields (RawStmt, Routine|None).  For CREATE PROCEDURE/FUNCTION/TRIGGER the
    Routine is returned with its body parsed when possible (that is how the end
    of the routine is found); if the body does not parse, the whole remainder
    of the chunk is taken to be the routine and parse_error is set."""
    for rs in chunks:
        text, line = rs.text, rs.first_line
        while True:
            # skip leading whitespace / comments, keeping `line` exact
            toks = None
            j = 0
            while j < len(text):
                if text[j].isspace():
                    j += 1
                    continue
                ce = _comment_end(text, j)
                if ce < 0:
                    break
                j = ce
            line += text.count('\n', 0, j)
            text = text[j:]
            if not text:
                break
            m = _ROUTINE_HEAD.match(text)
            if m and m.group(1).upper() == 'CREATE':
                p = Parser(text, path, line)
                try:
                    r = p.parse_routine(path, line, rs.last_line, True, allow_more=True)
                    rest = p.rest_pos
                except SqlUnsupported as e:
                    r = Parser(text, path, line).parse_routine(path, line, rs.last_line, False)
                    r.parse_error = e
                    rest = None
                if rest is None:
                    yield RawStmt(text, line, rs.last_line), r
                    break
                yield RawStmt(r.raw_text, line, r.last_line), r
                line += text.count('\n', 0, rest)
                text = text[rest:]
                continue
            k = _first_semicolon(text, path, line)
            if k < 0:
                yield RawStmt(text, line, rs.last_line), None
                break
            piece = text[:k].rstrip()
            yield RawStmt(piece, line, line + piece.count('\n')), None
            line += text.count('\n', 0, k + 1)
            text = text[k + 1:]


def effective_routines(repo: str = '/repo', strict: bool = True) -> dict:
    """name -> Routine for every procedure/function/trigger that survives the
    replay of all .sql migrations (last CREATE not followed by a DROP), with
    parsed bodies.  strict=True raises SqlUnsupported if a surviving routine
    cannot be parsed; strict=False leaves body=None and sets parse_error."""
    rp = _replay(repo)
    out = {}
    for r in rp.routines.values():
        if r.parse_error is not None and strict:
            raise r.parse_error
        out[r.name] = r
    return out


def effective_tables(repo: str = '/repo') -> dict:
    """name -> Table after replaying all table DDL of the migrations."""
    return dict(_replay(repo).ddl.tables)


def routine_history(repo: str = '/repo') -> list:
    """Every routine CREATE/DROP event in replay order (list[RoutineEvent])."""
    return list(_replay(repo).history)


def py_routine_ddl(repo: str = '/repo') -> list:
    """(file, line, snippet) for every string literal in a .py migration that
    contains CREATE PROCEDURE/FUNCTION/TRIGGER.  These are NOT applied."""
    return list(_replay(repo).py_routine_ddl)


def replay_notes(repo: str = '/repo') -> list:
    """(file, line, message) for everything the replay tolerated."""
    return list(_replay(repo).notes)


# ==========================================================================
# 11. Embedded SQL in the Python sources, and the self test
# ==========================================================================

# required candidates: SELECT|INSERT|UPDATE|DELETE|CALL; in addition query
# expressions that start with WITH or with a parenthesised SELECT
_LOOKS_LIKE_SQL = re.compile(r'\s*((SELECT|INSERT|UPDATE|DELETE|CALL|WITH)\b|\(\s*SELECT\b)', re.I)
# second-keyword check used only to classify *failures* as "probably not SQL"
_PLAUSIBLE_SQL = re.compile(
    r'\s*(SELECT\b[\s\S]*|INSERT\s+(IGNORE\s+)?INTO\b|UPDATE\s+\S+[\s\S]*\bSET\b|DELETE\s+FROM\b|'
    r'DELETE\s+\S+\s+FROM\b|CALL\s+\w+\s*\(|WITH\s+\w+\s+AS\s*\(|\(\s*SELECT\b)', re.I)


def scan_python_sql(root: str) -> list:
    """Find SQL-looking strings under `root` (recursively, *.py) and try to parse
    them.  Returns a list of dicts: file, line, text, ok, error, plausible."""
    results = []
    for path in sorted(glob.glob(os.path.join(root, '**', '*.py'), recursive=True)):
        try:
            strings = python_sql_strings(path)
        except SyntaxError as e:
            results.append(dict(file=path, line=0, text='', ok=False, error='python syntax error: %s' % e,
                                plausible=False))
            continue
        for lineno, s, _ in strings:
            if not _LOOKS_LIKE_SQL.match(s):
                continue
            rec = dict(file=path, line=lineno, text=s, ok=True, error=None,
                       plausible=bool(_PLAUSIBLE_SQL.match(s)))
            try:
                stmts = parse_statements(s, path, lineno)
                if not stmts:
                    raise SqlSyntaxError('no statement', path, lineno)
                rec['stmts'] = stmts
            except SqlUnsupported as e:
                rec['ok'] = False
                rec['error'] = e
            results.append(rec)
    return results


def _roundtrip_check(r: Routine) -> Optional[str]:
    """parse(print(body)) must equal body.  Returns an error message or None."""
    try:
        again = parse_routine_body(r.body.to_sql())
    except SqlUnsupported as e:
        return 'printed body does not re-parse: %s' % e
    if again != r.body:
        return 'printed body re-parses to a different AST'
    return None


def selftest(repo: str = '/repo', out=None) -> int:
    out = out or sys.stdout
    w = lambda s='': print(s, file=out)
    failed = False
    rp = _replay(repo)
    w('== migrations: %d files (%d .sql, %d .py)' % (
        len(rp.files), sum(f.endswith('.sql') for f in rp.files), sum(f.endswith('.py') for f in rp.files)))

    routines = effective_routines(repo, strict=False)
    w()
    w('== effective routines: %d' % len(routines))
    for name in sorted(routines, key=lambda n: (routines[n].kind, n)):
        r = routines[name]
        where = '%s:%d-%d' % (os.path.basename(r.source_file), r.first_line, r.last_line)
        if r.parse_error is not None:
            failed = True
            w('  %-9s %-34s %-52s PARSE FAILURE: %s' % (r.kind, name, where, r.parse_error))
            continue
        extra = ''
        if r.kind == 'trigger':
            extra = ' [%s %s ON %s]' % (r.trigger_time, r.trigger_event, r.table)
        elif r.kind == 'function':
            extra = ' [RETURNS %s]' % r.returns.to_sql()
        w('  %-9s %-34s %-52s %3d stmts%s' % (r.kind, name, where, len(r.statements()), extra))
        err = _roundtrip_check(r)
        if err:
            failed = True
            w('      ROUND-TRIP FAILURE: %s' % err)

    # historical definitions (informational)
    n_hist = n_bad = 0
    bad = []
    for path in rp.files:
        if not path.endswith('.sql'):
            continue
        with open(path, encoding='utf-8') as f:
            text = f.read()
        for rs, r in _sub_statements(split_script(text, path), path):
            if r is None:
                continue
            n_hist += 1
            if r.parse_error is not None:
                n_bad += 1
                bad.append('%s %s: %s' % (r.kind, r.name, r.parse_error))
    w()
    w('== all routine definitions ever created: %d, of which %d (superseded ones) do not parse' % (n_hist, n_bad))
    for b in bad:
        w('  ' + b)

    w()
    w('== routine DDL inside .py migrations: %d' % len(rp.py_routine_ddl))
    for f, l, snip in rp.py_routine_ddl:
        w('  %s:%d: %s' % (os.path.basename(f), l, snip))
    w('== table DDL inside .py migrations: %d' % len(rp.py_table_ddl))
    for f, l, txt, applied in rp.py_table_ddl:
        w('  %s:%d: [%s] %s' % (os.path.basename(f), l, 'applied' if applied else 'NOT APPLIED', txt.strip()))
    w('== top-level statements of .sql migrations that are neither routine nor table DDL (ignored): %s'
      % ', '.join('%s x%d' % kv for kv in sorted(rp.other_statements.items())))

    tables = effective_tables(repo)
    w()
    w('== effective tables: %d' % len(tables))
    for name, t in tables.items():
        w('  %s  PRIMARY KEY (%s)' % (name, ', '.join(t.primary_key)))
        for uk, cols in t.unique_keys.items():
            w('      UNIQUE %s (%s)' % (uk, ', '.join(cols)))
        for c in t.columns.values():
            ty = c.type + ('(%s)' % ','.join(c.type_args) if c.type_args else '') + (' UNSIGNED' if c.unsigned else '')
            w('      %-40s %-22s %-8s%s%s%s' % (
                c.name, ty, 'NULL' if c.nullable else 'NOT NULL',
                ' DEFAULT ' + c.default if c.default is not None else '',
                ' AUTO_INCREMENT' if c.auto_increment else '',
                ' GENERATED ' + c.generated_expr if c.generated else ''))
        for fk in t.foreign_keys:
            w('      FK %s (%s) -> %s (%s)%s' % (fk.name, ', '.join(fk.columns), fk.ref_table,
                                                 ', '.join(fk.ref_columns),
                                                 ' ON DELETE ' + fk.on_delete if fk.on_delete else ''))
        for u in t.unparsed:
            w('      UNPARSED: ' + u)
    w()
    w('== replay notes (tolerated anomalies): %d' % len(rp.notes))
    for f, l, msg in rp.notes:
        w('  %s:%s: %s' % (os.path.basename(f or '?'), l, msg))

    # embedded SQL
    root = os.path.join(repo, 'batch', 'batch')
    res = scan_python_sql(root)
    ok = [r for r in res if r['ok']]
    bad_plausible = [r for r in res if not r['ok'] and r['plausible']]
    bad_other = [r for r in res if not r['ok'] and not r['plausible']]
    w()
    w('== embedded SQL under %s: %d candidate strings, %d parse, %d fail (%d of the failures do not look '
      'like SQL beyond the first word)' % (root, len(res), len(ok), len(res) - len(ok), len(bad_other)))
    by_file = {}
    for r in res:
        d = by_file.setdefault(os.path.relpath(r['file'], repo), [0, 0])
        d[0] += 1
        d[1] += r['ok']
    for f, (n, k) in sorted(by_file.items()):
        w('  %-60s %3d/%3d' % (f, k, n))
    for title, lst in (('failures', bad_plausible), ('failures on strings that are probably not SQL', bad_other)):
        if lst:
            w('  -- %s:' % title)
        for r in lst:
            first = ' '.join(r['text'].split())[:70]
            e = r['error']
            w('  %s:%d: %s   | %s' % (os.path.relpath(r['file'], repo), r['line'],
                                      e.message if isinstance(e, SqlUnsupported) else e, first))
    w()
    w('SELFTEST %s' % ('FAILED' if failed else 'OK'))
    return 1 if failed else 0


def main(argv=None) -> int:
    argv = list(sys.argv[1:] if argv is None else argv)
    repo = '/repo'
    if '--repo' in argv:
        k = argv.index('--repo')
        repo = argv[k + 1]
        del argv[k:k + 2]
    if argv == ['--selftest']:
        return selftest(repo)
    if len(argv) == 2 and argv[0] == '--routine':
        r = effective_routines(repo)[argv[1]]
        print(r.to_sql())
        return 0
    print('usage: python3-vt -m vc.sqlparse --selftest | --routine NAME  [--repo /repo]', file=sys.stderr)
    return 2


if __name__ == '__main__':
    sys.exit(main())
