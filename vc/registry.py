"""Registry of claimed checks and not-applicable properties; `python3-vt -m vc.registry` rewrites MANIFEST.json."""
from __future__ import annotations

import json
import os

VERIF = os.path.dirname(os.path.dirname(os.path.abspath(__file__)))

COMMON_NOTE = (
    'Trusted: CPython ast, z3 5.1 / cvc5 1.0.3, the VC generators in /verif/vc (guarded by canaries, vacuity checks, '
    'concrete cross-validation against the real code); contracts are sidecar files, the verified text is re-read from /repo on every run. '
)

# pid -> dict(text, note, technique, design_ref)
CLAIMED = {
    'C28': dict(
        text='Both validators are translated from their real source to regular languages (regex literals through CPython re._parser, '
        'per-character predicates evaluated on every code point) and language EQUALITY with the specified grammar is decided by z3 for all strings; '
        'witnesses are replayed on the real functions. Call-site obligations: validators dominate the INSERT INTO users.',
        note=COMMON_NOTE + 'Assumes str inputs; z3 alphabet limit U+2FFFF (classes checked uniform above it); updates of existing user rows are not scanned.',
        technique='contract (language equality) on real source, relang -> z3 regex solver',
        design_ref='7/C28',
    ),
    'C19': dict(
        text='Batch._create_bunches is verified against a boundary-array contract (ghost st/m): the bunches are adjacent non-empty slices of '
        '[*group specs, *job specs] in order, each within the count and byte limits, for all list contents and limits (loop invariant with ghost '
        'prefix sums, discharged by z3); class SpecBytes under contract (real __init__ then real n_bytes getter: n_bytes is the byte length of '
        'what goes on the wire, fields untouched, written by the class only); a quantifier-free open-bunch-within-limits lemma on the same '
        'function; type filters and submission order decided on the AST; at the call site every sender in Batch._submit gets the bunches '
        'that this call computed from the pending specs with this call\'s limits and submit passes its limits unchanged (def-use on the AST).',
        note=COMMON_NOTE + 'orjson.dumps uninterpreted; SpecBytes modelled by a constructor UF whose axioms are the proved postconditions of its methods; '
        'prefix-sum spec function axioms are definitional; meta-lemma L5 (adjacent slices concatenate to the list) is a paper argument. '
        'Obligations the solver leaves unknown are only reported as violations when a witness replays on the real function. '
        'bytes.decode is an uninterpreted text of at most as many characters as bytes; the submit/retry behaviour of the real Batch against a '
        'recording client is a BOUNDED stand-in (144 two-call scenarios), not a proof; the call-site clause is a def-use fact of the AST.',
        technique='loop-invariant contract on real source, pyvc symbolic execution -> z3',
        design_ref='7/C19',
    ),
    'C21': dict(
        text='Per-iteration decision contract of retry_transient_errors_with_debug_string and sync_retry_transient_errors for every number of previous '
        'failures (loop invariant tries == #failures): re-raise iff the error is not retryable per the spec table, raise exactly the error f raised, '
        'sleep exactly delay_ms_for_try(#failures)/1000, return f\'s value unchanged; delay_ms_for_try bounds [min(c//2,max), min(c,max)] proved for all arguments. '
        'Classifiers: http clauses (rate limit => transient; 400 + listed message anywhere in e.body => limited retry), an error of no tested class is classified by '
        'its explicit __cause__ chain alone (never by __context__); hailtop.httpx ClientSession.request attaches the whole decoded response body and the status to the '
        'ClientResponseError it raises for status >= 400. One obligation is a native enumeration (not a solver proof): no builtin error class outside the two documented '
        'limited-retry classes is retried by the real async helper unless transient.',
        note=COMMON_NOTE + 'The operation f is an oracle; inside the loops the three classifiers are uninterpreted predicates; which exception classes they count as '
        'transient is not decided (isinstance is an uninterpreted predicate per class); the aiohttp transport is an oracle, bytes.decode() an uninterpreted function; '
        'random.randrange(n) in [0,n); division by 1000.0 treated as real division.',
        technique='per-iteration contract + loop invariant on real source, pyvc -> z3',
        design_ref='7/C21',
    ),
    'C25': dict(
        text='(a) the language of each real compiled pattern equals the documented grammar (both inclusions, z3 regex solver); (b) capture groups = unique '
        'NUM/UNIT decomposition, UNIT set enumerated from the pattern; (c) the arithmetic of the three real parse functions is verified for every unit and '
        'every decimal text: result == floor/ceil of dec(NUM) x spec factor, exact rationals for Fraction values and the (1+d) relative-error model for floats, '
        'so any float artefact refutes an obligation; server validators use the same pattern objects with fullmatch (AST obligations).',
        note=COMMON_NOTE + 'dec(NUM) (value of a decimal text) is an uninterpreted function = contract of fractions.Fraction(str); float model assumes no overflow/underflow; '
        'witnesses for refuted exactness obligations come from a concrete search on the real functions.',
        technique='contract (language equality + exact-arithmetic postconditions) on real source, relang + pyvc -> z3',
        engine='pyvc+relang',
        design_ref='7/C25',
    ),
    'C38': dict(
        text='calculate_even_genome_partitioning.calc_parts verified for every contig length >= 1 and interval size >= 1: the inclusive intervals start at base 1, '
        'are adjacent and non-empty, end at the contig length and satisfy end - start <= interval_size (loop invariant, nonlinear ceil facts discharged by z3). '
        'Merge plan: the selection statements of _step_vdses (first bin, one top-up iteration) and _step_gvcfs are verified as fragments - what is taken and what stays split what was there (take ++ rest == old per bin, other bins untouched, between 1 and branch_factor datasets); the intermediate path prefix of a resumed combiner is fresh (AST). ' \
        'Where the merged datasets go (wave 4): the tails of _step_gvcfs / _step_vdses from the statement that may write the final output are verified - the final output is written only when no GVCF and no dataset is pending (the real `finished` property is executed), exactly once, from the dataset(s) of this step; otherwise every imported dataset is filed exactly once at the end of one bin >= 1 with its sample count, the merged dataset is appended to a bin strictly above the bin the merge started from, and pending datasets are kept in order (defaultdict reads modelled, checked on __init__). step() runs exactly one step function, each only where its selection contract applies, and advances the job number of an unfinished plan; run() saves before every step and after the last (AST). ' \
        'The step parameters: __init__ rejects branch_factor < 2 and gvcf_batch_size < 1, the resume path of new_combiner (maybe_load_from_saved_path, with the real property setter executed if it goes through it) returns a plan with batch size >= 1, branch factor >= 2 and the saved pending inputs unchanged; the closed set of writers of the two parameters is an AST obligation. The public gvcf_batch_size setter is under contract; its clause "batch size stays >= 1" FAILS for more than 150000 import intervals (known finding, replayed). Encoder/Decoder of the plan and termination of run() are listed undecided. Contig selection: the 25 primary contigs of GRCh37 / GRCh38 including the mitochondrial contig, each once, all partitioned and returned.',
        note=COMMON_NOTE + 'math.ceil(a / b) on ints treated as the exact rational ceiling (valid below 2**53); hl.Interval/hl.Locus are value constructors; '
        'the @typecheck decorator is dropped by extraction. Engine / file-system / logging calls are assumed to leave the combiner plan alone (their results are opaque); VDSMetadata is a free pair constructor (NamedTuple, checked); new_combiner is assumed to be called with branch_factor >= 2 and gvcf_batch_size >= 1 on the resume path too (only __init__ validates them). Plan save/load (JSON encoder/decoder), engine calls (combine_variant_datasets, import_gvcfs) and termination of run() (needs: a non-final dataset step merges at least two datasets) are NOT covered.',
        technique='loop-invariant contract on real source, pyvc -> z3',
        design_ref='7/C38',
    ),
    'C40': dict(
        text="Atomic-segment rely/guarantee proof on the real methods: every code segment between awaits preserves the invariant and its guarantee, the shared state is havocked at every await subject to invariant and rely (shown stable under other tasks' guarantee), so the invariant holds in every reachable state of every schedule for any number of tasks. " + 'WeightedSemaphore: value >= 0 and value + held == max (never grants more than capacity); acquire returns holding exactly n; on CancelledError the waiter\'s entry is removed or an already-made grant is released; AssertionError only for n > max with nothing changed; _AcquireManager releases on every exit (AST obligations).',
        note=COMMON_NOTE + 'Assumed: asyncio single-threaded switching at awaits; Event/SortedKeyList contracts; one rely (a still-waiting event is still queued) is a paper argument; callers release what they acquired (discharged for _AcquireManager).',
        technique='atomic-segment rely/guarantee contracts on real source, pyvc -> z3',
        design_ref='7/C40, 2.2',
    ),
    'C16': dict(
        text="Atomic-segment rely/guarantee proof on the real methods: every code segment between awaits preserves the invariant and its guarantee, the shared state is havocked at every await subject to invariant and rely (shown stable under other tasks' guarantee), so the invariant holds in every reachable state of every schedule for any number of tasks. " + 'FIFOWeightedSemaphore: capacity invariant; ghost arrival tickets prove every grant goes to the smallest outstanding ticket (FIFO) at both grant sites; a non-empty queue never has a head that fits (no blocked head) at every await/return; context manager and worker call sites by AST obligations.',
        note=COMMON_NOTE + 'Assumed: asyncio single-threaded switching at awaits; asyncio.Event contract; liveness is the state invariant only (no scheduler fairness); cancellation of a waiter not covered (outside the property text).',
        technique='atomic-segment rely/guarantee contracts on real source, pyvc -> z3',
        design_ref='7/C16, 2.2',
    ),
    'C24': dict(
        text="Atomic-segment rely/guarantee proof on the real methods: every code segment between awaits preserves the invariant and its guarantee, the shared state is havocked at every await subject to invariant and rely (shown stable under other tasks' guarantee), so the invariant holds in every reachable state of every schedule for any number of tasks. " + 'RateLimiter.__aenter__: ghost admission history A; _items is exactly the suffix of admissions not yet expired; at every admission the recorded time is the current clock reading and fewer than count admissions lie in (now-window, now]; the sleep lasts exactly until the oldest entry of a full window expires.',
        note=COMMON_NOTE + 'Assumed: asyncio single-threaded; time.time() non-decreasing; float time arithmetic treated as exact; the step from "at most count in (t-W,t] for every admission t" to "every half-open window" is a paper lemma.',
        technique='atomic-segment contracts with ghost history on real source, pyvc -> z3',
        design_ref='7/C24, 2.2',
    ),
    'C03': dict(
        text='The effective attempts_before_update trigger is executed symbolically (NULL-aware) for an arbitrary UPDATE and inside every real statement that writes '
        'attempts (5 procedures + the driver\'s embedded billing update, closed-world scan): for all OLD rows satisfying the table invariant and all arguments, '
        'billed time is bounded by end-start, never decreases except on an earlier end or activation timeout, start only moves earlier, reason/end freeze, and the invariant is re-established; '
        'an attempt marked as an activation timeout keeps start NULL (bills nothing) under every later report and a start wiped by the timeout never comes back. One known finding (late mark_job_complete carrying a start time after an activation timeout) is listed in known_findings.json.',
        note=COMMON_NOTE + 'Assumed: each procedure call is atomic (serialisable isolation); MySQL NULL/boolean semantics as encoded in vc/sqlvc.py; integer column widths sufficient; SQL cannot be executed in this sandbox so counter-models are rows (VIOLATION ... no-failing-input-found). ' + 'Call-site facts used as preconditions are listed in evidence (non-NULL time/reason arguments; NULL end only for attempts without recorded times). Not claimed: a stale activation_timeout deactivation that wipes the start of an attempt already ended with another reason (a later report may then set a later start). Known finding replay: contracts/native/c03_late_complete_replay.py (trigger interpreter on the unpatched SQL text).',
        technique='trigger/procedure contracts on the real SQL text, sqlvc symbolic execution -> z3',
        engine='sqlvc',
        design_ref='7/C03, 2.3',
    ),
    'C10': dict(
        text='Every procedure that changes free cores or ends/places an attempt (schedule_job, mark_job_creating, mark_job_started, unschedule_job, mark_job_complete via add_attempt, '
        'deactivate_instance, activate_instance, mark_instance_deleted) is executed symbolically path by path: delta free cores == cores x (attempt live before - live after) for every live instance, '
        'frames for other instances/attempts, deactivate leaves free == cores; the delta_cores_mcpu each one-attempt procedure REPORTS in its single result row equals the net change it made to the free-core row of a live instance (schedule_job on a pool instance: plus the refund of the in-memory pre-deduction). One known finding (pending-instance release asymmetry) is listed in known_findings.json. Instance.deactivate: an instance the call leaves inactive reports all its cores free in memory (rc 0 and rc 1 alike). driver.job.mark_job_complete as a whole: the delta the procedure reports is applied to the active in-memory instance exactly once whatever rc and old state, before any later step that can fail.',
        note=COMMON_NOTE + 'Assumed: each procedure call is atomic (serialisable isolation); MySQL NULL/boolean semantics as encoded in vc/sqlvc.py; integer column widths sufficient; SQL cannot be executed in this sandbox so counter-models are rows (VIOLATION ... no-failing-input-found). ' + 'Delta obligations lift to the invariant by sum localisation (paper lemma L1). Inactive instances never move. Python mirror: the delta reported by each procedure is applied to the in-memory figure once whatever the return code (fragment contracts on driver/job.py, incl. mark_job_complete), Instance.adjust_free_cores_in_memory adds exactly it.',
        technique='procedure contracts (delta obligations) on the real SQL text, sqlvc -> z3',
        engine='sqlvc',
        design_ref='7/C10, 2.3',
    ),
    'C04': dict(
        text='Every procedure assigning jobs.state (closed-world scan) is executed symbolically: every point and set-oriented rewrite of jobs.state is an allowed lifecycle transition for all rows and arguments, '
        'terminal states are absorbing, the tally statement of mark_job_complete runs exactly on the non-terminal->terminal paths, touches exactly anc*(group) and adds one completed plus exactly one outcome matching new_state; '
        'terminal(new_state) is discharged at the Python call sites; first reads of written tables take a lock. '
        'A Creating/Running job is rewritten to Ready only when its own current attempt (jobs.attempt_id) is one the call withdraws (unschedule_job: the named attempt; deactivate_instance: the attempts on that instance; nobody else), and that attempt is ended by the same call. '
        'The Python caller driver.job.mark_job_complete is under a pyvc contract: one CALL with the reported state; batch / job-group callbacks and the kill of a job-private instance happen at most once and only for the row '
        'rc = 0 with a non-terminal old_state, which the procedure answers on exactly its completing paths.',
        note=COMMON_NOTE + 'Assumed: each procedure call is atomic (serialisable isolation; justified by the lock-discipline obligations where stated); MySQL NULL/boolean semantics as encoded in vc/sqlvc.py; integer column widths sufficient; SQL cannot be executed in this sandbox so counter-models are rows (VIOLATION ... no-failing-input-found). ' + "Invariant N' of C05 is a hypothesis of the children statement; commit_batch_update is outside the subset (GROUP BY derived tables) and listed undecided. "
        'Python side: db.execute_and_fetchone is assumed to return the result row of the CALL (row kinds are read off the real procedure) or to raise; the bodies of notify_batch_job_complete / notify_job_group_on_job_complete / Instance.kill are not verified; counterexamples of the Python contract are replayed on the real coroutine (contracts/native/c04_replay.py, bounded enumeration).',
        technique='procedure contracts (transition relation) on the real SQL text, sqlvc -> z3',
        engine='sqlvc',
        design_ref='7/C04, 2.3',
    ),
    'C07': dict(
        text='is_job_group_cancelled / is_job_cancelled / is_batch_cancelled proved equal to the spec predicates over the tables; schedule_job, mark_job_creating, mark_job_started move a job to Creating/Running only when the spec '
        'predicate says not cancelled and always answer with a result row; jobs_before_insert signals exactly for cancelled groups; cancel_job_group / cancel_batch are idempotent and change grp_cancelled exactly on the subtree. '
        'Python side (embedded SQL evaluated by sqlvc): _create_job_group creates a group only beneath a non-cancelled parent, writes exactly the own row plus every self-and-ancestors row of the parent one level up, and rejects exactly too deep nestings; '
        'commit_update and _create_batch_update.update refuse a request as cancelled iff the ROOT group of the batch is marked and commit / open an update only when it is not. '
        'Known finding: is_job_cancelled yields one subquery row per cancelled ancestor (MySQL error 1242 under two cancelled groups on one path). cancel_job_group_in_db admits only the root group or a group whose own update is committed (SQL-structural obligation on its existence check).',
        note=COMMON_NOTE + 'Assumed: each procedure call is atomic (serialisable isolation; justified by the lock-discipline obligations where stated); MySQL NULL/boolean semantics as encoded in vc/sqlvc.py; integer column widths sufficient; SQL cannot be executed in this sandbox so counter-models are rows (VIOLATION ... no-failing-input-found). ' + 'Structural invariants A1 (own row, root has no other ancestor) and A2 (row count of a group = level of its root row + 1) of job_group_self_and_ancestors are preconditions; A2 is shown preserved by _create_job_group. Python side: _create_job_group, cancel_job_group_in_db, commit_update and _create_batch_update.update are under pyvc contracts with their SQL evaluated semantically (fetchone = some row of the result set); the commit gate is advisory (read outside the commit transaction); the scheduler/canceller selection queries are listed undecided.',
        technique='function/procedure contracts against spec predicates on the real SQL text, sqlvc -> z3',
        engine='sqlvc',
        design_ref='7/C07, 2.3',
    ),
    'C01': dict(
        text='Layer 1 (trigger contract): for all OLD/NEW rows and databases the effective jobs_after_update trigger adds exactly g_X(NEW) - g_X(OLD) to each of the 13 counters X, at the user key '
        'and at exactly the ancestor-group keys, with inserted value == duplicate-branch increment (additivity); g_X are the invariant summands written from the property text. '
        'Layer 2 (closed world): no statement assigns the immutable job columns and no Python statement updates jobs; every writer of the three counter tables is under contract; the stored procedure cancel_batch is never called. '
        'Layer 3 (bulk operations, pointwise): cancel_job_group moves exactly the group\'s totals of committed updates (and only if the group is not already cancelled itself or through an ancestor) and subtracts them from every ancestor; '
        '_create_jobs stages [Ready] / [Ready and not always_run] totals per job, and its transaction insert_jobs_into_db writes no counter before the jobs INSERT passed the duplicate-bunch test, writes each counter table exactly once per accepted bunch and fans every (group, inst_coll) entry out to exactly the ancestors of its group; '
        'commit_batch_update adds exactly the root group\'s staged ready totals of the update to the batch user\'s counters in the transaction that flips committed 0 -> 1; the driver\'s cleanup loops delete only cancellable rows of cancelled groups (itself or an ancestor) and staging rows of committed updates. '
        'Undecided: layer-2 clause (iii) (committed-only touches, tied to C41) and the job-row re-evaluation of commit_batch_update for later updates.',
        note=COMMON_NOTE + 'Assumed: each procedure/trigger invocation is atomic (serialisable isolation; the first-read locks of commit_batch_update and cancel_job_group are an obligation); MySQL NULL/boolean semantics as encoded in vc/sqlvc.py; integer column widths sufficient; token-sharded tables are read through SUM over token (meta-lemma L1); insert_jobs_into_db runs under @transaction (commit on return, rollback on exception: C27); the cleanup loops are judged against the database their target query saw (monotone cancellation / commit flags are scanned); SQL cannot be executed in this sandbox so counter-models are rows (VIOLATION ... no-failing-input-found). ',
        technique='trigger and procedure contracts (delta obligations against spec summands) on the real SQL text, sqlvc -> z3; the Python coroutines that issue counter SQL executed by pyvc with their statements run by sqlvc',
        engine='sqlvc',
        design_ref='7/C01 layers 1-3',
    ),
    'C02': dict(
        text='attempts_after_update and attempt_resources_after_insert verified for all rows: each of the four aggregate tables receives exactly quantity x (billed(NEW) - billed(OLD)) (resp. quantity x billed) '
        'at the key derived from the attempt, for every resource row / ancestor group and nothing else, additively; add_attempt_resources duplicate branch changes nothing; compaction statements share the full key and re-insert the selected sum at token 0.',
        note=COMMON_NOTE + 'Assumed: each procedure/trigger invocation is atomic (serialisable isolation); MySQL NULL/boolean semantics as encoded in vc/sqlvc.py; integer column widths sufficient; token-sharded tables are read through SUM over token (meta-lemma L1); SQL cannot be executed in this sandbox so counter-models are rows (VIOLATION ... no-failing-input-found). ' + 'Per-day table: invariant stated on the sum over dates. Cost arithmetic (floats) not covered.',
        technique='trigger contracts (delta obligations) on the real SQL text + parsed embedded SQL obligations, sqlvc -> z3',
        engine='sqlvc',
        design_ref='7/C02',
    ),
    'C06': dict(
        text='K2 (state = complete <=> n_completed = n_jobs) is proved preserved for EVERY group of the batch and for the batch row by mark_job_complete (with the cursor loop of mark_job_group_complete executed as a pointwise transformer) '
        'and by commit_batch_update, whose staged-count aggregate is shown pointwise to sum all staging rows of (batch, update, group); groups reopen iff jobs were staged; a wrong staged count rolls everything back; '
        'batch_record_to_dict / job_group_record_to_dict pass the flag and counters through (AST obligations). '
        'Counting invariant K in delta form on the final database of every path: mark_job_complete adds one to n_completed and to the outcome counter of new_state for exactly the groups of anc*(group of the job) and makes exactly that job terminal; '
        'every other procedure assigning jobs.state (closed-world scan, commit_batch_update included) changes no job\'s terminal-ness and moves no count - a job counted complete is never reset. '
        '_create_jobs.insert_jobs_into_db (pyvc fragment, native replay): each (group, inst_coll) entry of the bunch stages its own n_jobs under the ancestors of its own group.',
        note=COMMON_NOTE + 'Assumed: each procedure/trigger invocation is atomic (serialisable isolation, justified by the lock-discipline obligations); MySQL NULL/boolean semantics as encoded in vc/sqlvc.py; integer column widths sufficient; SQL cannot be executed in this sandbox so counter-models are rows (VIOLATION ... no-failing-input-found). ' + 'K2 uses the counting invariant K through its consequences (n_completed <= n_jobs; < for ancestors of a committed non-terminal job). The K delta clauses take from other properties: a child of a live job is Pending (C05), no job is its own parent (C08), jobs of an uncommitted update are not terminal and batch_updates has one row per update (C41, C09). A derived table with LIMIT n is an arbitrary n-subset of its rows (ORDER BY over-approximated). Sums compared pointwise (paper lemma L2).',
        technique='procedure contracts (invariant preservation, pointwise aggregate obligations) on the real SQL text, sqlvc -> z3',
        engine='sqlvc',
        design_ref='7/C06',
    ),
    'C05': dict(
        text='Children statement of mark_job_complete and recompute statement of commit_batch_update verified pointwise for all rows: exactly the children / the id range are touched, n_pending_parents is decremented resp. recomputed '
        'as the number of non-terminal parents (aggregates shown to range over exactly the job\'s edges with the right summands), Ready iff no pending parent remains, cancelled set iff a terminal parent did not succeed; '
        '_create_jobs (one fragment, counter record .. job_parents loop): the stored row is Ready only in update 1 without parents, stored n_pending_parents = #parents however computed, one job_parents row per parent; '
        'parent ids: validate.handle_job_backwards_compatibility keeps the legacy parent_ids key absolute and never rewrites in_update_parent_ids (all dict shapes), every job passes through it, _create_jobs combines absolute and shifted in-update ids; '
        'canceller: the three job-selection generators executed on the real AST with their embedded SQL evaluated by sqlvc: every yielded row is a jobs row in the loop\'s state, never always-run, marked cancelled or in a cancelled group, and is the job completed as Cancelled; '
        'first reads of mark_job_complete / commit_batch_update take locks. Scheduler selections (pool.py, job_private.py): no query drops an always-run job because of jobs.cancelled.',
        note=COMMON_NOTE + 'Assumed: each procedure/trigger invocation is atomic (serialisable isolation, justified by the lock-discipline obligations); MySQL NULL/boolean semantics as encoded in vc/sqlvc.py; integer column widths sufficient; SQL cannot be executed in this sandbox so counter-models are rows (VIOLATION ... no-failing-input-found). ' + 'Pointwise obligations lift to invariant N by paper lemmas L1/L2. _create_jobs is verified on one fragment of its loop body plus the parent_ids statement (inputs symbolic, rest dropped). The legacy parent_ids key is read as batch job ids (the pre-update job API). Canceller: the queries of one generator iteration are evaluated over one database state (group cancellation, jobs.cancelled = 1, always_run are monotone); LIMIT only drops rows; completeness of the selection (liveness) is not claimed.',
        technique='procedure contracts (pointwise statement semantics, aggregate predicates) on real SQL + function/fragment contracts on real Python with embedded SQL bound row-wise by sqlvc, sqlvc/pyvc -> z3',
        engine='sqlvc+pyvc',
        design_ref='7/C05',
    ),
    'C41': dict(
        text='_create_jobs inserts jobs of later updates Pending (fragment contract); every job-selection query requires state Ready; commit_batch_update writes nothing unless the staged count equals the declared one and is the only writer of committed; '
        'cancel_job_group transfers only rows of committed updates (pointwise aggregate obligation). The obligation that the children statement of mark_job_complete readies only committed children FAILS on the unchanged tree and is listed as known finding F1. '
        'Wave 4: the whole per-job region of _create_jobs is one contract (row state = computed state, n_pending_parents = number of parent rows in every update); commit_batch_update rewrites only jobs of the update being committed; '
        'mark_job_complete completes the batch only at the total of COMMITTED updates (batches.n_jobs or a pointwise-checked aggregate over batch_updates); scheduler visibility: every job selection is confined to running groups/batches, '
        "only commit_batch_update can set 'running', no Python INSERT creates a running group/batch, _create_job_group under a pyvc contract. Canceller: every job-group walk is confined to running groups (top-level conjunct).",
        note=COMMON_NOTE + 'Assumed: each procedure/trigger invocation is atomic (serialisable isolation, justified by the lock-discipline obligations); MySQL NULL/boolean semantics as encoded in vc/sqlvc.py; integer column widths sufficient; SQL cannot be executed in this sandbox so counter-models are rows (VIOLATION ... no-failing-input-found). ' + 'One known finding (known_findings.json). Assumed as well: invariant K of C06 (batches.n_jobs counts committed updates), the id-range invariant of updates, and that updates staging jobs are committed in order (no later update is committed while update 1 is open - not enforced by the code). Staging rows of never-committed updates, listings of job groups of uncommitted updates and nested-group completion (C06) are not covered.',
        technique='procedure/fragment contracts on real SQL and Python, sqlvc/pyvc -> z3, with a recorded known finding',
        engine='sqlvc+pyvc',
        design_ref='7/C41',
    ),
    'C08': dict(
        text='Fragment contracts on the real _create_jobs: every parent id handed to job_parents is an earlier job (0 < parent < job_id) or the bunch is rejected before any write; one job_parents row per listed parent and n_pending_parents = #parents; '
        'validate_and_clean_jobs loop contract (contiguous ids); commit_batch_update commits only when staged count == declared count. The reserved-range clause is not enforced by the code and is recorded as a known finding.',
        note=COMMON_NOTE + 'Assumed: each procedure call is atomic (serialisable isolation, justified by the lock-discipline obligations); MySQL NULL/boolean semantics as encoded in vc/sqlvc.py; SQL counter-models cannot be executed here. ' + 'One fix: commit (parent validation) and one known finding (id range). _create_job_group parent existence and completion liveness are listed undecided.',
        technique='fragment/loop contracts on real Python + procedure obligations on real SQL, pyvc/sqlvc -> z3',
        engine='pyvc+sqlvc',
        design_ref='7/C08',
    ),
    'C09': dict(
        text='_create_batch_update.update verified with an effect log for its embedded SQL: a token hit returns the stored (update_id, start_job_group_id, start_job_id) and writes nothing; otherwise exactly one INSERT continuing the last update\'s ranges and the inserted ids are returned in order; '
        'commit_batch_update writes nothing for a committed update, answers rc 0 and takes a row lock first; ER_DUP_ENTRY path returns before further inserts; client Job/JobGroup._submit and the server compute start + id - 1.',
        note=COMMON_NOTE + 'Assumed: each procedure call is atomic (serialisable isolation, justified by the lock-discipline obligations); MySQL NULL/boolean semantics as encoded in vc/sqlvc.py; SQL counter-models cannot be executed here. ' + 'Queries recognised by text; FOR UPDATE serialisation assumed; induction over updates is a paper argument; _create_batch short-circuit not yet covered.',
        technique='function contract with SQL effect log on real Python + procedure obligations, pyvc/sqlvc -> z3',
        engine='pyvc+sqlvc',
        design_ref='7/C09',
    ),
    'C15': dict(
        text='(a) regions_to_bits_rep / regions_bits_rep_to_regions verified with 64-bit-vector loop invariants (bit b set iff some selected region has id b+1; decode returns exactly the sub-sequence of set regions) and a z3 lemma composing the two contracts into the round trip; '
        '(b) BatchFormatVersion.db_spec followed by each get_spec_* reader executed symbolically on the real code for every format version 2..7 and all 32 key-presence shapes of a spec (list lengths and contents symbolic): the readers return the original secrets, service account, file flags and machine spec; '
        '(c) the sites the round trip of a stored job depends on: front_end._create_jobs (fragments of the real per-job loop body, stale values of the loop variables symbolic): the bits / count stored for a job are the encoding of THAT job\'s regions (NULL without regions), unknown or empty selections are rejected before the encoder (its precondition is discharged at the call), the appended jobs row and the INSERT column list carry them in fields 10/11; '
        'job_private.create_instances_loop_body: the coroutine handed to the pool decodes the spec / bits of ITS record parameter (symbolic execution of the nested coroutine) and has no free variable rebound by the enclosing loops (closure analysis on the AST); '
        'table regions: AUTO_INCREMENT key + UNIQUE name, and no embedded statement or stored routine replaces, deletes or updates an existing row (vc/sqlparse over batch/batch/**/*.py and the routines), each driver registers its regions with INSERT ... ON DUPLICATE KEY UPDATE region = region.',
        note=COMMON_NOTE + 'Preconditions: region ids unique in [1,63] (selected regions being keys of the mapping is now discharged at the call site); job specs have the validator\'s shape; version 1 is the identity. (b) is whole-composition symbolic execution (writer result fed to the reader), not a modular proof. (c) cuts the encoder / decoder / reader calls at uninterpreted functions; the late-binding clause is a syntactic closure analysis plus a replay; the mapping is read once per process start.',
        technique='loop-invariant contracts (bit-vectors) + symbolic composition of real writer and readers, pyvc -> z3',
        design_ref='7/C15',
    ),
    'C13': dict(
        text='Per resource class of both clouds (real to_quantified_resource, mixins/super() resolved from the class statements, real __init__): never raises, quantity >= 0, '
        'share resources: q(job1) + q(job2) <= q(any whole containing them) whatever the external storage is, name independent of the job; external-storage resources bill nothing at storage 0 and depend on it alone. '
        'InstanceConfig.quantified_resources (loop invariant with ghost index maps): arguments passed unchanged, one fraction for all resources, output = exactly the non-None quantities in order; '
        'the fraction, obtained by executing the real body on cpu = a, b, a+b and cores*1000: F(cores*1000) = 1024 for any core count, F >= 0, F(a)+F(b) <= F(a+b); packing induction step and final comparison machine-checked over uninterpreted q, F satisfying exactly those obligations. '
        'Serialization: X.to_dict -> <cloud>_resource_from_dict -> X.from_dict -> X.__init__ executed symbolically per class: same class, same fields, identical billed quantities; '
        '{GCP,Azure}SlimInstanceConfig.from_dict(to_dict()) preserves machine type (hence cores/memory), job_private and the element-wise reloaded resources. '
        'Wave 4: {gcp,azure}_cores_mcpu_to_memory_bytes (real bodies, any positive per-core table value and each real one): exactly floor(mcpu * per-core bytes / 1000), super-additive, cores * per-core for the whole worker; '
        'PoolConfig.convert_requests_to_resources: the memory returned is that share of the cores returned, cores fit the worker; '
        'worker.py Job.__init__ (fragment): billed = quantified_resources(spec cores, spec memory, external storage the worker attaches: 0 on job-private instances, the request on pool workers), fields fixed after construction, disks created with that size, status reports self.resources; '
        'the drivers\' create_vm bill the whole worker with cores * 1000 and extra storage 0 (scans).',
        note=COMMON_NOTE + 'Assumptions: int constructor arguments are non-negative; <cloud>_machine_type_to_parts is a function of the machine type string; the Azure disk-tier lookup is abstracted (returned tier size >= request; every tier has a name entry, established by create()); '
        'create() (needs ProductVersions) and the float cost multiplication are outside the contract; the Terra config subclass is not covered. '
        'Memory helpers: float operations are exact reals, the per-core lookup is an uninterpreted positive function of the worker type (real values enumerated); that parts.memory of every pool machine type equals cores * per-core is checked by native enumeration of the real tables (witness search), not proved; '
        'the terra driver\'s create_vm and the front end\'s own call of the memory helper are not under contract.',
        technique='symbolic execution of real methods with inlined class hierarchy (pyvc + pyclass) -> z3; loop-invariant contract; induction-step lemma',
        design_ref='7/C13',
    ),
    'C27': dict(
        text='exception_log_level_if_retryable: result truthy exactly for InternalError 1205 and OperationalError 1213/2013/2003/1040, None otherwise (truthiness matters: it is tested with `if loglevel := ...`). '
        'retry_transient_mysql_errors.wrapper: loop contract for every number of earlier failures - f is re-run (after sleep_before_try(failures)) iff it raised an Exception the classifier accepts; anything else is re-raised unchanged at once; value returned unchanged. '
        'transaction(...).wrapper and six Database convenience methods: decorated by the retry loop as a whole; the body opens one db.start(read_only) context, makes exactly one call inside it with that transaction, nothing else; with-protocol modelled with failing enter/exit. '
        'Transaction._aexit_1: rollback-and-never-commit on an exception type, commit-and-never-rollback otherwise, connection dropped and release scheduled once on every path including failing commit/rollback; _aexit / __aexit__ forward the exception type; async_init starts the transaction once with the right statement, releases on failure.',
        note=COMMON_NOTE + 'Atomicity itself (ROLLBACK discards writes) is the assumed contract of MySQL. The async-generator helpers execute_and_fetchall / select_and_fetchall are not retried (listed as undecided). Exceptions are abstract values with uninterpreted isinstance predicates; .args[0] is the error number.',
        technique='loop-invariant + with-protocol contracts on the real functions, pyvc -> z3; decorator structure by AST obligations',
        design_ref='7/C27',
    ),
    'C23': dict(
        text='AsyncFS.read_range opens open_from(url, start, length=n) and returns readexactly(n) with n = end-start(+1 if inclusive); open_from routes length 0 to EmptyReadableStream and forwards url/start/length unchanged otherwise (router likewise); '
        'GCS and S3 _open_from send Range "bytes=<start>-" / "bytes=<start>-<start+length-1>" (string terms compared with the specification by congruence), S3 maps InvalidRange to UnexpectedEOFError; '
        'local: _open_from seeks to start and wraps the file in TruncatedReadableBinaryIO(length); TruncatedReadableBinaryIO.read keeps 0 <= offset <= limit and returns min(request, window, file); _ReadableStreamFromBlocking._readexactly (loop invariant) returns exactly n contiguous bytes or raises; '
        'Azure: _open_from builds the stream with offset=start,length=length; every download_blob request of AzureReadableStream.read starts at the first byte not yet handed out and ends at the end of the window (failed before the fix: commit 23c8b8681), readexactly returns n bytes or raises; read(n) turns the 416 of a range starting at or after the end of the blob into UnexpectedEOFError (helpers of the stream are inlined from their real bodies). '
        'GCS request path (wave 4): GoogleStorageClient.get_object, BaseSession.get, Session.request (no session-wide params), RateLimitedSession.request and the retry loop of Session._request_with_valid_authn (loop invariant) pass method, url, params and EVERY caller header - the Range header - unchanged to the wire, with or without authentication headers; get_object maps 416 to UnexpectedEOFError. '
        'TruncatedReadableBinaryIO.seek: the window bookkeeping offset == file position - window start is preserved by SEEK_CUR and by read; the SEEK_SET / SEEK_END clauses and "a successful seek lands inside the window" FAIL on the unchanged code and are a recorded known finding (replayed; coordinate system is a maintainer decision). GetObjectStream.readexactly: exactly n bytes, UnexpectedEOFError only when the body ends first (StreamReader.read may return short, readexactly may not).',
        note=COMMON_NOTE + 'Assumed: credentials produce authentication headers only (never a caller key), io seek/read contract of the underlying file, 416 for ranges starting at or after the end. Undecided: Azure read(-1) lets that 416 escape unmapped (no clause claimed for unbounded reads). Assumed: RFC 7233 range semantics of the GCS/S3 servers, the Azure SDK download_blob(offset, length) contract, Python file read(k) returning min(k, remaining) bytes, aiohttp StreamReader.readexactly. Byte contents are abstract (positions and lengths are tracked); the Azure buffer logic is under a length-level contract only.',
        technique='contracts on the real methods (with-protocol, loop invariant, string terms), pyvc -> z3',
        design_ref='7/C23',
    ),
    'C17': dict(
        text='Batch._async_run numbering loop as a verified checker (nested loop invariants): on a normal exit job k of the list has _job_id k+1 and every dependency of every job has a strictly smaller number, self._jobs is handed to the backend in that order, BatchException only when some dependency does not come earlier; the check precedes the backend call (AST). '
        'Job.depends_on: every argument, the job itself included, is added to the dependency set (loop invariant). '
        'Job._interpolate_command.handler: a resource produced by another job makes that job a dependency whether or not the job is always-run, and is registered as input/output. '
        'LocalBackend._async_run: the job loop is sliced mechanically to its skip logic and verified with a loop invariant (a job is marked cancelled iff it is not always-run and a parent failed or was skipped; processed jobs are bad iff they ran and failed or were skipped): the jobs skipped are exactly the non-always-run jobs with a failed or skipped parent, an error is reported iff a job that ran failed; cancel_child_jobs under its own loop contract.',
        note=COMMON_NOTE + 'Assumed: the DFS builds a duplicate-free, dependency-closed list (not under contract; hence "a DAG is never falsely rejected" is undecided); cyclic relations admit no topological numbering (paper lemma); the slice drops the shell-generating statements (listed in evidence), run_code is an oracle; child relation = inverse dependencies (AST obligation). '
        'Quantified VCs that FAIL come back unknown from z3; a violation is then reported only with a witness from the native search on the real Batch/LocalBackend (random pipelines, real bash). Thorough tier: 600 random pipelines as a bounded stand-in.',
        technique='loop-invariant contracts on the real functions (one on a mechanical slice), pyvc -> z3 with quantified invariants; native random-pipeline search as witness/replay',
        design_ref='7/C17',
    ),
    'C20': dict(
        text='Ghost count HELD of semaphore units held by one coroutine. run_with_sema / run_with_sema_return_exceptions: the partial function is called holding exactly one unit, nothing held afterwards, value / exception passed on unchanged, the return-exceptions variant turns EVERY exception (BaseException) into (None, exc) and never raises. '
        'Gather bodies: one task per partial function in submission order, handed to gather in that order, results returned in that order, awaited without the caller\'s unit, unit restored; with cancel_on_error every task is finished or cancelled (loop invariant) and all are awaited before the first exception leaves. '
        'WithoutSemaphore gives up exactly one unit and must take it back on every exit (the exceptional exit fails: known finding). bounded_gather2 dispatch; bounded_gather holds one unit of the semaphore it passes. '
        'OnlineBoundedGather2: run_and_cleanup runs the job holding one unit, never raises, cancellation is not a failure, only the FIRST failure is stored and shuts the pool down, the job always deregisters and the last one signals done; _shutdown cancels every unfinished job (loop invariant); call() refuses after shutdown.',
        note=COMMON_NOTE + 'Assumed: asyncio single-threaded switching at awaits, contracts of Semaphore / gather / wait / create_task / shield, caller holds one unit (discharged for bounded_gather only). Call sites of WithoutSemaphore are checked against its contract, the real __aexit__ against the same contract (one known finding, replayed natively). '
        'Two fix: commits (cancel_on_error cleanup, bounded_gather off-by-one). Not decided: termination of the pool exit loop (a job cancelled before its first step makes it wait forever - observation), fairness.',
        technique='function / loop-invariant contracts with a ghost permit counter on the real coroutines (forked outcomes of awaited callees), pyvc -> z3; native asyncio scenarios as replay',
        design_ref='7/C20',
    ),
    'C22': dict(
        text='SourceCopier._copy_file_multi_part_main: a file is copied whole once or in ceil(size/part_size) announced parts, and for EVERY part index i the part starts at i*part_size and ends at min((i+1)*part_size, size), non-empty (tiling of [0,size), nonlinear VCs by z3). '
        '_copy_part (loop invariant): destination part stream created at part_number*part_size, every chunk read at exactly the destination position and written unchanged, exactly this_part_size bytes unless an error is reported; _copy_file (loop invariant): returns only at end of file with every byte written in order. '
        'Local destination: LocalAsyncFS.create truncates, multi_part_create leaves an empty file whatever was there and hands path/part count on, create_part opens without truncating and seeks to start; RouterAsyncFS forwards unchanged; every copy_part_size is a positive constant. '
        'Destination rules and documented errors: Transfer.__init__, Copier._dest_type, SourceCopier._full_dest, copy_as_file, the checks of copy_as_dir and the missing-source rule of copy against the decision table of the property text. '
        'Locations (string contracts): LocalAsyncFS._get_path - a plain path names itself whatever characters it contains, file://[localhost] loses exactly that prefix - and every LocalAsyncFS operation resolves its location through it; url_join / url_basename treat a scheme-less location as a path (genuine defect fixed in /repo 107e6cea0). '
        'Directory copies: listed prefix = source + "/", recursive listing, create_copies (one attempt under retry_transient_errors) walks only a listing nobody started to consume, yields one copy_source thunk per listed entry in order and leaves no started listing behind on any exceptional exit; copy_source copies src+REL to url_join(full_dest, REL) exactly once; the tail runs every thunk. Local file system: file-or-directory and sizes are decided through symbolic links in every non-deleting operation (AST), replayed by native symlink scenarios (linked directory inside a source tree; destination that is a link to a directory).',
        note=COMMON_NOTE + 'Byte contents are abstract: positions, lengths and chunk identity are tracked. Assumed: stream read/write contracts (C23 decides the ranged reads), bounded_gather2 runs every thunk once (C20), builtin open() mode semantics, the barrier rely between the two halves of a source. '
        'Also assumed: urlparse splits a scheme-less url into path + (; ? # rest); a recursive listing hands out every file below src once, named src + relative path; retry_transient_errors re-calls only after a raise (C21). '
        'Not covered: the directory walk itself (async generator over os.scandir), file:// locations containing ; ? # (observation recorded), report aggregation, lists of transfers, cloud multi-part uploads. Thorough tier adds a BOUNDED native cross-check of the real Copier on temporary files (never counted as proved).',
        technique='function and loop-invariant contracts on the real coroutines (with-protocol, forked I/O outcomes, one symbolic part index for the gather, numbered listings with a consumed-set ghost for the retried attempt, z3 sequence terms for paths), pyvc -> z3; native scenarios as witness search',
        design_ref='7/C22',
    ),
    'C26': dict(
        text='TimeLimitedMaxSizeCache.lookup split into atomic segments at its awaits, helpers (_put/_remove/_over_capacity/_evict_oldest) inlined from their real bodies; containers as finite maps with maintained cardinality. '
        'Invariant at every await/exit, all schedules, any number of tasks: the three containers agree on keys and size, size <= num_slots, expiry = store time + lifetime, exactly one load in flight per key in _futures. '
        'Rely/guarantee: a task never touches another task\'s future nor stores a key another task is loading (stability lemmas discharged). '
        'Obligations: hit returned only if expiry > now (age < lifetime); create_task only with no load of that key in flight; _put only of an absent key; a miss returns the loaded value; errors are the load\'s or the lookup\'s own cancellation. '
        'The isolation obligation (cancelling the task that started the load must not cancel the shared load) fails on the unchanged tree: known finding F7, replayed with a two-task history on the real class.',
        note=COMMON_NOTE + 'Assumed: asyncio switches only at await and propagates cancellation into an awaited unshielded future; time.monotonic_ns non-decreasing; prom_async_time passes the awaited outcome through; cardinality counters equal cardinalities (induction over operations). shutdown() is outside the contract.',
        technique='atomic-segment rely/guarantee contracts on the real coroutine (pyvc + segments + inlined helpers) -> z3',
        design_ref='7/C26',
    ),
    'C30': dict(
        text='PR.is_up_to_date: True only with a batch whose recorded target_sha is the branch\'s current sha, never while that sha is unknown. '
        'PR.is_mergeable: True only if approved, at least one reported check and all SUCCESS, up to date, no do-not-merge label; with the representation invariant J (build_state == success => current batch completed successfully) a green own status implies the current batch succeeded. '
        'J maintained: PR._update_batch (loop contract over the batch listing: success only together with the completed successful batch it selects), PR.update_from_gh_json (a new head drops batch, merge sha and build state), PR._start_build resets batch and build state first (statement-order obligation), no other writer of success. '
        'WatchedBranch.try_to_merge: merge requested only for the PR just found mergeable, at most one successful merge per call, afterwards the branch sha is forgotten and a GitHub refresh scheduled (so no PR is up to date until the new head is read and re-tested). PR.merge names source_sha and reports success only if GitHub accepted. '
        'utils.github_status: SUCCESS only for the reported states SUCCESS / NEUTRAL, ValueError exactly for unknown values (None included). PR._update_github (calling it through that contract, exceptional outcome included): all pages fetched with chained cursors, every required check recorded, a check recorded as SUCCESS only if GitHub reported it successful, and every exceptional exit leaves review_state and the recorded statuses exactly as the last complete refresh left them (failed on the tree before fix 49bbf031b; history replayed natively).',
        note=COMMON_NOTE + 'Assumed: GitHub stale-head protection of the merge call; _update serialises updates per branch; test batches of a PR head are created only by _start_build (history precondition of _update_batch); a status rollup lists every context / check-run name once. Not decided: how fresh the last complete refresh is relative to GitHub when a batch callback triggers a merge attempt (polling).',
        technique='contracts on the real methods (finite maps for statuses/labels, loop invariants), pyvc -> z3; closed-world and statement-order obligations by AST',
        design_ref='7/C30',
    ),
    'C11': dict(
        text='PoolScheduler._compute_fair_share verified on its real body for ALL inputs (any number of users, any non-negative running/ready cores, any free-core amount incl. zero and negative): loading loop, water-filling while loop and final loop under inductive invariants (users partitioned into pending / allocating / done; pending users at or above the level with nothing, allocating users span the level, done users have their whole demand below it; budget conservation free + |A|*mark - SUMR + TOTAL == free0 with ghost sums, nonlinear VCs by z3). '
        'Postconditions: 0 <= allocation <= demand for every user; a user left short sits exactly at the common level or is above it with nothing; a user with its whole demand is at or below the level; nothing without free cores; total <= free + |A|/2; when a user is left short total >= free - |A|/2, and total == free exactly when the last level was not rounded. '
        'Surroundings under obligation (wave 4): the embedded query text (vc/sqlparse): reads user_inst_coll_resources with the pool name as its only argument; the row filter is EXACTLY inst_coll = this pool (z3, both directions - every token row of a user enters the sums, no row of another pool); GROUP BY user (one row per user, no LIMIT); every column the code reads is CAST(.. AS SIGNED) of the SUM of the same-named counter; users are filtered on aggregated sums only and a user left out has no ready demand (z3). '
        'The key lambdas of the two SortedSets are read from the real text: the s[0] model orders by the real key, and for all dictionary contents the pending set is ordered by running cores and the allocating set by total cores (z3). Every container the computation writes (item stores, deletions, mutating method calls, also in its local function) hangs off a local bound to a freshly created object, and nothing is stored on self (AST frame obligations).',
        note=COMMON_NOTE + 'Assumed: the database executes the (now checked) query as MySQL does - bare names in HAVING are the select aliases - and per user and pool the summed counters are non-negative with no ready cores without ready jobs (C01/C06); sortedcontainers.SortedSet (s[0] = member with least key under the key function passed; set operations; cardinality kept by the executor); float arithmetic as real arithmetic (int(x + 0.5) on the quotient free/n); ghost sums SUMR / TOTAL mirror the sums they stand for (two stated ghost assumptions, induction over set operations). The order of the returned dict is not covered. '
        'Failing VCs of this contract come back unknown/timeout from z3; violations are then reported with a witness from the native search (real method, real sortedcontainers, exact rational water-filling reference). Thorough tier: 101 220 grid cases as a bounded cross-check. Failed obligations of the surroundings are accompanied by native replays where one exists: the real query text on sqlite over token rows with negative deltas (contracts/native/c11_query_replay.py), two overlapping computations on one scheduler object (c11_overlap_replay.py).',
        technique='inductive loop invariants with ghost sums on the real coroutine (finite sets as maps with cardinality, set iteration as an arbitrary enumeration), pyvc -> z3 (nonlinear integer/real arithmetic); native reference search as witness',
        design_ref='7/C11',
    ),
    'C12': dict(
        text='Modular contracts on the real request path. PoolConfig.convert_requests_to_resources: returns None or (cores, memory, storage_gib) with cores >= requested cores, memory >= requested memory, storage_gib*2^30 >= requested storage, cores <= worker_cores*1000 (fits one worker), cores = 250*2^k and least such, memory exactly the granted cores\' share of the worker type, storage >= 10 GiB or 0 and no more than needed; None only if the storage exceeds the cloud maximum or no packable core count that fits the worker covers the cpu and memory request. '
        'select_pool_from_worker_type / select_cheapest_price_pool (loop invariant: every pool skipped so far mismatched cloud/preemptible/label[/worker type] or could not satisfy; cheapest: the choice so far is such a grant): the selected pool equals the request in cloud, preemptible, label and worker type and its grant covers the request; None only if no matching configured pool can satisfy it. '
        'Job-private path (JobPrivateInstanceManagerConfig.convert_requests_to_resources, select_job_private, machine-type dispatchers): None iff other cloud or storage above the cloud maximum, else the whole machine of the named type and storage >= request. select_inst_coll dispatches on worker_type/machine_type. '
        '_create_jobs resource section: the parsed cpu/memory/storage values and cloud/label/preemptible/worker type are what is passed to select_inst_coll, the job is rejected after selection exactly when it returned None, and accepted jobs carry the selected grant. '
        'Job schema clean-up (the deprecated spelling of the storage request): the pvc_size section of validate.handle_deprecated_job_keys, executed on the real source with the job dict under reference semantics, once per key-presence shape (pvc_size / resources / resources.storage / another resource key; all values symbolic): an accepted pvc_size IS resources.storage afterwards, every other resource request is kept and none invented, the deprecated key is gone, both spellings at once are refused, ValidationError only when the storage schema entry rejects the value; syntactic obligations: the rest of that function and handle_job_backwards_compatibility never touch resources, validate_and_clean_jobs cleans then schema-checks the very dict that stays in the list, validators never write into what they check, every caller of _create_jobs passes the list it validated. '
        'Helpers: is_valid_cores_mcpu (valid iff 250*2^k below 2^61 mcpu; for all ints only valid => positive multiple of 250), round_up_division, gcp/azure requested_to_actual_storage_bytes (None iff above the maximum, >= request, 10 GiB minimum), round_storage_bytes_to_gib, requested_storage_bytes_to_actual_storage_gib, per-cloud adjust_cores_for_memory_request and cores_mcpu_to_memory_bytes under the relative-error float model (memory of the adjusted cores >= request for every core count a worker can hold; cores never decrease), worker_memory_per_core_mib, valid_machine_types, memory_to_worker_type. '
        'BOUNDED, not proved: adjust_cores_for_packability (math.log2 / 2**power: exhaustive over cores_in_mcpu in [1, 512000] on the real function; larger inputs by an assumed monotonicity argument) and exactness of cores_mcpu_to_memory_bytes on packable core counts (complete enumeration, 66 cases); convert_requests_to_resources and everything above it use these two as callee contracts.',
        note=COMMON_NOTE + 'Assumed: pool configuration well-formed (cloud gcp/azure, worker type in the cloud\'s table, 1 <= worker_cores <= 256 - the driver validates against possible_cores_from_worker_type, syntactic obligation); specification data for per-core memory, disk maxima and the 10 GiB minimum (real machine tables checked to agree); IEEE-754 relative-error model without overflow; 64-bit model of the bit trick below 2^61; C25 parser contracts; prices opaque (which satisfying pool is cheapest is not decided); the front end is verified on the resource section of the per-job loop body plus syntactic obligations on the statements around it. Job dicts are tracked as records with a definite key set: the pvc_size section is verified per key-presence shape (10 shapes; `cpu` stands for every other resource key, job_id/process for every other job key; a `resources: null` body is not a shape - it crashes with TypeError before the schema check, a rejection). select_cheapest_price_pool restructured beyond its loop invariants is decided by the native witness search only (pool orders x price orders rising/falling/mixed). In this fork convert_requests_to_resources has no local-ssd/data-disk comparison, so storage only has the per-cloud maximum. machine_type == "" ends in an AssertionError (500), allowed as a rejection.',
        technique='modular contracts on the real functions (pyvc: callee contracts with Optional results, loop invariants over the pool list, relative-error float model) -> z3; AST obligations for the call-site context; exhaustive native enumeration as bounded stand-in for two float helpers; native replay of every contract on the real modules',
        design_ref='7/C12',
    ),
    'C14': dict(
        text='(1) The real wrapper coroutines (gear.auth authenticated_users_only / authenticated_developers_only, front_end authenticated_developers_or_auth_only / billing_project_users_only, web_common security headers) executed symbolically with the handler as an oracle: '
        'the handler is reached only with the userdata the authenticator returned, only for state != inactive, for developers-only only when is_developer is truthy (discharged for the int, bool and null JSON representations, `is`-identity modelled), '
        'for billing_project_users_only only after _user_can_access(app db, int(path batch_id), username) said yes and with that id; every other exit raises 401/redirect (no user), 403 (inactive), 404 (no access) with the handler uncalled; no call outside the modelled ones. '
        '(2) The embedded SQL is parsed and given LEFT/INNER JOIN, ON/WHERE and NULL semantics by sqlvc; z3 decides that _user_can_access is true exactly for a member of the batch\'s billing project, and that the gating query of _create_jobs, _create_job_groups.insert, _create_batch_update.update, commit_update (close_batch: query cannot execute) '
        'implies a row of batches with the request\'s batch id, user = caller and NOT deleted, that 404 is raised without it and that every write statement / writing helper is reached only under it; route handlers pass int(path batch_id) and the authenticated user to the helpers; _create_batch inserts only for the caller into a project they belong to. '
        '(2c) get_billing_projects, get_billing_project and ui_get_billing_limits ask the billing-project listing helper without a user name only for a developer or for the user named exactly auth (`x in \'auth\'` is modelled as the substring test it is), otherwise with the caller\'s own name. '
        '(2d) Reads of batch-scoped handlers: _get_job_record answers only the job (batch_id, job_id) it was asked for; get_job_container_log with the real _get_job_container_log executed in place asks the worker / the log store only for the checked batch, the job of the request and a container job_tasks_from_spec answers (only input / main / output); '
        '_query_batch_jobs_for_billing pins jobs.batch_id to the checked id on every path (real f-string, real condition list), its follow-up statements as well; every caller chain of these helpers starts at the never-rebound batch_id parameter of a batch-scoped route handler. '
        '(3) Every @routes.<verb>(path) handler and every registration in run() is classified by a data-driven policy derived from the property text (exempt / batch-scoped / owner-only / new-batch / billing-administration / other); exactly one class each, protection of the class present with only transparent decorators above it, closed-world checks on the table object, the authenticator and the wrapper composition. get_authenticator: the authenticator that trusts every caller is built only where HAIL_TERRA has a non-empty value (unset or empty: callers are checked against the auth service).',
        note=COMMON_NOTE + 'Assumed: user names are text and never None; the listing helpers of batch/utils.py restrict to `user` exactly when a non-empty name is passed; the log sinks build their URL / path from exactly the ids and container name they are handed; a top-level WHERE conjunct `col = %s` restricts every answered row. Assumed: what _fetch_userdata answers (auth service) is an oracle returning None or a UserData mapping; aiohttp dispatch, functools.wraps and the middlewares are transparent; strings are integer codes compared for equality (collations not modelled); reads of one request see one database state; handler/helper composition is by call name. '
        'Not decided: listing endpoints\' dynamically built queries beyond their scope condition, the remaining queries of batch-scoped handlers (job groups, attempts, resource usage, cancel / delete procedures), the driver\'s routes, TrustedSingleTenantAuthenticator. '
        'One fix: commit (update-token lookup of _create_batch_update had no owner conjunct: a non-owner replaying a token could commit the owner\'s update; replayed on the real handler) and one known finding (GET /metrics is served without authentication, registered outside the route table).',
        technique='contracts on the real wrappers/handlers (pyvc symbolic execution, handler and helpers as oracles with call-site obligations), embedded SQL -> sqlvc predicates decided by z3, exhaustive AST obligations over the route table; native replays with stub requests and sqlite',
        engine='pyvc+sqlvc',
        design_ref='7/C14',
    ),
    'C34': dict(
        text='For ploidy 0, 1, 2 and both phasings, over all alleles in range: the int32 written by the real _tcall._convert_to_encoding (Python ints as 64-bit vectors with no-overflow obligations) is bit-for-bit the Call built by the real Scala Call0/Call1/Call2.apply (parsed and translated by vc/scvc.py, 32-bit JVM semantics), equals the specified packing phased | ploidy<<1 | (k(k+1)/2+j)<<3, neither side raises; '
        '_convert_from_encoding of that int32 rebuilds the same alleles and phasing; the engine reads back ploidy, phasing, representation and allele pair. '
        'Genotype.diploidGtIndex(j,k) = k(k+1)/2+j; index determines the pair (integer lemma); both cached tables hold the pair of every index; Genotype.allelePair dispatches table/closed form on the same index; hl.Call.__init__ orders unphased alleles. '
        'The floating-point closed forms allele_pair_sqrt / allelePairSqrt are a BOUNDED stand-in (real functions evaluated at the first and last index of the rows; all rows in the thorough tier). '
        'Wave 4: the round trip is also stated with the real hl.Call - the decoded call, built by the real Call.__init__ from whatever the decoder passes on each path (with _should_freeze a free Boolean: set elements and dict keys included), EQUALS the packed call under the real Call.__eq__, where a list never equals a tuple; '
        'the codec is a function of the 32 bits alone (AST obligation: the two _tcall methods and every module-level function they reach write nothing that outlives the invocation, carry no memoising decorator or mutable default, and read only module-level values that are bound once and never written); '
        'the staged twin SCanonicalCallValue.forEachAllele / ploidy / isPhased (the decoder the generated code runs) is parsed from the real Scala text and executed by vc/scstaged.py on the engine\'s own Call0/1/2.apply values (BOUNDED: row boundaries, both phasings; no 32-bit operation may wrap), plus the AST obligation that every Int->Double conversion in it applies to the allele representation itself.',
        note=COMMON_NOTE + 'The decoders use the closed forms through their contract (pair of the index), which is only covered by the bounded stand-in plus monotonicity of IEEE-754 operations - not counted as proved. Domain: k(k+1)/2+j < 2^29, k <= 32767 (haploid allele < 2^29); outside it the engine\'s own 32-bit arithmetic wraps. scvc\'s Scala subset semantics and scstaged\'s reading of the asm4s builder calls (memoize / newLocal / assign / if_ / invokeScalaObject / invokeStatic1, no numeric promotion) are part of the trusted base. The packed call is assumed to be built from a list of alleles (the documented parameter type); Call.__hash__ is not under contract (it hashes tuple(alleles), so it cannot tell the kinds apart). lgtToGT / unphase / containsAllele of the staged class are not under contract.',
        technique='symbolic execution of the real Python and the real Scala text into bit-vector terms (pyvc bv mode + scvc), equivalence and round-trip obligations by z3; integer lemma for uniqueness; bounded enumeration for the float closed form',
        design_ref='7/C34',
    ),
    'C33': dict(
        text='Two layers on the real source. Bytes: every ByteWriter.write_X / ByteReader.read_X of hail/utils/byte_reader.py is executed symbolically over a byte list: a write appends exactly calcsize(fmt) bytes (4/8/4/8, 1 for bool/byte), a read placed on that image returns the value and advances by the same width (struct.pack/unpack uninterpreted, inverse only for the SAME format). '
        'Tokens: writer contracts for tarray/tstruct/ttuple (loop invariants over 64-bit vectors: bit t of missing byte k <=> slot 8k+t missing, bits beyond the length 0, exactly ceil(n/8) bytes, after the int32 length and before the data; present slots in order at header+rank(i), each by its own codec, missing slots write nothing), tdict (int32 length + one required key/value struct per item in insertion order, no missing bytes), tstr (int32 = length of the UTF-8 encoding, not of the str), the five fixed-width primitives, tset/tinterval/tlocus (delegation to the array/struct representation), tndarray writer (int64 shape, then the elements in the order of np.nditer(order=F)), HailType._missing/_to_encoding/_from_encoding, lookup_bit; '
        'reader contracts take the identical writer postcondition as precondition and prove: every read meets a token of its kind, the cursor ends at the end of the written data, the decoded value is the original with None for missing slots (round-trip composition lemma per type constructor, for all values and lengths). '
        'A struct value is a mapping whose own item order is arbitrary: the tstruct writer is proved to follow the TYPE\'s field order for every item order of the value. '
        'tcall: the real _tcall._convert_to_encoding writes exactly one int32 with the phase flag in bit 0 and the ploidy in bits 1-2 for every ploidy 0, 1, 2 (allele bits and the sign fold for ploidy 0/1; the rest is C34), the reader takes exactly one int32. '
        'Call sites: Backend.execute hands the engine\'s bytes of ANY length (zero included) whole to ir.typ._from_encoding and returns that value, None without decoding only for void; EncodedLiteral.encoded_value is the base64 text of exactly typ._to_encoding(value); an AST scan shows there is no third place where values cross to the engine. '
        'Engine side: the arms of EType.fromPythonTypeEncoding and the E-type files are compared as text with the layout proved (constructor, required flags, field order, arm order).',
        note=COMMON_NOTE + 'Assumed: struct.pack/unpack inverse for equal formats and in-range values; "=" is native byte order (little-endian host); utf-8 encode/decode inverse, length of the encoding uninterpreted; the element codec is abstracted to one ELEM token (induction hypothesis) and the structural induction over nested types, the token-to-bytes concatenation and the induction behind rank monotonicity are paper steps; equality up to the container class (frozenlist/frozendict/Struct), missing decodes as None; numpy nditer(order="F") is column-major order. '
        'Undecided: tndarray reader and n-d round trip, the dead numeric fast path of tndarray (would write C-ordered arrays row-major if it were live), the Scala decoders themselves (text scan only); for tcall the diploid pair index, the no-overflow side conditions, the agreement with the engine Call and the round trip are C34; the transport around the call sites (payload construction, base64, RPC) is uninterpreted. Failing obligations are reported as violations only with an input replayed on the real classes over the real ByteReader/ByteWriter against a reference encoder written from the property statement.',
        technique='loop-invariant and stream contracts on the real source (pyvc symbolic execution, bit-vector missing bytes, ghost token stream, reader-on-writer-postcondition composition) -> z3; AST/text scans for class representation facts and the Scala E-type table',
        design_ref='7/C33',
    ),
}

NOT_YET = 'not yet brought within the verifier\'s reach in this build (planned in DESIGN.md section 7); no claim is made'

NOT_APPLICABLE = {
    'C18': 'relates generated shell text to what another job reads; no contract language in reach can state it and string solvers leave replace/regex-substitution chains undecided (DESIGN.md section 8)',
    'C29': 'oracle is a browser URL parser vs urllib.parse - neither is repository code; a contract on validate_next_page_url alone would restate the code',
    'C31': 'parsing is a parsimonious PEG grammar (package absent) plus CPython C codecs and a Scala lexer; no front end for those',
    'C32': 'structural induction over dynamic container classes and hail-wide imports that do not load offline',
    'C35': 'quantified over programs; the oracle is Hail IR evaluation semantics in the Scala engine (would be a model, a different family)',
    'C36': 'quantified over programs; the oracle is the Scala type checker of Hail IR',
    'C37': 'Scala floating-point special functions; no Scala toolchain and the family is silent on floating-point accuracy',
    'C39': 'whole-history liveness across concurrent driver loops; contracts on single calls cannot express it (its safety fragments are decided under C04, C07, C10, C41)',
}


def manifest():
    props = [json.loads(l) for l in open(os.path.join(VERIF, 'properties.jsonl'))]
    checks = []
    na = []
    for p in props:
        pid = p['id']
        if pid in CLAIMED:
            c = CLAIMED[pid]
            checks.append(
                {
                    'property_id': pid,
                    'quick_cmd': 'python3-vt -m vc.check %s --tier quick' % pid,
                    'thorough_cmd': 'python3-vt -m vc.check %s --tier thorough' % pid,
                    'evidence_file': 'evidence/%s.json' % pid,
                    'replay_cmd_template': 'cat {path}',
                    'engine': c.get('engine', 'pyvc'),
                    'level_claimed': {'category': c.get('category', 'proof'), 'text': c['text'], 'design_ref': 'DESIGN.md ' + c.get('design_ref', '')},
                    'level_note': c['note'],
                    'technique': c['technique'],
                }
            )
        else:
            na.append({'property_id': pid, 'reason': NOT_APPLICABLE.get(pid, NOT_YET)})
    return {
        'version': 1,
        'setup_cmd': 'python3-vt -m compileall -q vc contracts tools',
        'hooks': {
            'guard': 'POPULATIONGENOMICS_HAIL_VERIF',
            'enable': 'no hooks: contracts are sidecar files under /verif/contracts; /repo is only changed by fix: commits',
            'baseline_off_cmd': 'cd /repo && /venv/bin/python -m pytest -ra -q -p no:cacheprovider --timeout=900 --continue-on-collection-errors',
            'source_commits': [],
            'add_only': True,
        },
        'engines': [
            {'name': 'vcore', 'path': 'vc/core.py', 'serves_properties': sorted(CLAIMED), 'kind_free_text': 'obligation discharge (z3, cvc5 fallback), verdicts, evidence'},
            {'name': 'relang', 'path': 'vc/relang.py', 'serves_properties': [p for p in ('C25', 'C28') if p in CLAIMED], 'kind_free_text': 'string predicates / regex literals -> regular languages'},
            {'name': 'sqlvc', 'path': 'vc/sqlvc.py', 'serves_properties': [p for p in ('C01','C02','C03','C04','C05','C06','C07','C09','C10','C14','C41') if p in CLAIMED], 'kind_free_text': 'MySQL stored programs (migrations replayed) -> symbolic execution over an abstract database'},
            {'name': 'segments', 'path': 'vc/segments.py', 'serves_properties': [p for p in ('C16', 'C24', 'C26', 'C40') if p in CLAIMED], 'kind_free_text': 'atomic segments / rely-guarantee for asyncio monitors'},
            {'name': 'pyvc', 'path': 'vc/pyvc.py', 'serves_properties': [p for p in sorted(CLAIMED) if p not in ('C28',)], 'kind_free_text': 'Python AST -> verification conditions (symbolic execution with contracts and loop invariants)'},
        ],
        'checks': checks,
        'not_applicable': na,
        'notes': 'Contract-based deductive verification of the real source; see DESIGN.md. Exit codes: 0 held, 1 violation, 2 undecided, 3 checker inconsistent.',
    }


if __name__ == '__main__':
    m = manifest()
    json.dump(m, open(os.path.join(VERIF, 'MANIFEST.json'), 'w'), indent=1)
    print('checks:', [c['property_id'] for c in m['checks']])
    try:
        import jsonschema

        jsonschema.validate(m, json.load(open('/root/.vp/MANIFEST.schema.json')))
        print('manifest valid')
    except ImportError:
        pass
