"""sqlvc: symbolic execution of the MySQL stored programs of the batch service (real text, re-read on every run).

The effective routine text comes from vc.sqlparse (migrations replayed in build.yaml order).  A routine is executed path by
path over an abstract database:
  * every nullable scalar is a pair (isnull, value); comparisons and AND/OR/NOT are three-valued; IF/WHERE/ON treat NULL as
    false; arithmetic with NULL is NULL; TRUE/FALSE are 1/0 (MySQL), so `-1 * was_ready * was_cancellable` is modelled literally;
  * strings are interned to integers (only equality is used); integers are mathematical (column widths assumed sufficient);
  * a table is one `exists` array plus (isnull, value) arrays per column, indexed by the primary key;
  * a statement whose WHERE/ON conjuncts pin the whole primary key is a point read/write (Select/Store); any other UPDATE /
    DELETE / INSERT..SELECT is a pointwise transformer  T'[k] = If(affected(k), new(k), T[k])  built as a z3 lambda, where
    affected(k) is read off the WHERE / JOIN..ON predicates (joined tables whose key is pinned become look-ups);
  * row triggers are run inline for point writes; for set-oriented writes on a table that has a trigger the statement is
    recorded as `deferred-trigger` and must be handled through the trigger's contract by the property module;
  * `SELECT .. INTO` with no matching row leaves the variables unchanged; aggregates are fresh values recorded in `aggregates`.
What extraction drops: locking clauses, index hints, ORDER BY without LIMIT, DELIMITER, comments (counted by sqlparse).
An inner-joined derived table `(SELECT .. [ORDER BY ..] LIMIT n)` (literal n <= 4) is an arbitrary n-subset of the plain
SELECT's rows (Exec.limit_subset): the ORDER BY is over-approximated away.  Every other LIMIT raises Undecided.
Transaction isolation: each procedure call is atomic (serialisable) - an assumption listed by every SQL property.
Anything outside the subset raises core.Undecided (never skipped silently).
"""
from __future__ import annotations

import copy
import itertools
from dataclasses import dataclass, field
from typing import Any, Dict, List, Optional, Tuple

import z3

from . import core, sqlast as A, sqlparse
from .core import Undecided

_cnt = itertools.count()


def fresh(base):
    return '%s!%d' % (base, next(_cnt))


# ---------------------------------------------------------------------------------------------
# scalars

_INTERN: Dict[str, int] = {}


def intern(s: str) -> int:
    if s not in _INTERN:
        _INTERN[s] = 7000 + len(_INTERN)
    return _INTERN[s]


def interned_name(i: int) -> Optional[str]:
    for k, v in _INTERN.items():
        if v == i:
            return k
    return None


class SV:
    """nullable SQL scalar"""

    __slots__ = ('n', 'v')

    def __init__(self, n, v):
        self.n = n if not isinstance(n, bool) else z3.BoolVal(n)
        self.v = v

    def __repr__(self):
        return 'SV(null=%s, %s)' % (self.n, self.v)


def lit(v) -> SV:
    if v is None:
        return SV(True, z3.IntVal(0))
    if isinstance(v, bool):
        return SV(False, z3.IntVal(int(v)))
    if isinstance(v, int):
        return SV(False, z3.IntVal(v))
    if isinstance(v, float):
        return SV(False, z3.RealVal(repr(v)))
    if isinstance(v, str):
        return SV(False, z3.IntVal(intern(v)))
    raise Undecided('literal %r' % (v,))


def fresh_sv(base, real=False, nullable=True) -> SV:
    v = z3.Real(fresh(base)) if real else z3.Int(fresh(base))
    n = z3.Bool(fresh(base + '.null')) if nullable else z3.BoolVal(False)
    return SV(n, v)


def truthy(x: SV):
    """SQL condition: true iff not NULL and non-zero"""
    return z3.And(z3.Not(x.n), x.v != 0)


def falsy(x: SV):
    return z3.And(z3.Not(x.n), x.v == 0)


def b2sv(is_true, is_null=None) -> SV:
    return SV(is_null if is_null is not None else z3.BoolVal(False), z3.If(is_true, z3.IntVal(1), z3.IntVal(0)))


def _num2(a, b):
    if z3.is_real(a) and z3.is_int(b):
        b = z3.ToReal(b)
    if z3.is_real(b) and z3.is_int(a):
        a = z3.ToReal(a)
    return a, b


def sv_ite(c, a: SV, b: SV) -> SV:
    av, bv = _num2(a.v, b.v)
    return SV(z3.If(c, a.n, b.n), z3.If(c, av, bv))


def sv_eq_values(a: SV, b: SV):
    """structural equality incl. NULL-ness (for frames / row comparison), not SQL `=`"""
    av, bv = _num2(a.v, b.v)
    return z3.And(a.n == b.n, z3.Or(a.n, av == bv))


# ---------------------------------------------------------------------------------------------
# database


class Tab:
    def __init__(self, meta: A.Table):
        self.meta = meta
        self.name = meta.name
        self.pk = list(meta.primary_key)
        self.cols = list(meta.columns.keys())
        self.real = {c: (meta.columns[c].type or '').upper() in ('DOUBLE', 'FLOAT', 'DECIMAL', 'REAL') for c in self.cols}
        ks = [z3.RealSort() if self.real[c] else z3.IntSort() for c in self.pk]
        self.ksorts = ks
        if ks:
            self.exists = z3.Array('%s#exists' % self.name, *ks, z3.BoolSort())
            self.null = {c: z3.Array('%s.%s#null' % (self.name, c), *ks, z3.BoolSort()) for c in self.cols if c not in self.pk}
            self.val = {c: z3.Array('%s.%s' % (self.name, c), *ks, z3.RealSort() if self.real[c] else z3.IntSort()) for c in self.cols if c not in self.pk}
        else:  # key-less single-row table (globals)
            self.exists = z3.BoolVal(True)
            self.null = {c: z3.Bool('%s.%s#null' % (self.name, c)) for c in self.cols}
            self.val = {c: (z3.Real if self.real[c] else z3.Int)('%s.%s' % (self.name, c)) for c in self.cols}

    def clone(self):
        t = copy.copy(self)
        t.null = dict(self.null)
        t.val = dict(self.val)
        return t

    def nullable(self, c):
        return self.meta.columns[c].nullable

    def get(self, key: List[Any], c: str) -> SV:
        if c in self.pk:
            return SV(False, key[self.pk.index(c)])
        if not self.pk:
            return SV(self.null[c] if self.nullable(c) else z3.BoolVal(False), self.val[c])
        n = z3.Select(self.null[c], *key) if self.nullable(c) else z3.BoolVal(False)
        return SV(n, z3.Select(self.val[c], *key))

    def has(self, key):
        return z3.Select(self.exists, *key) if self.pk else z3.BoolVal(True)


class Db:
    def __init__(self, tables: Dict[str, A.Table]):
        self.meta = tables
        self.t: Dict[str, Tab] = {}

    def tab(self, name) -> Tab:
        if name not in self.t:
            if name not in self.meta:
                raise Undecided('unknown table %s' % name)
            self.t[name] = Tab(self.meta[name])
        return self.t[name]

    def fork(self):
        d = Db(self.meta)
        d.t = {k: v.clone() for k, v in self.t.items()}
        return d


# ---------------------------------------------------------------------------------------------
# execution state


@dataclass
class Effect:
    kind: str  # update | update-set | insert | upsert | insert-select | delete | delete-set | result | signal | tx | call-stub | deferred-trigger
    table: Optional[str] = None
    data: Dict[str, Any] = field(default_factory=dict)
    line: int = 0
    depth: int = 0


class St:
    def __init__(self, db: Db):
        self.db = db
        self.vars: Dict[str, SV] = {}
        self.rows: Dict[str, Dict[str, SV]] = {}  # NEW / OLD
        self.pc: List[Any] = []
        self.effects: List[Effect] = []
        self.results: List[List[Tuple[str, SV]]] = []
        self.outcome: Any = None  # None | ('signal', sqlstate, message) | ('return', SV) | ('leave', label)
        self.trace: List[str] = []
        self.uservars: Dict[str, SV] = {}
        self.row_count: Any = z3.IntVal(0)
        self.aggregates: List[Dict[str, Any]] = []
        self.depth = 0

    def emit(self, e: Effect):
        e.data['pc_len'] = len(self.pc)
        e.data['trace'] = tuple(self.trace)
        self.effects.append(e)

    def fork(self):
        s = St(self.db.fork())
        s.vars = dict(self.vars)
        s.rows = {k: dict(v) for k, v in self.rows.items()}
        s.pc = list(self.pc)
        s.effects = list(self.effects)
        s.results = list(self.results)
        s.outcome = self.outcome
        s.trace = list(self.trace)
        s.uservars = dict(self.uservars)
        s.row_count = self.row_count
        s.aggregates = list(self.aggregates)
        s.depth = self.depth
        snap = getattr(self, 'tx_snapshot', None)
        if snap is not None:
            s.tx_snapshot = (snap[0], snap[1])
        return s


def feasible(pc, ms=1500):
    s = z3.Solver()
    s.set('timeout', ms)
    s.add(*pc)
    return s.check() != z3.unsat


class RowRef:
    """a table alias bound to a row: key terms, presence condition (False for an unmatched LEFT JOIN row)"""

    def __init__(self, tab: Tab, key: List[Any], present=None, colmap: Dict[str, str] = None, computed: Dict[str, SV] = None):
        self.tab = tab
        self.key = key
        self.present = present if present is not None else z3.BoolVal(True)
        self.colmap = colmap  # for flattened sub-selects: visible name -> underlying column
        self.computed = computed or {}

    def col(self, c) -> Optional[SV]:
        lc = c
        if lc in self.computed:
            return self.computed[lc]
        if self.colmap is not None:
            if lc not in self.colmap:
                return None
            lc = self.colmap[lc]
        if lc not in self.tab.meta.columns:
            return None
        v = self.tab.get(self.key, lc)
        if z3.is_true(self.present):
            return v
        return SV(z3.Or(z3.Not(self.present), v.n), v.v)


class DerivedRef:
    """a derived table (sub-select in FROM) bound to a row: computed columns, presence condition"""

    def __init__(self, computed: Dict[str, SV], present):
        self.computed = computed
        self.present = present

    def col(self, c) -> Optional[SV]:
        for k, v in self.computed.items():
            if k.lower() == c.lower():
                if z3.is_true(self.present):
                    return v
                return SV(z3.Or(z3.Not(self.present), v.n), v.v)
        return None


class Scope:
    def __init__(self, st: St, aliases: Dict[str, RowRef] = None, parent: 'Scope' = None):
        self.st = st
        self.aliases: Dict[str, RowRef] = aliases or {}
        self.parent = parent

    def child(self, aliases):
        return Scope(self.st, aliases, self)

    def lookup(self, parts: Tuple[str, ...]) -> SV:
        st = self.st
        if len(parts) == 2:
            q, c = parts
            ql = q.lower()
            for sc in self._chain():
                for a, r in sc.aliases.items():
                    if a.lower() == ql:
                        v = r.col(c)
                        if v is None:
                            raise Undecided('column %s.%s not found' % (q, c))
                        return v
            if q.upper() in ('NEW', 'OLD') and q.upper() in st.rows:
                row = st.rows[q.upper()]
                if c in row:
                    return row[c]
                raise Undecided('%s.%s not a column' % (q, c))
            raise Undecided('unknown qualifier %s' % q)
        if len(parts) == 1:
            (c,) = parts
            # routine variables and parameters take precedence over columns (MySQL)
            for k in st.vars:
                if k.lower() == c.lower():
                    return st.vars[k]
            for sc in self._chain():
                hits = []
                for a, r in sc.aliases.items():
                    v = r.col(c)
                    if v is not None:
                        hits.append(v)
                if len(hits) == 1:
                    return hits[0]
                if len(hits) > 1:
                    raise Undecided('ambiguous column %s' % c)
            raise Undecided('unknown name %s' % c)
        raise Undecided('name %r' % (parts,))

    def _chain(self):
        sc = self
        while sc is not None:
            yield sc
            sc = sc.parent


# ---------------------------------------------------------------------------------------------
# the executor


class Exec:
    def __init__(self, repo=None, routines=None, tables=None, stubs=None, inline_triggers=True, inline_after=True):
        repo = repo or core.REPO
        self.routines = routines if routines is not None else sqlparse.effective_routines(repo)
        self.tables = tables if tables is not None else sqlparse.effective_tables(repo)
        self.stubs = stubs or {}
        self.inline_triggers = inline_triggers
        self.inline_after = inline_after
        self.triggers: Dict[Tuple[str, str, str], A.Routine] = {}
        for r in self.routines.values():
            if r.kind == 'trigger':
                self.triggers[(r.table.lower(), r.trigger_time.upper(), r.trigger_event.upper())] = r
        self.ufs: Dict[str, Any] = {}
        self.notes: List[str] = []
        self.determinism_issues: List[Dict[str, Any]] = []
        # (additive) where row MULTIPLICITY is abstracted away: LEFT-joined derived tables (kept as "some row matches") and the
        # rows of scalar subqueries (kept as "some row").  MySQL raises error 1242 when a scalar subquery yields more than one
        # row; property modules turn `scalar_subquery_rows` into at-most-one-row obligations (see contracts/C07.py).
        self.multi_row_joins: List[Dict[str, Any]] = []
        self.scalar_subquery_rows: List[Dict[str, Any]] = []
        self.limit_subsets: List[Dict[str, Any]] = []  # derived tables with LIMIT modelled as an arbitrary n-subset

    # ---- entry points
    def new_state(self) -> St:
        return St(Db(self.tables))

    def param_sv(self, p: A.RoutineParam) -> SV:
        real = (p.type.base or '').upper() in ('DOUBLE', 'FLOAT', 'DECIMAL') if p.type is not None else False
        return fresh_sv('p_' + p.name, real)

    def run_procedure(self, name: str, st: St = None, args: Dict[str, SV] = None) -> List[St]:
        r = self.routines[name]
        st = st or self.new_state()
        for p in r.params:
            if args and p.name in args:
                st.vars[p.name] = args[p.name]
            elif p.mode == 'OUT':
                st.vars[p.name] = SV(True, z3.IntVal(0))
            else:
                st.vars[p.name] = self.param_sv(p)
        outs = self.exec_stmt(r.body, st)
        return outs

    def run_trigger(self, name: str, st: St, old: Dict[str, SV], new: Dict[str, SV]) -> List[St]:
        r = self.routines[name]
        st.rows = {'OLD': dict(old) if old is not None else {}, 'NEW': dict(new) if new is not None else {}}
        if old is None:
            st.rows.pop('OLD')
        if new is None:
            st.rows.pop('NEW')
        return self.exec_stmt(r.body, st)

    def symbolic_row(self, table: str, base: str) -> Dict[str, SV]:
        t = self.tables[table]
        row = {}
        for c, col in t.columns.items():
            real = (col.type or '').upper() in ('DOUBLE', 'FLOAT', 'DECIMAL', 'REAL')
            row[c] = fresh_sv('%s.%s' % (base, c), real, nullable=col.nullable)
        return row

    # ---- statements
    def exec_block(self, stmts, st: St) -> List[St]:
        states = [st]
        for s in stmts:
            nxt = []
            for s1 in states:
                if s1.outcome is not None:
                    nxt.append(s1)
                else:
                    nxt.extend(self.exec_stmt(s, s1))
            states = nxt
        return states

    def exec_stmt(self, node, st: St) -> List[St]:
        m = getattr(self, 'x_' + type(node).__name__, None)
        if m is None:
            raise Undecided('SQL statement %s not in the sqlvc subset (line %s)' % (type(node).__name__, getattr(node, 'line', '?')))
        return m(node, st)

    def x_Block(self, node, st):
        outs = self.exec_block(node.stmts, st)
        for s in outs:
            if s.outcome and s.outcome[0] == 'leave' and node.label and s.outcome[1].lower() == node.label.lower():
                s.outcome = None
        return outs

    def x_Declare(self, node, st):
        v = self.ev(node.default, Scope(st)) if node.default is not None else SV(True, z3.IntVal(0))
        for n in node.names:
            st.vars[n] = v
        return [st]

    def x_DeclareHandler(self, node, st):
        conds = [str(c).upper() for c in (node.conditions or [])]
        if node.kind.upper() != 'CONTINUE' or not any('NOT FOUND' in c for c in conds) or not isinstance(node.stmt, A.Set):
            raise Undecided('handler other than CONTINUE HANDLER FOR NOT FOUND SET <flag>')
        if not hasattr(st, 'handlers'):
            st.handlers = {}
        st.handlers['NOT FOUND'] = node.stmt
        return [st]

    def x_DeclareCursor(self, node, st):
        if not hasattr(st, 'cursors'):
            st.cursors = {}
        st.cursors[node.name.lower()] = node.select
        return [st]

    def x_Open(self, node, st):
        return [st]

    def x_Close(self, node, st):
        return [st]

    def x_Loop(self, node, st):
        """cursor loop  `L: LOOP FETCH c INTO v..; IF done THEN LEAVE L; END IF; <body> END LOOP`  whose iterations are independent
        (each writes only rows keyed by its own cursor row, and does not read the columns it writes): executed once for an
        arbitrary cursor row and applied as a pointwise transformer over all cursor rows."""
        body = node.body.stmts if isinstance(node.body, A.Block) else [node.body]
        if len(body) < 2 or not isinstance(body[0], A.Fetch) or not isinstance(body[1], A.If):
            raise Undecided('LOOP that is not a cursor loop')
        fetch, leave_if = body[0], body[1]
        leave_ok = len(leave_if.branches) == 1 and leave_if.orelse is None and any(isinstance(x, A.Leave) for x in leave_if.branches[0][1].walk())
        cursors = getattr(st, 'cursors', {})
        handler = getattr(st, 'handlers', {}).get('NOT FOUND')
        if not leave_ok or fetch.cursor.lower() not in cursors or handler is None:
            raise Undecided('cursor loop shape')
        sel = cursors[fetch.cursor.lower()]
        rest = body[2:]
        written_cols = set()
        for stn in rest:
            for n in stn.walk():
                if isinstance(n, A.Update):
                    written_cols |= {t.parts[-1] for t, _ in n.assignments}
                elif isinstance(n, (A.Insert, A.Delete, A.Call, A.Loop)):
                    raise Undecided('cursor loop body with INSERT/DELETE/CALL/LOOP')
        for stn in rest:
            for n in stn.walk():
                if isinstance(n, A.SelectStmt):
                    names = {x.parts[-1] for x in n.select.walk() if isinstance(x, A.Name)}
                    if names & written_cols:
                        raise Undecided('cursor loop iterations are not independent (body reads a column it writes: %s)' % sorted(names & written_cols))
        it = st.fork()
        aliases, cond, kv = self.bind_from(sel.from_, sel.where, Scope(it), it)
        vals = [self.ev(c.expr, Scope(it, aliases)) for c in sel.columns]
        if len(kv) != 1 or not z3.is_int(kv[0]):
            raise Undecided('cursor whose rows are not identified by one free key column')
        cur = kv[0]
        it.pc.append(cond)
        self.assign_into(fetch.into, vals, it)
        base_pc = len(it.pc)
        base_eff = len(it.effects)
        outs = self.exec_block(rest, it)
        per_table = {}
        for s2 in outs:
            if s2.outcome is not None:
                raise Undecided('cursor loop body leaves/signals')
            pcond = z3.And(*s2.pc[base_pc:]) if len(s2.pc) > base_pc else z3.BoolVal(True)
            for e in s2.effects[base_eff:]:
                if e.kind in ('result', 'tx'):
                    continue
                if e.kind != 'update':
                    raise Undecided('cursor loop body effect %s' % e.kind)
                per_table.setdefault(e.table, []).append((pcond, e))
        # after the loop the handler has fired
        for s_h in self.exec_stmt(handler, st):
            st = s_h
        for tname, items in per_table.items():
            t2 = st.db.tab(tname)
            kvars = [z3.Const(fresh('lp_%s_%s' % (tname, c)), t2.ksorts[i]) for i, c in enumerate(t2.pk)]
            for pcond, e in items:
                key = e.data['key']
                pos = [i for i, k in enumerate(key) if k.eq(cur)]
                if len(pos) != 1 or any(_mentions(k, [cur]) for i, k in enumerate(key) if i != pos[0]):
                    raise Undecided('cursor loop writes a row not keyed by the cursor row')
                sub = [(cur, kvars[pos[0]])]
                affected = z3.And(z3.substitute(z3.And(cond, pcond), *sub), *[kvars[i] == key[i] for i in range(len(key)) if i != pos[0]], t2.has(kvars))
                new_vals = {}
                for c in e.data['assigned']:
                    v = e.data['new'][c]
                    nv = SV(z3.substitute(v.n, *sub), z3.substitute(v.v, *sub))
                    new_vals[c] = nv
                    vv = z3.ToReal(nv.v) if t2.real[c] and z3.is_int(nv.v) else nv.v
                    t2.val[c] = z3.Lambda(kvars, z3.If(affected, vv, z3.Select(t2.val[c], *kvars)))
                    if t2.nullable(c):
                        t2.null[c] = z3.Lambda(kvars, z3.If(affected, nv.n, z3.Select(t2.null[c], *kvars)))
                old_row_k = {c: self.tables_row(st, tname, kvars, c) for c in t2.cols}
                st.emit(Effect('loop-set', tname, {'kvars': kvars, 'affected': affected, 'new': new_vals, 'assigned': list(e.data['assigned']), 'cursor_var': kvars[pos[0]], 'line': e.line}, node.line if hasattr(node, 'line') else 0, st.depth))
        return [st]

    def tables_row(self, st, tname, key, c):
        return st.db.tab(tname).get(key, c)

    def x_Set(self, node, st):
        for target, e in node.assignments:
            v = self.ev(e, Scope(st))
            if isinstance(target, A.UserVar):
                st.uservars[target.name] = v
            elif isinstance(target, A.Name):
                parts = target.parts
                if len(parts) == 2 and parts[0].upper() in ('NEW', 'OLD'):
                    st.rows[parts[0].upper()][parts[1]] = v
                else:
                    key = [k for k in st.vars if k.lower() == parts[-1].lower()]
                    if not key:
                        raise Undecided('SET of undeclared variable %s' % parts[-1])
                    st.vars[key[0]] = v
            else:
                raise Undecided('SET target')
        return [st]

    def x_If(self, node, st):
        outs = []
        cur = st
        for cond, body in node.branches:
            c = truthy(self.ev(cond, Scope(cur)))
            s1 = cur.fork()
            s1.pc.append(c)
            if feasible(s1.pc):
                s1.trace.append('L%d:T' % getattr(cond, 'line', 0))
                outs.extend(self.exec_stmt(body, s1))
            cur = cur.fork()
            cur.pc.append(z3.Not(c))
            if not feasible(cur.pc):
                return outs
            cur.trace.append('L%d:F' % getattr(cond, 'line', 0))
        if node.orelse is not None:
            outs.extend(self.exec_stmt(node.orelse, cur))
        else:
            outs.append(cur)
        return outs

    def x_StartTransaction(self, node, st):
        st.emit(Effect('tx', data={'op': 'start'}, line=node.line, depth=st.depth))
        st.tx_snapshot = (st.db.fork(), len(st.effects))
        return [st]

    def x_Commit(self, node, st):
        st.emit(Effect('tx', data={'op': 'commit'}, line=node.line, depth=st.depth))
        return [st]

    def x_Rollback(self, node, st):
        snap = getattr(st, 'tx_snapshot', None)
        if snap is None:
            raise Undecided('ROLLBACK without START TRANSACTION in the same routine')
        st.db = snap[0].fork()
        for e in st.effects[snap[1]:]:
            e = e
        st.effects = st.effects[: snap[1]] + [Effect(e.kind, e.table, dict(e.data, rolled_back=True), e.line, e.depth) for e in st.effects[snap[1]:]]
        st.emit(Effect('tx', data={'op': 'rollback'}, line=node.line, depth=st.depth))
        return [st]

    def x_Signal(self, node, st):
        msg = None
        for k, v in node.items or []:
            if str(k).upper() == 'MESSAGE_TEXT' and isinstance(v, A.Lit):
                msg = v.value
        st.outcome = ('signal', node.sqlstate, msg)
        st.emit(Effect('signal', data={'sqlstate': node.sqlstate, 'message': msg}, line=node.line, depth=st.depth))
        return [st]

    def x_Return(self, node, st):
        st.outcome = ('return', self.ev(node.expr, Scope(st)))
        return [st]

    def x_Leave(self, node, st):
        st.outcome = ('leave', node.label)
        return [st]

    def x_Call(self, node, st):
        name = node.name if isinstance(node.name, str) else node.name.parts[-1]
        if name in self.stubs:
            args = [a for a in node.args]
            return self.stubs[name](self, st, node)
        if name not in self.routines:
            raise Undecided('CALL of unknown procedure %s' % name)
        r = self.routines[name]
        sub = st.fork()
        saved = sub.vars
        sub.vars = {}
        out_targets = {}
        for p, a in zip(r.params, node.args):
            if p.mode in ('OUT', 'INOUT'):
                if not isinstance(a, A.Name):
                    raise Undecided('OUT argument must be a variable')
                tgt = [k for k in saved if k.lower() == a.parts[-1].lower()]
                if not tgt:
                    raise Undecided('OUT argument %s undeclared' % a.parts[-1])
                out_targets[p.name] = tgt[0]
                # MySQL: an OUT parameter starts as NULL inside the callee; INOUT starts with the caller's value
                sub.vars[p.name] = saved[tgt[0]] if p.mode == 'INOUT' else SV(True, z3.IntVal(0))
            else:
                sub.vars[p.name] = self.ev(a, Scope(_with_vars(sub, saved)))
        sub.depth += 1
        outs = self.exec_stmt(r.body, sub)
        res = []
        for s in outs:
            callee_vars = s.vars
            s.vars = dict(saved)
            for pn, tgt in out_targets.items():
                s.vars[tgt] = callee_vars[pn]
            s.depth -= 1
            if s.outcome and s.outcome[0] in ('leave', 'return'):
                s.outcome = None
            res.append(s)
        return res

    # ---- SELECT
    def x_SelectStmt(self, node, st):
        sel = node.select
        if isinstance(sel, A.Select) and sel.into:
            return self.select_into(sel, st)
        if isinstance(sel, A.Select):
            return self.select_result(sel, st)
        raise Undecided('UNION / WITH statement in a routine')

    def select_result(self, sel, st):
        if sel.from_ is not None:
            raise Undecided('result-set SELECT with FROM in a routine (line %s)' % sel.line)
        sc = Scope(st)
        row = []
        for i, c in enumerate(sel.columns):
            v = self.ev(c.expr, sc)
            nm = c.alias or (c.expr.parts[-1] if isinstance(c.expr, A.Name) else 'col%d' % i)
            row.append((nm, v))
        st.results.append(row)
        st.emit(Effect('result', data={'row': row}, line=sel.line, depth=st.depth))
        return [st]

    def has_aggregate(self, sel) -> bool:
        for c in sel.columns:
            for n in c.expr.walk():
                if isinstance(n, A.Func) and n.name in ('SUM', 'COUNT', 'MAX', 'MIN', 'AVG'):
                    return True
        return bool(sel.group_by)

    def aggregate_select(self, sel, outer: 'Scope', st):
        """SELECT <group cols / aggregates> FROM ... WHERE ... [GROUP BY ...]  ->  (computed columns, group variables,
        presence condition).  Every SUM/COUNT becomes a fresh integer symbol recorded in st.aggregates together with the
        predicate (kvars, cond) selecting the summed rows and the summand; obligations about sums are then discharged
        pointwise on those predicates (meta-lemma L2)."""
        if sel.having is not None or sel.limit is not None:
            raise Undecided('HAVING / LIMIT in an aggregate')
        aliases, cond, kv = self.bind_from(sel.from_, sel.where, outer, st)
        sc_in = Scope(st, aliases, outer)
        gterms = [self.ev(g, sc_in) for g in (sel.group_by or [])]
        gvars = [z3.Const(fresh('grp'), g.v.sort()) for g in gterms]
        gcond = z3.And(cond, *[z3.And(z3.Not(g.n), g.v == gv) for g, gv in zip(gterms, gvars)]) if gterms else cond
        prev = getattr(self, '_agg_ctx', None)
        self._agg_ctx = {'scope': sc_in, 'kvars': kv, 'cond': gcond, 'records': [], 'grouped': bool(gterms), 'gvars': gvars}
        computed = {}
        order = []
        try:
            for i, c in enumerate(sel.columns):
                nm = c.alias or (c.expr.parts[-1] if isinstance(c.expr, A.Name) else 'col%d' % i)
                v = self.ev(c.expr, sc_in)
                # a selected group column is constant on the group: express it through the group variable
                for g, gv in zip(gterms, gvars):
                    if v.v.eq(g.v):
                        v = SV(False, gv)
                if (_mentions(v.v, kv) or _mentions(v.n, kv)) and kv:
                    raise Undecided('selected column %s is neither a group column nor an aggregate' % nm)
                computed[nm] = v
                order.append(nm)
            records = self._agg_ctx['records']
        finally:
            self._agg_ctx = prev
        present = (z3.Exists(kv, gcond) if kv else gcond) if gterms else z3.BoolVal(True)
        return computed, order, gvars, present, records

    def select_into(self, sel, st):
        if sel.from_ is None:
            sc = Scope(st)
            vals = [self.ev(c.expr, sc) for c in sel.columns]
            self.assign_into(sel.into, vals, st)
            return [st]
        if self.has_aggregate(sel):
            if sel.group_by:
                raise Undecided('SELECT ... GROUP BY ... INTO')
            computed, order, gvars, present, recs = self.aggregate_select(sel, Scope(st), st)
            self.assign_into(sel.into, [computed[n] for n in order], st)
            return [st]
        aliases, cond, keyvars = self.bind_from(sel.from_, sel.where, Scope(st), st)
        sc = Scope(st, aliases)
        vals = [self.ev(c.expr, sc) for c in sel.columns]
        found = cond
        # found: the variables take the row's values; not found: they keep their old values (MySQL warning 1329)
        s_found = st.fork()
        s_found.pc.append(found)
        outs = []
        if feasible(s_found.pc):
            s_found.trace.append('L%d:row' % sel.line)
            self.assign_into(sel.into, vals, s_found)
            outs.append(s_found)
        s_none = st.fork()
        if keyvars:
            s_none.pc.append(z3.ForAll(keyvars, z3.Not(found)))
        else:
            s_none.pc.append(z3.Not(found))
        if feasible(s_none.pc):
            s_none.trace.append('L%d:norow' % sel.line)
            outs.append(s_none)
        return outs

    def assign_into(self, into, vals, st):
        if len(into) != len(vals):
            raise Undecided('SELECT INTO arity')
        for t, v in zip(into, vals):
            if isinstance(t, A.UserVar):
                st.uservars[t.name] = v
            else:
                key = [k for k in st.vars if k.lower() == t.parts[-1].lower()]
                if not key:
                    raise Undecided('INTO undeclared variable %s' % t.parts[-1])
                st.vars[key[0]] = v

    # ---- FROM binding
    def flatten_from(self, f) -> List[Tuple[str, Any, Any, Any]]:
        """-> list of (join kind, item, on, lateral) in order; kind of the first is 'FROM'"""
        if isinstance(f, A.Join):
            left = self.flatten_from(f.left)
            if f.using:
                raise Undecided('JOIN USING')
            right = self.flatten_from(f.right)
            if len(right) != 1:
                raise Undecided('nested join on the right side')
            k = f.kind.upper()
            if k in ('INNER', 'CROSS', 'STRAIGHT'):
                k = 'INNER'
            elif k != 'LEFT':
                raise Undecided('%s JOIN' % f.kind)
            return left + [(k, right[0][1], f.on, None)]
        return [('FROM', f, None, None)]

    def conjuncts(self, e) -> List[Any]:
        if e is None:
            return []
        if isinstance(e, A.BinOp) and e.op == 'AND':
            return self.conjuncts(e.left) + self.conjuncts(e.right)
        return [e]

    def bind_from(self, from_, where, outer: Scope, st: St, fixed: Dict[str, RowRef] = None):
        """Bind every table of the FROM clause to a row.  Returns (aliases, condition, free key variables): the condition
        says that the bound rows exist and that ON/WHERE hold (LEFT-joined rows are optional)."""
        items = self.flatten_from(from_)
        aliases: Dict[str, RowRef] = dict(fixed or {})
        conds = []
        keyvars = []
        where_conj = self.conjuncts(where)
        deferred_on = []
        for kind, item, on, _ in items:
            on_conj = self.conjuncts(on)
            if isinstance(item, A.TableRef):
                alias = item.alias or item.name
                if alias in aliases:
                    deferred_on.extend(on_conj)  # the row is fixed by the caller: its ON conjuncts still constrain the others
                    continue
                tab = st.db.tab(item.name)
                key, fresh_k = self.pin_key(tab, alias, on_conj + (where_conj if kind != 'LEFT' else []), Scope(st, aliases, outer), None, None)
                keyvars.extend(fresh_k)
                ref = RowRef(tab, key)
                if kind == 'LEFT':
                    sc_on = Scope(st, dict(aliases, **{alias: ref}), outer)
                    match = z3.And(tab.has(key), *[truthy(self.ev(c, sc_on)) for c in on_conj])
                    if fresh_k:
                        # one result row per matching right row, or a single NULL-extended row when nothing matches
                        p = z3.Bool(fresh('lj_present_%s' % alias))
                        alt = [z3.Const(fresh('lj_%s' % k), k.sort()) for k in fresh_k]
                        none = z3.ForAll(alt, z3.Not(z3.substitute(match, *zip(fresh_k, alt))))
                        conds.append(z3.Or(z3.And(p, match), z3.And(z3.Not(p), none)))
                        keyvars.append(p)
                        aliases[alias] = RowRef(tab, key, present=p)
                    else:
                        aliases[alias] = RowRef(tab, key, present=match)
                else:
                    aliases[alias] = ref
                    conds.append(tab.has(key))
                    sc_on = Scope(st, aliases, outer)
                    conds.extend(truthy(self.ev(c, sc_on)) for c in on_conj)
            elif isinstance(item, A.SubqueryRef):
                sub = item.select
                if not isinstance(sub, A.Select):
                    raise Undecided('derived table %s is not a plain SELECT' % item.alias)
                if self.has_aggregate(sub):
                    sc0 = Scope(st, aliases, outer)
                    computed, order, gvars, present, recs = self.aggregate_select(sub, sc0, st)
                    if kind == 'LEFT':
                        ref0 = DerivedRef(computed, z3.BoolVal(True))
                        sc_on = Scope(st, dict(aliases, **{item.alias: ref0}), outer)
                        on_c = [truthy(self.ev(c, sc_on)) for c in on_conj]
                        # the ON clause must pin every group variable (one optional group per left row)
                        pinned = self.point_key(z3.And(*on_c) if on_c else z3.BoolVal(True), gvars) if gvars else ([], None)
                        if pinned is None:
                            raise Undecided('LEFT JOIN of an aggregated derived table whose groups are not pinned by ON')
                        sub_ = list(zip(gvars, pinned[0]))
                        comp2 = {k: SV(z3.substitute(v.n, *sub_), z3.substitute(v.v, *sub_)) if sub_ else v for k, v in computed.items()}
                        pres2 = z3.substitute(present, *sub_) if sub_ else present
                        for r_ in recs:
                            r_['cond'] = z3.substitute(r_['cond'], *sub_) if sub_ else r_['cond']
                            r_['symbol_at_row'] = z3.substitute(r_['symbol'], *sub_) if sub_ else r_['symbol']
                            r_['gvars_at_row'] = [z3.substitute(g, *sub_) for g in r_['gvars']] if sub_ else list(r_['gvars'])
                            if r_.get('arg') is not None and sub_:
                                r_['arg'] = SV(z3.substitute(r_['arg'].n, *sub_), z3.substitute(r_['arg'].v, *sub_))
                        aliases[item.alias] = DerivedRef(comp2, pres2)
                    else:
                        keyvars.extend(gvars)
                        aliases[item.alias] = DerivedRef(computed, z3.BoolVal(True))
                        conds.append(present)
                        sc_on = Scope(st, aliases, outer)
                        conds.extend(truthy(self.ev(c, sc_on)) for c in on_conj)
                    continue
                # (additive) `LEFT JOIN [LATERAL] (SELECT .. LIMIT 1) AS d ON TRUE`: at most one derived row per left row and no ON
                # filter after the limit, so "some row matches" (below) is exact; row-dependent columns are havocked as before
                limit_one = (sub.limit is not None and kind == 'LEFT' and not sub.group_by and not sub.having and getattr(sub, 'offset', None) is None
                             and isinstance(sub.limit, A.Lit) and sub.limit.value == 1 and sub.limit.kind == 'int'
                             and all(isinstance(c_, A.Lit) and c_.value is True for c_ in on_conj))
                if sub.group_by or sub.having or (sub.limit is not None and not limit_one and (kind == 'LEFT' or getattr(sub, 'offset', None) is not None)):
                    raise Undecided('derived table %s is not a plain SELECT' % item.alias)
                sc0 = Scope(st, aliases, outer)
                in_aliases, in_cond, in_kv = self.bind_from(sub.from_, sub.where, sc0, st)
                if sub.limit is not None and not limit_one:
                    # (wave 4, C06) inner-joined derived table with [ORDER BY ..] LIMIT n: its rows are SOME subset of the
                    # rows of the plain SELECT - all of them, or n distinct ones (the ORDER BY only narrows which n: ignoring
                    # it over-approximates, so whatever is proved holds for the real choice)
                    in_cond = z3.And(in_cond, self.limit_subset(sub, item.alias, in_cond, in_kv, st))
                sc_in = Scope(st, in_aliases, sc0)
                computed = {}
                for c in sub.columns:
                    nm = c.alias or (c.expr.parts[-1] if isinstance(c.expr, A.Name) else None)
                    if nm is None and isinstance(c.expr, A.Lit) and c.expr.kind != 'null':
                        # (C01 wave 4) `SELECT 1 FROM ...` as an existence probe in a (LATERAL) derived table: MySQL names the
                        # column after the literal's text; it cannot clash with a real column name
                        nm = str(c.expr.value)
                    if nm is None:
                        raise Undecided('derived table column without a name')
                    computed[nm] = self.ev(c.expr, sc_in)
                if kind == 'LEFT':
                    ref0 = DerivedRef(computed, z3.BoolVal(True))
                    sc_on = Scope(st, dict(aliases, **{item.alias: ref0}), outer)
                    body = z3.And(in_cond, *[truthy(self.ev(c, sc_on)) for c in on_conj])
                    if in_kv:
                        present = z3.Exists(in_kv, body)
                        # the join yields one result row per matching derived row; only "some row matches" is kept below
                        if not limit_one:
                            self.multi_row_joins.append({'alias': item.alias, 'kvars': list(in_kv), 'cond': body, 'line': getattr(sub, 'line', 0)})
                        # columns of an existentially chosen optional row: only constant columns keep a usable value
                        comp2 = {}
                        for k, v in computed.items():
                            if _mentions(v.v, in_kv) or _mentions(v.n, in_kv):
                                comp2[k] = SV(z3.Or(z3.Not(present), z3.Bool(fresh('derived_null'))), z3.Int(fresh('derived_val')))
                            else:
                                comp2[k] = SV(z3.Or(z3.Not(present), v.n), v.v)
                        aliases[item.alias] = DerivedRef(comp2, z3.BoolVal(True))
                    else:
                        aliases[item.alias] = DerivedRef(computed, body)
                else:
                    keyvars.extend(in_kv)
                    aliases[item.alias] = DerivedRef(computed, z3.BoolVal(True))
                    conds.append(in_cond)
                    sc_on = Scope(st, aliases, outer)
                    conds.extend(truthy(self.ev(c, sc_on)) for c in on_conj)
            else:
                raise Undecided('FROM item %s' % type(item).__name__)
        sc = Scope(st, aliases, outer)
        conds.extend(truthy(self.ev(c, sc)) for c in where_conj)
        conds.extend(truthy(self.ev(c, sc)) for c in deferred_on)
        return aliases, z3.And(*conds) if conds else z3.BoolVal(True), keyvars

    def limit_subset(self, sub, alias, in_cond, in_kv, st: St):
        """`(SELECT .. WHERE c [ORDER BY ..] LIMIT n) AS alias`: returns chosen(in_kv), the membership of a row of the plain
        SELECT (identified by its free key variables in_kv, selected by in_cond) in the limited result.  Encoding, for a
        literal 1 <= n <= 4:  chosen(k) = all or k = pick_1 or .. or k = pick_n  over fresh constants, with the path fact
        `not all => the picks are n pairwise distinct rows satisfying c`.  When fewer than n rows satisfy c no such picks
        exist, which forces `all` (LIMIT is then no restriction); when more do, `all` is a spurious extra behaviour and the
        picks range over every n-subset, a superset of the subsets an ORDER BY allows.  Recorded in self.limit_subsets."""
        lim = sub.limit
        if not (isinstance(lim, A.Lit) and lim.kind == 'int' and isinstance(lim.value, int) and not isinstance(lim.value, bool)):
            raise Undecided('derived table %s: LIMIT is not an integer literal' % alias)
        n = lim.value
        if not in_kv:
            # at most one row can match: LIMIT n >= 1 does not restrict, LIMIT 0 empties the table
            return z3.BoolVal(n >= 1)
        if n < 1 or n > 4:
            raise Undecided('derived table %s: LIMIT %d outside the modelled range 1..4' % (alias, n))
        all_ = z3.Bool(fresh('limit_all_%s' % alias))
        picks = [[z3.Const(fresh('limit_pick%d_%s' % (i, alias)), k.sort()) for k in in_kv] for i in range(n)]
        same = lambda a, b: z3.And(*[x == y for x, y in zip(a, b)])  # noqa: E731
        facts = [z3.substitute(in_cond, *zip(in_kv, pk)) for pk in picks]
        facts += [z3.Not(same(picks[i], picks[j])) for i in range(n) for j in range(i + 1, n)]
        st.pc.append(z3.Or(all_, z3.And(*facts)))
        self.limit_subsets.append({'alias': alias, 'limit': n, 'line': getattr(sub, 'line', None), 'order_by_ignored': bool(sub.order_by), 'all': all_, 'picks': picks})
        return z3.Or(all_, *[same(in_kv, pk) for pk in picks])

    def pin_key(self, tab: Tab, alias: str, conj: List[Any], scope: Scope, derived_alias=None, derived=None):
        """find, for every primary-key column of `tab`, a conjunct `alias.col = e` with e evaluable in `scope`;
        key columns that are not pinned become fresh (existential) key variables."""
        key = []
        fresh_k = []
        for i, c in enumerate(tab.pk):
            term = None
            for e in conj:
                term = self._pin_from(e, alias, c, scope, tab)
                if term is not None:
                    break
            if term is None and derived is not None:
                colmap, outer_conj = derived
                vis = [k for k, v in colmap.items() if v == c]
                for e in outer_conj:
                    for vname in vis:
                        term = self._pin_from(e, derived_alias, vname, scope, None)
                        if term is not None:
                            break
                    if term is not None:
                        break
            if term is None:
                kv = z3.Const(fresh('k_%s_%s' % (tab.name, c)), tab.ksorts[i])
                fresh_k.append(kv)
                term = kv
            key.append(term)
        return key, fresh_k

    def _pin_from(self, e, alias, col, scope: Scope, tab):
        if not (isinstance(e, A.BinOp) and e.op == '='):
            return None
        for a, b in ((e.left, e.right), (e.right, e.left)):
            if isinstance(a, A.Name) and a.parts[-1].lower() == col.lower():
                if len(a.parts) == 2 and a.parts[0].lower() != alias.lower():
                    continue
                if len(a.parts) == 1:
                    # unqualified: must not be a routine variable, and must not be a column of an already bound alias
                    if any(k.lower() == col.lower() for k in scope.st.vars):
                        continue
                    try:
                        scope.lookup(a.parts)
                        continue  # resolves to something else already in scope
                    except Undecided:
                        pass
                # the other side must not mention this alias
                if any(isinstance(n, A.Name) and len(n.parts) == 2 and n.parts[0].lower() == alias.lower() for n in b.walk()):
                    continue
                try:
                    v = self.ev(b, scope)
                except Undecided:
                    continue
                # a NULL comparand never matches; callers add the full conjunct to the condition anyway
                return v.v
        return None

    # ---- UPDATE / DELETE / INSERT
    def x_Update(self, node, st):
        items = self.flatten_from(node.tables)
        if node.limit is not None:
            raise Undecided('UPDATE ... LIMIT')
        by_alias: Dict[str, List[Tuple[str, Any]]] = {}
        alias_tab = {}
        for kind, item, on, _ in items:
            if isinstance(item, A.TableRef):
                alias_tab[item.alias or item.name] = item.name
        for tgt, e in node.assignments:
            if len(tgt.parts) == 2:
                al = [a for a in alias_tab if a.lower() == tgt.parts[0].lower()]
                if not al:
                    raise Undecided('UPDATE target alias %s' % tgt.parts[0])
                by_alias.setdefault(al[0], []).append((tgt.parts[1], e))
            else:
                owners = [a for a, t in alias_tab.items() if tgt.parts[0] in self.tables[t].columns]
                if len(owners) != 1:
                    raise Undecided('UPDATE target column %s is ambiguous' % tgt.parts[0])
                by_alias.setdefault(owners[0], []).append((tgt.parts[0], e))
        outs = [st]
        # MySQL evaluates single-table SET assignments left to right (later ones see earlier new values); for multi-table
        # updates the order is undefined: we evaluate all right-hand sides on the OLD row and require (checked) that no
        # assignment reads a column assigned earlier in the same statement with a different value.
        for alias, assigns in by_alias.items():
            nxt = []
            for s in outs:
                nxt.extend(self.update_one(node, items, alias, alias_tab[alias], assigns, s, single=(len(alias_tab) == 1)))
            outs = nxt
        return outs

    def update_one(self, node, items, alias, tname, assigns, st: St, single: bool):
        tab = st.db.tab(tname)
        # bind the target row by free key variables, everything else relative to it
        kvars = [z3.Const(fresh('u_%s_%s' % (tname, c)), tab.ksorts[i]) for i, c in enumerate(tab.pk)]
        target = RowRef(tab, kvars)
        aliases, cond, extra = self.bind_from(node.tables, node.where, Scope(st), st, fixed={alias: target})
        affected = z3.And(tab.has(kvars), cond)
        elim = []
        if extra:
            affected, extra, elim = eliminate_determined(affected, extra)
        if extra:
            affected = z3.Exists(extra, affected)
        sc = Scope(st, aliases)
        new_vals: Dict[str, SV] = {}
        assigned_cols = [c for c, _ in assigns]
        seq_aliases = dict(aliases)
        for c, e in assigns:
            if single:
                # left-to-right semantics: later assignments see the new values
                ref = RowRef(tab, kvars, computed=dict(new_vals))
                seq_aliases[alias] = ref
                v = self.ev(e, Scope(st, seq_aliases))
            else:
                v = self.ev(e, sc)
            if c in tab.pk:
                raise Undecided('UPDATE of a primary-key column')
            if elim:
                v = SV(z3.substitute(v.n, *elim), z3.substitute(v.v, *elim))
            if extra and (_mentions(v.v, extra) or _mentions(v.n, extra)):
                # MySQL updates each row once, with an arbitrary one of several matching joined rows: not a function
                self.determinism_issues.append({'table': tname, 'column': c, 'line': node.line, 'why': 'the SET value depends on a joined row that the join condition does not determine uniquely'})
                v = fresh_sv('nondet_%s_%s' % (tname, c), tab.real[c])
            new_vals[c] = v
        # point update?
        pinned = self.point_key(affected, kvars)
        has_trigger = any((tname.lower(), t, 'UPDATE') in self.triggers for t in ('BEFORE', 'AFTER'))
        if pinned is not None:
            key, guard = pinned
            subst = list(zip(kvars, key))
            guard = z3.substitute(guard, *subst)
            old_row = {c: tab.get(key, c) for c in tab.cols}
            new_row = dict(old_row)
            for c, v in new_vals.items():
                new_row[c] = SV(z3.substitute(v.n, *subst), z3.substitute(v.v, *subst))
            outs = []
            s_no = st.fork()
            s_no.pc.append(z3.Not(guard))
            if feasible(s_no.pc):
                s_no.row_count = z3.IntVal(0)
                s_no.trace.append('L%d:update-no-row' % node.line)
                outs.append(s_no)
            s_yes = st.fork()
            s_yes.pc.append(guard)
            if feasible(s_yes.pc):
                s_yes.trace.append('L%d:update-row' % node.line)
                merged_row = self.before_as_function(tname, 'UPDATE', s_yes, old_row, new_row)
                branches = [(s_yes, merged_row)] if merged_row is not None else self.fire_before(tname, 'UPDATE', s_yes, old_row, new_row)
                for s2, final_row in branches:
                    t2 = s2.db.tab(tname)
                    for c in t2.cols:
                        if c in t2.pk:
                            continue
                        v = final_row[c]
                        vv = z3.ToReal(v.v) if t2.real[c] and z3.is_int(v.v) else v.v
                        t2.val[c] = z3.Store(t2.val[c], *key, vv) if t2.pk else vv
                        if t2.nullable(c):
                            t2.null[c] = z3.Store(t2.null[c], *key, v.n) if t2.pk else v.n
                    s2.emit(Effect('update', tname, {'key': key, 'old': old_row, 'new': final_row, 'assigned': assigned_cols}, node.line, s2.depth))
                    s2.row_count = z3.IntVal(1)
                    outs.extend(self.fire_after(tname, 'UPDATE', s2, old_row, final_row))
            return outs
        # set-oriented
        old_row_k = {c: tab.get(kvars, c) for c in tab.cols}
        new_row_k = dict(old_row_k)
        new_row_k.update(new_vals)
        if (tname.lower(), 'BEFORE', 'UPDATE') in self.triggers and self.inline_triggers:
            # a pure BEFORE row trigger is a function of (OLD, NEW): run it on the symbolic row and merge its paths
            scratch = st.fork()
            scratch.pc = list(st.pc) + [affected] if not z3.is_quantifier(affected) else list(st.pc)
            n_eff = len(scratch.effects)
            outs_t = self.fire_before(tname, 'UPDATE', scratch, old_row_k, new_row_k)
            merged = None
            for s_t, fin in outs_t:
                if len(s_t.effects) != n_eff or s_t.outcome is not None:
                    raise Undecided('BEFORE UPDATE trigger on %s is not a pure row function' % tname)
                cond_t = z3.And(*s_t.pc[len(scratch.pc):]) if len(s_t.pc) > len(scratch.pc) else z3.BoolVal(True)
                if merged is None:
                    merged = dict(fin)
                else:
                    merged = {c: sv_ite(cond_t, fin[c], merged[c]) for c in fin}
            new_vals = {c: merged[c] for c in tab.cols if c not in tab.pk}
            new_row_k = dict(merged)
        if (tname.lower(), 'AFTER', 'UPDATE') in self.triggers:
            st.emit(Effect('deferred-trigger', tname, {'stmt': node, 'event': 'UPDATE', 'kvars': kvars, 'affected': affected, 'old': old_row_k, 'new': new_row_k}, node.line, st.depth))
        snapshot = st.db.fork()
        t2 = st.db.tab(tname)
        for c, v in new_vals.items():
            vv = z3.ToReal(v.v) if t2.real[c] and z3.is_int(v.v) else v.v
            t2.val[c] = z3.Lambda(kvars, z3.If(affected, vv, z3.Select(t2.val[c], *kvars)))
            if t2.nullable(c):
                t2.null[c] = z3.Lambda(kvars, z3.If(affected, v.n, z3.Select(t2.null[c], *kvars)))
        st.emit(Effect('update-set', tname, {'kvars': kvars, 'affected': affected, 'new': new_vals, 'old_row': old_row_k, 'new_row': new_row_k, 'assigned': assigned_cols, 'before': snapshot, 'stmt': node, 'vars': dict(st.vars)}, node.line, st.depth))
        st.row_count = z3.Int(fresh('row_count'))
        st.pc.append(st.row_count >= 0)
        return [st]

    def point_key(self, affected, kvars):
        """if `affected` implies kvars == terms (conjuncts kv == t with t free of kvars), return (terms, affected)"""
        if z3.is_quantifier(affected):
            return None
        conj = core._flatten_and(z3.simplify(affected, elim_ite=False))
        conj = [_unwrap_truth(c) for c in conj]
        found = {}
        for c in conj:
            if z3.is_eq(c):
                a, b = c.children()
                for x, y in ((a, b), (b, a)):
                    for kv in kvars:
                        if x.eq(kv) and not _mentions(y, kvars):
                            found.setdefault(kv.get_id(), y)
        if all(kv.get_id() in found for kv in kvars):
            return [found[kv.get_id()] for kv in kvars], affected
        if not kvars:
            return [], affected
        return None

    def before_as_function(self, tname, event, st, old_row, new_row, extra_pc=()):
        """a pure BEFORE row trigger is a function of (OLD, NEW): run it on a scratch state and merge its paths with
        if-then-else.  Returns the merged final row, or None if the trigger is not pure (effects / signals)."""
        if (tname.lower(), 'BEFORE', event) not in self.triggers or not self.inline_triggers:
            return dict(new_row)
        scratch = st.fork()
        scratch.pc = list(st.pc) + list(extra_pc)
        base = len(scratch.pc)
        n_eff = len(scratch.effects)
        outs_t = self.fire_before(tname, event, scratch, old_row, new_row)
        merged = None
        for s_t, fin in outs_t:
            if len(s_t.effects) != n_eff or s_t.outcome is not None:
                return None
            cond_t = z3.And(*s_t.pc[base:]) if len(s_t.pc) > base else z3.BoolVal(True)
            merged = dict(fin) if merged is None else {c: sv_ite(cond_t, fin[c], merged[c]) for c in fin}
        return merged

    def fire_before(self, tname, event, st, old_row, new_row):
        trg = self.triggers.get((tname.lower(), 'BEFORE', event))
        if trg is None or not self.inline_triggers:
            return [(st, new_row)]
        saved_vars, saved_rows = st.vars, st.rows
        st.vars = {}
        st.depth += 1
        outs = self.run_trigger(trg.name, st, old_row, new_row)
        res = []
        for s in outs:
            final = s.rows.get('NEW', new_row)
            s.vars, s.rows = dict(saved_vars), {k: dict(v) for k, v in saved_rows.items()}
            s.depth -= 1
            if s.outcome and s.outcome[0] != 'signal':
                s.outcome = None
            res.append((s, final))
        return res

    def fire_after(self, tname, event, st, old_row, new_row):
        trg = self.triggers.get((tname.lower(), 'AFTER', event))
        if trg is None or not self.inline_triggers or not self.inline_after:
            return [st]
        saved_vars, saved_rows = st.vars, st.rows
        st.vars = {}
        st.depth += 1
        outs = self.run_trigger(trg.name, st, old_row, new_row)
        res = []
        for s in outs:
            s.vars, s.rows = dict(saved_vars), {k: dict(v) for k, v in saved_rows.items()}
            s.depth -= 1
            if s.outcome and s.outcome[0] != 'signal':
                s.outcome = None
            res.append(s)
        return res

    def x_Delete(self, node, st):
        if node.targets or node.using or node.limit is not None:
            raise Undecided('multi-table DELETE / LIMIT')
        tname = node.table if isinstance(node.table, str) else node.table.name
        tab = st.db.tab(tname)
        alias = node.alias or tname
        kvars = [z3.Const(fresh('d_%s_%s' % (tname, c)), tab.ksorts[i]) for i, c in enumerate(tab.pk)]
        aliases, cond, extra = self.bind_from(A.TableRef(name=tname, alias=alias, index_hints=[], schema=None), node.where, Scope(st), st, fixed={alias: RowRef(tab, kvars)})
        affected = z3.And(tab.has(kvars), cond)
        if extra:
            affected = z3.Exists(extra, affected)
        snapshot = st.db.fork()
        t2 = st.db.tab(tname)
        pinned = self.point_key(affected, kvars)
        if pinned is not None and t2.pk:
            key, guard = pinned
            guard = z3.substitute(guard, *zip(kvars, key))
            t2.exists = z3.Store(t2.exists, *key, z3.And(z3.Select(t2.exists, *key), z3.Not(guard)))
            st.emit(Effect('delete', tname, {'key': key, 'guard': guard}, node.line, st.depth))
        else:
            t2.exists = z3.Lambda(kvars, z3.And(z3.Select(t2.exists, *kvars), z3.Not(affected)))
            st.emit(Effect('delete-set', tname, {'kvars': kvars, 'affected': affected, 'before': snapshot, 'stmt': node}, node.line, st.depth))
        return [st]

    def x_Insert(self, node, st):
        tname = node.table if isinstance(node.table, str) else node.table.name
        tab = st.db.tab(tname)
        cols = list(node.columns) if node.columns else list(tab.cols)
        if isinstance(node.source, A.Select) or isinstance(node.source, A.SelectStmt):
            sel = node.source.select if isinstance(node.source, A.SelectStmt) else node.source
            return self.insert_select(node, tname, cols, sel, st)
        rows = node.source
        if not isinstance(rows, list) or len(rows) != 1:
            raise Undecided('INSERT with %s rows' % (len(rows) if isinstance(rows, list) else '?'))
        sc = Scope(st)
        vals = [self.ev(e, sc) for e in rows[0]]
        given = dict(zip(cols, vals))
        if any(c not in given for c in tab.pk):
            raise Undecided('INSERT without the full primary key (auto-increment?) into %s' % tname)
        key = [given[c].v for c in tab.pk]
        existed = tab.has(key)
        outs = []
        if node.on_duplicate:
            incs, goals = {}, []
            for tgt, e in node.on_duplicate:
                c = tgt.parts[-1]
                cur = z3.Const(fresh('cur_%s' % c), z3.RealSort() if tab.real[c] else z3.IntSort())
                r = self.ev_values(e, Scope(st, {tname: DerivedRef({c: SV(False, cur)}, z3.BoolVal(True))}), given)
                a, b = _num2(r.v, cur)
                incs[c] = SV(r.n, a - b)
                if c in given:
                    g1, g2 = _num2(a - b, given[c].v)
                    goals.append((c, z3.And(z3.Not(r.n), z3.Not(given[c].n), g1 == g2)))
            st.emit(Effect('upsert-select', tname, {'kvars': [], 'cond': z3.BoolVal(True), 'key': {c: given[c] for c in tab.pk}, 'values': given, 'increments': incs, 'additivity_goals': goals, 'updated_cols': [t.parts[-1] for t, _ in node.on_duplicate], 'point': True}, node.line, st.depth))
        # duplicate branch
        s_dup = st.fork()
        s_dup.pc.append(existed)
        if feasible(s_dup.pc):
            if node.on_duplicate:
                t2 = s_dup.db.tab(tname)
                old_row = {c: t2.get(key, c) for c in t2.cols}
                new_row = dict(old_row)
                changed = []
                ref_new = dict(old_row)
                for tgt, e in node.on_duplicate:
                    c = tgt.parts[-1]
                    scd = Scope(s_dup, {tname: RowRef(t2, key, computed=dict(new_row))})
                    v = self.ev_values(e, scd, given)
                    new_row[c] = v
                    changed.append(z3.Not(sv_eq_values(v, old_row[c])))
                for c, v in new_row.items():
                    if c in t2.pk:
                        continue
                    vv = z3.ToReal(v.v) if t2.real[c] and z3.is_int(v.v) else v.v
                    t2.val[c] = z3.Store(t2.val[c], *key, vv)
                    if t2.nullable(c):
                        t2.null[c] = z3.Store(t2.null[c], *key, v.n)
                s_dup.row_count = z3.If(z3.Or(*changed) if changed else z3.BoolVal(False), z3.IntVal(2), z3.IntVal(0))
                s_dup.emit(Effect('upsert', tname, {'key': key, 'old': old_row, 'new': new_row, 'inserted': False, 'given': given}, node.line, s_dup.depth))
                s_dup.trace.append('L%d:dup' % node.line)
                outs.append(s_dup)
            elif node.ignore:
                s_dup.row_count = z3.IntVal(0)
                outs.append(s_dup)
            else:
                s_dup.outcome = ('signal', '23000', 'duplicate key')
                s_dup.emit(Effect('signal', data={'sqlstate': '23000', 'message': 'ER_DUP_ENTRY'}, line=node.line, depth=s_dup.depth))
                outs.append(s_dup)
        s_new = st.fork()
        s_new.pc.append(z3.Not(existed))
        if feasible(s_new.pc):
            s_new.trace.append('L%d:ins' % node.line)
            row = {}
            for c in tab.cols:
                if c in given:
                    row[c] = given[c]
                else:
                    row[c] = self.default_of(tab, c)
            for s2, final in self.fire_before(tname, 'INSERT', s_new, None, row):
                if s2.outcome is not None:
                    outs.append(s2)
                    continue
                t2 = s2.db.tab(tname)
                t2.exists = z3.Store(t2.exists, *key, z3.BoolVal(True))
                for c in t2.cols:
                    if c in t2.pk:
                        continue
                    v = final[c]
                    vv = z3.ToReal(v.v) if t2.real[c] and z3.is_int(v.v) else v.v
                    t2.val[c] = z3.Store(t2.val[c], *key, vv)
                    if t2.nullable(c):
                        t2.null[c] = z3.Store(t2.null[c], *key, v.n)
                s2.row_count = z3.IntVal(1)
                s2.emit(Effect('insert', tname, {'key': key, 'row': final, 'given': given}, node.line, s2.depth))
                outs.extend(self.fire_after(tname, 'INSERT', s2, None, final))
        return outs

    def default_of(self, tab: Tab, c) -> SV:
        col = tab.meta.columns[c]
        d = col.default
        if d is None:
            if col.nullable:
                return SV(True, z3.RealVal(0) if tab.real[c] else z3.IntVal(0))
            return fresh_sv('default_%s_%s' % (tab.name, c), tab.real[c], nullable=False)  # implicit default / auto value
        txt = str(d).strip().strip("'\"")
        if txt.upper() == 'NULL':
            return SV(True, z3.IntVal(0))
        try:
            return lit(int(txt))
        except ValueError:
            try:
                return lit(float(txt))
            except ValueError:
                if txt.upper() in ('TRUE', 'FALSE'):
                    return lit(txt.upper() == 'TRUE')
                return lit(txt)

    def ev_values(self, e, scope: Scope, given: Dict[str, SV]) -> SV:
        """ON DUPLICATE KEY UPDATE expression: VALUES(col) refers to the value that would have been inserted"""
        self._values_ctx = given
        try:
            return self.ev(e, scope)
        finally:
            self._values_ctx = None

    def insert_select(self, node, tname, cols, sel, st):
        tab = st.db.tab(tname)
        if not isinstance(sel, A.Select):
            raise Undecided('INSERT ... UNION')
        additive = None
        try:
            additive = self.analyze_upsert(node, tname, cols, sel, st)
        except Undecided as exn:
            self.notes.append('INSERT..SELECT into %s at line %s not analysed as an additive upsert: %s' % (tname, node.line, exn))
        if additive is not None:
            st.emit(Effect('upsert-select', tname, additive, node.line, st.depth))
        st.emit(Effect('insert-select', tname, {'stmt': node, 'cols': cols, 'select': sel, 'vars': dict(st.vars), 'rows': {k: dict(v) for k, v in st.rows.items()}, 'uservars': dict(st.uservars), 'db': st.db.fork()}, node.line, st.depth))
        # the target table is havocked for this statement; property modules reason about the recorded statement itself
        t2 = st.db.tab(tname)
        t2.exists = z3.Array(fresh('%s#exists' % tname), *t2.ksorts, z3.BoolSort())
        for c in list(t2.val):
            t2.val[c] = z3.Array(fresh('%s.%s' % (tname, c)), *t2.ksorts, t2.val[c].sort().range())
            t2.null[c] = z3.Array(fresh('%s.%s#null' % (tname, c)), *t2.ksorts, z3.BoolSort())
        for c in sel.columns:
            for n in c.expr.walk():
                if isinstance(n, A.AssignExpr):
                    st.uservars[n.target.name] = fresh_sv('uv_' + n.target.name)
        st.row_count = z3.Int(fresh('row_count'))
        return [st]

    def analyze_upsert(self, node, tname, cols, sel, st):
        """INSERT INTO t (cols) SELECT exprs FROM src WHERE w ON DUPLICATE KEY UPDATE c = c + X ...
        -> for every source row (kvars satisfying cond): target key terms, inserted values, and per updated column the
        increment applied on the duplicate branch, with the goal 'increment == inserted value' (additivity)"""
        tab = st.db.tab(tname)
        if sel.limit is not None:
            raise Undecided('LIMIT in source')
        agg_records = []
        if self.has_aggregate(sel):
            computed, order, gvars, present, agg_records = self.aggregate_select(sel, Scope(st), st)
            aliases, cond, kv = {}, present, list(gvars)
            vals = [computed[n] for n in order]
        else:
            if sel.from_ is not None:
                aliases, cond, kv = self.bind_from(sel.from_, sel.where, Scope(st), st)
            else:
                aliases, cond, kv = {}, z3.BoolVal(True), []
            sc = Scope(st, aliases)
            vals = [self.ev(c.expr, sc) for c in sel.columns]
        if len(vals) != len(cols):
            raise Undecided('column count')
        given = dict(zip(cols, vals))
        if any(c not in given for c in tab.pk):
            raise Undecided('target key not fully given')
        incs, goals = {}, []
        for tgt, e in node.on_duplicate or []:
            c = tgt.parts[-1]
            cur = z3.Const(fresh('cur_%s' % c), z3.RealSort() if tab.real[c] else z3.IntSort())
            ref = DerivedRef({c: SV(False, cur)}, z3.BoolVal(True))
            sc2 = Scope(st, dict(aliases, **{tname: ref}))
            r = self.ev_values(e, sc2, given)
            a, b = _num2(r.v, cur)
            incs[c] = SV(r.n, a - b)
            g1, g2 = _num2(a - b, given[c].v)
            goals.append((c, z3.And(z3.Not(r.n), z3.Not(given[c].n), g1 == g2)))
        return {'kvars': kv, 'cond': cond, 'key': {c: given[c] for c in tab.pk}, 'values': given, 'increments': incs, 'additivity_goals': goals, 'pc_len_': len(st.pc), 'updated_cols': [t.parts[-1] for t, _ in node.on_duplicate or []], 'aggregates': agg_records}

    # ---- expressions
    def ev(self, e, sc: Scope) -> SV:
        m = getattr(self, 'e_' + type(e).__name__, None)
        if m is None:
            raise Undecided('SQL expression %s not in the sqlvc subset' % type(e).__name__)
        return m(e, sc)

    def e_Lit(self, e, sc):
        if e.kind == 'null':
            return lit(None)
        if e.kind == 'bool':
            return lit(bool(e.value))
        return lit(e.value)

    def e_Name(self, e, sc):
        if len(e.parts) == 1 and e.parts[0].upper() in ('TRUE', 'FALSE'):
            return lit(e.parts[0].upper() == 'TRUE')
        return sc.lookup(tuple(e.parts))

    def e_UserVar(self, e, sc):
        return sc.st.uservars.get(e.name, lit(None))

    def e_AssignExpr(self, e, sc):
        v = self.ev(e.value, sc)
        sc.st.uservars[e.target.name] = v
        return v

    def e_Param(self, e, sc):
        k = '%%param%d' % e.index
        if k not in sc.st.uservars:
            sc.st.uservars[k] = fresh_sv('param%d' % e.index)
        return sc.st.uservars[k]

    def e_NamedParam(self, e, sc):
        k = '%%param_%s' % e.name
        if k not in sc.st.uservars:
            sc.st.uservars[k] = fresh_sv('param_%s' % e.name)
        return sc.st.uservars[k]

    def e_UnOp(self, e, sc):
        x = self.ev(e.operand, sc)
        if e.op in ('NOT', '!'):
            return SV(x.n, z3.If(x.v == 0, z3.IntVal(1), z3.IntVal(0)))
        if e.op == '-':
            return SV(x.n, -x.v)
        if e.op == '+':
            return x
        raise Undecided('unary %s' % e.op)

    def e_BinOp(self, e, sc):
        op = e.op
        if op == 'AND':
            a, b = self.ev(e.left, sc), self.ev(e.right, sc)
            fa, fb = falsy(a), falsy(b)
            isfalse = z3.Or(fa, fb)
            istrue = z3.And(truthy(a), truthy(b))
            return SV(z3.And(z3.Not(isfalse), z3.Not(istrue)), z3.If(istrue, z3.IntVal(1), z3.IntVal(0)))
        if op == 'OR':
            a, b = self.ev(e.left, sc), self.ev(e.right, sc)
            istrue = z3.Or(truthy(a), truthy(b))
            isfalse = z3.And(falsy(a), falsy(b))
            return SV(z3.And(z3.Not(isfalse), z3.Not(istrue)), z3.If(istrue, z3.IntVal(1), z3.IntVal(0)))
        a, b = self.ev(e.left, sc), self.ev(e.right, sc)
        n = z3.Or(a.n, b.n)
        av, bv = _num2(a.v, b.v)
        if op == '=':
            return SV(n, z3.If(av == bv, z3.IntVal(1), z3.IntVal(0)))
        if op == '<=>':
            return b2sv(z3.Or(z3.And(a.n, b.n), z3.And(z3.Not(a.n), z3.Not(b.n), av == bv)))
        if op in ('<>', '!='):
            return SV(n, z3.If(av != bv, z3.IntVal(1), z3.IntVal(0)))
        if op in ('<', '<=', '>', '>='):
            c = {'<': av < bv, '<=': av <= bv, '>': av > bv, '>=': av >= bv}[op]
            return SV(n, z3.If(c, z3.IntVal(1), z3.IntVal(0)))
        if op == '+':
            return SV(n, av + bv)
        if op == '-':
            return SV(n, av - bv)
        if op == '*':
            return SV(n, av * bv)
        if op == '/':
            ar = z3.ToReal(av) if z3.is_int(av) else av
            br = z3.ToReal(bv) if z3.is_int(bv) else bv
            return SV(z3.Or(n, br == 0), ar / br)
        if op == 'DIV':
            if z3.is_real(av) or z3.is_real(bv):
                raise Undecided('DIV on non-integers')
            q = z3.If(bv > 0, z3.If(av >= 0, av / bv, -((-av) / bv)), z3.If(av >= 0, -(av / (-bv)), (-av) / (-bv)))
            return SV(z3.Or(n, bv == 0), q)
        if op in ('%', 'MOD'):
            if z3.is_real(av) or z3.is_real(bv):
                raise Undecided('MOD on non-integers')
            q = z3.If(bv > 0, z3.If(av >= 0, av / bv, -((-av) / bv)), z3.If(av >= 0, -(av / (-bv)), (-av) / (-bv)))
            return SV(z3.Or(n, bv == 0), av - bv * q)
        raise Undecided('binary operator %s' % op)

    def e_IsNull(self, e, sc):
        x = self.ev(e.expr, sc)
        return b2sv(z3.Not(x.n) if e.negated else x.n)

    def e_IsBool(self, e, sc):
        x = self.ev(e.expr, sc)
        c = truthy(x) if e.value else falsy(x)
        return b2sv(z3.Not(c) if e.negated else c)

    def e_In(self, e, sc):
        x = self.ev(e.expr, sc)
        if isinstance(e.items, (A.Select, A.Subquery)):
            raise Undecided('IN (subquery)')
        items = [self.ev(i, sc) for i in e.items]
        anytrue = z3.Or(*[z3.And(z3.Not(x.n), z3.Not(i.n), _num2(x.v, i.v)[0] == _num2(x.v, i.v)[1]) for i in items])
        anynull = z3.Or(x.n, *[i.n for i in items])
        r = SV(z3.And(z3.Not(anytrue), anynull), z3.If(anytrue, z3.IntVal(1), z3.IntVal(0)))
        if e.negated:
            return SV(r.n, z3.If(r.v == 0, z3.IntVal(1), z3.IntVal(0)))
        return r

    def e_Between(self, e, sc):
        ge = A.BinOp(op='>=', left=e.expr, right=e.lo)
        le = A.BinOp(op='<=', left=e.expr, right=e.hi)
        r = self.ev(A.BinOp(op='AND', left=ge, right=le), sc)
        if e.negated:
            return SV(r.n, z3.If(r.v == 0, z3.IntVal(1), z3.IntVal(0)))
        return r

    def e_Cast(self, e, sc):
        return self.ev(e.expr, sc)

    def e_Case(self, e, sc):
        res = self.ev(e.else_, sc) if e.else_ is not None else lit(None)
        for w, t in reversed(e.whens):
            if e.operand is not None:
                c = truthy(self.ev(A.BinOp(op='=', left=e.operand, right=w), sc))
            else:
                c = truthy(self.ev(w, sc))
            res = sv_ite(c, self.ev(t, sc), res)
        return res

    def e_Func(self, e, sc):
        name = e.name.upper()
        st = sc.st
        actx = getattr(self, '_agg_ctx', None)
        if name in ('SUM', 'COUNT') and actx is not None:
            arg = None
            if not e.star and e.args:
                arg = self.ev(e.args[0], actx['scope'])
            same = [r0 for r0 in actx['records'] if r0['func'] == name and ((r0['arg'] is None and arg is None) or (r0['arg'] is not None and arg is not None and r0['arg'].v.eq(arg.v) and r0['arg'].n.eq(arg.n)))]
            if same:
                # the same aggregate over the same rows of the same query: one value (e.g. SUM(x) used twice in a select list)
                sym = same[0]['symbol']
                if name == 'COUNT':
                    return SV(False, sym)
                if actx['grouped']:
                    return SV(False, sym)
                empty = z3.Not(z3.Exists(actx['kvars'], actx['cond'])) if actx['kvars'] else z3.Not(actx['cond'])
                return SV(empty, sym)
            if actx['grouped'] and actx.get('gvars'):
                fdecl = z3.Function(fresh('agg_%s' % name.lower()), *[g.sort() for g in actx['gvars']], z3.IntSort())
                sym = fdecl(*actx['gvars'])
            else:
                sym = z3.Int(fresh('agg_%s' % name.lower()))
            rec = {'func': name, 'arg': arg, 'symbol': sym, 'gvars': list(actx.get('gvars') or []), 'kvars': actx['kvars'], 'cond': actx['cond'], 'line': getattr(e, 'line', 0), 'expr': e.to_sql() if hasattr(e, 'to_sql') else name}
            actx['records'].append(rec)
            st.aggregates.append(rec)
            if name == 'COUNT':
                st.pc.append(sym >= 0)
                return SV(False, sym)
            if actx['grouped']:
                return SV(arg.n if arg is not None else z3.BoolVal(False), sym) if False else SV(False, sym)
            empty = z3.Not(z3.Exists(actx['kvars'], actx['cond'])) if actx['kvars'] else z3.Not(actx['cond'])
            return SV(empty, sym)
        if name in ('MAX', 'MIN', 'AVG') and actx is not None:
            raise Undecided('%s aggregate' % name)
        if name in ('IFNULL', 'COALESCE'):
            args = [self.ev(a, sc) for a in e.args]
            res = args[-1]
            for a in reversed(args[:-1]):
                res = sv_ite(z3.Not(a.n), a, res)
            return res
        if name == 'IF':
            c, a, b = [self.ev(x, sc) for x in e.args]
            return sv_ite(truthy(c), a, b)
        if name in ('GREATEST', 'LEAST'):
            args = [self.ev(a, sc) for a in e.args]
            v = args[0].v
            for a in args[1:]:
                x, y = _num2(v, a.v)
                v = z3.If(x >= y, x, y) if name == 'GREATEST' else z3.If(x <= y, x, y)
            return SV(z3.Or(*[a.n for a in args]), v)
        if name == 'ROW_COUNT':
            return SV(False, st.row_count)
        if name in ('RAND',):
            r = z3.Real(fresh('rand'))
            st.pc.append(z3.And(r >= 0, r < 1))
            return SV(False, r)
        if name == 'FLOOR':
            x = self.ev(e.args[0], sc)
            return SV(x.n, z3.ToInt(x.v) if z3.is_real(x.v) else x.v)
        if name in ('UNIX_TIMESTAMP', 'NOW', 'UTC_DATE', 'CURRENT_TIMESTAMP', 'UTC_TIMESTAMP', 'CURDATE'):
            key = '__clock_' + name
            if key not in st.uservars:
                st.uservars[key] = fresh_sv(name.lower(), nullable=False)
            return st.uservars[key]
        if name == 'VALUES' and getattr(self, '_values_ctx', None) is not None:
            c = e.args[0].parts[-1]
            return self._values_ctx[c]
        if name == 'ABS':
            x = self.ev(e.args[0], sc)
            return SV(x.n, z3.If(x.v >= 0, x.v, -x.v))
        # user-defined function?
        for rn, r in self.routines.items():
            if r.kind == 'function' and rn.upper() == name:
                return self.call_function(r, [self.ev(a, sc) for a in e.args], st)
        raise Undecided('SQL function %s not modelled' % name)

    def call_function(self, r: A.Routine, args: List[SV], st: St) -> SV:
        sub = St(st.db)
        sub.pc = st.pc
        sub.uservars = st.uservars
        for p, a in zip(r.params, args):
            sub.vars[p.name] = a
        outs = self.exec_stmt(r.body, sub)
        if len(outs) != 1 or not outs[0].outcome or outs[0].outcome[0] != 'return':
            raise Undecided('function %s does not reduce to a single RETURN' % r.name)
        return outs[0].outcome[1]

    def e_Exists(self, e, sc):
        sel = e.select
        if not isinstance(sel, A.Select):
            raise Undecided('EXISTS (UNION)')
        aliases, cond, kv = self.bind_from(sel.from_, sel.where, sc, sc.st)
        c = z3.Exists(kv, cond) if kv else cond
        return b2sv(z3.Not(c) if e.negated else c)

    def e_Subquery(self, e, sc):
        sel = e.select
        if not isinstance(sel, A.Select) or len(sel.columns) != 1:
            raise Undecided('scalar subquery shape')
        if self.has_aggregate(sel):
            if sel.group_by:
                raise Undecided('scalar subquery with GROUP BY')
            computed, order, gvars, present, recs = self.aggregate_select(sel, sc, sc.st)
            return computed[order[0]]
        n_multi = len(self.multi_row_joins)
        aliases, cond, kv = self.bind_from(sel.from_, sel.where, sc, sc.st)
        # recorded only (no effect on the value): the row sets whose cardinality decides whether MySQL answers or raises 1242
        if sel.limit is None:
            for m_ in self.multi_row_joins[n_multi:]:
                self.scalar_subquery_rows.append({'line': getattr(sel, 'line', 0), 'what': 'derived table %s' % m_['alias'], 'kvars': m_['kvars'], 'cond': m_['cond'], 'pc': list(sc.st.pc)})
            if kv:
                self.scalar_subquery_rows.append({'line': getattr(sel, 'line', 0), 'what': 'rows', 'kvars': list(kv), 'cond': cond, 'pc': list(sc.st.pc)})
        val = self.ev(sel.columns[0].expr, Scope(sc.st, aliases, sc))
        if kv:
            # a row chosen existentially: value is that of some matching row, NULL if none matches
            found = z3.Bool(fresh('subq_found'))
            sc.st.pc.append(z3.Implies(found, cond))
            sc.st.pc.append(z3.Implies(z3.Not(found), z3.ForAll(kv, z3.Not(cond))))
            return SV(z3.Or(z3.Not(found), val.n), val.v)
        return SV(z3.Or(z3.Not(cond), val.n), val.v)

    def e_Tuple(self, e, sc):
        raise Undecided('row constructor')


def eliminate_determined(formula, evars):
    """exists x. (x == t /\ phi)  ==>  phi[x := t]  for every existential x determined by an equality conjunct whose other
    side does not mention the existentials.  Returns (formula', remaining existentials, substitutions)."""
    subs = []
    remaining = list(evars)
    changed = True
    while changed and remaining:
        changed = False
        conj = [_unwrap_truth(c) for c in core._flatten_and(z3.simplify(formula, elim_ite=False))]
        for c in conj:
            if not z3.is_eq(c):
                continue
            a, b = c.children()
            hit = None
            for x, y in ((a, b), (b, a)):
                for ev in remaining:
                    if x.eq(ev) and not _mentions(y, remaining):
                        hit = (ev, y)
                        break
                if hit:
                    break
            if hit:
                ev, y = hit
                formula = z3.substitute(formula, (ev, y))
                subs = [(k, z3.substitute(v, (ev, y))) for k, v in subs] + [(ev, y)]
                remaining = [r for r in remaining if not r.eq(ev)]
                changed = True
                break
    return formula, remaining, subs


def _unwrap_truth(c):
    """Not(If(a == b, 1, 0) == 0)  ->  a == b  (shape produced by truthy() of an SQL equality)"""
    try:
        if z3.is_not(c):
            (x,) = c.children()
            if z3.is_eq(x):
                l, r = x.children()
                for ite, zero in ((l, r), (r, l)):
                    if z3.is_app_of(ite, z3.Z3_OP_ITE) and z3.is_int_value(zero) and zero.as_long() == 0:
                        cond, a, b = ite.children()
                        if z3.is_int_value(a) and z3.is_int_value(b) and a.as_long() == 1 and b.as_long() == 0:
                            return cond
    except Exception:
        pass
    return c


def _mentions(term, kvars):
    ids = {k.get_id() for k in kvars}
    stack = [term]
    seen = set()
    while stack:
        x = stack.pop()
        if x.get_id() in seen:
            continue
        seen.add(x.get_id())
        if x.get_id() in ids:
            return True
        stack.extend(x.children())
    return False


def _with_vars(st: St, vars_):
    s = St(st.db)
    s.vars = vars_
    s.rows = st.rows
    s.pc = st.pc
    s.uservars = st.uservars
    s.row_count = st.row_count
    return s


def havoc_stub(tables_cols: Dict[str, List[str]]):
    """stub for a callee outside the subset: the listed columns of the listed tables become arbitrary"""

    def stub(ex: 'Exec', st: St, node):
        for tname, cols in tables_cols.items():
            t = st.db.tab(tname)
            for c in cols:
                t.val[c] = z3.Array(fresh('%s.%s' % (tname, c)), *t.ksorts, t.val[c].sort().range())
                if t.nullable(c):
                    t.null[c] = z3.Array(fresh('%s.%s#null' % (tname, c)), *t.ksorts, z3.BoolSort())
        st.emit(Effect('call-stub', None, {'name': node.name if isinstance(node.name, str) else node.name.parts[-1], 'havocked': tables_cols}, node.line, st.depth))
        return [st]

    return stub


def written_tables(routine: A.Routine) -> Dict[str, List[str]]:
    out: Dict[str, List[str]] = {}
    for n in routine.body.walk():
        if isinstance(n, A.Update):
            for tgt, _ in n.assignments:
                pass
        if isinstance(n, (A.Update,)):
            names = [t.name for t in n.tables.walk() if isinstance(t, A.TableRef)] if not isinstance(n.tables, A.TableRef) else [n.tables.name]
            for tgt, _ in n.assignments:
                for tn in names:
                    out.setdefault(tn, [])
                    if tgt.parts[-1] not in out[tn]:
                        out[tn].append(tgt.parts[-1])
    return out


def pc_of(st: St):
    return list(st.pc)
