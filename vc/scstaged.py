"""scstaged - concrete evaluation of the tiny asm4s subset in which Hail writes the STAGED twins of its genotype-call functions
(hail/hail/src/is/hail/types/physical/stypes/concrete/SCanonicalCall.scala: ploidy, isPhased, forEachAllele).

A staged method does not compute, it emits JVM code through an EmitCodeBuilder `cb`.  For the straight-line / if-then-else methods
accepted here the emitted code has an obvious meaning, and that meaning is what this evaluator executes on the REAL method text
(tokenised and parsed by vc/scvc.py's lexer and expression parser):

    cb.memoize(e) / cb.memoize[T](e)         the value of e (evaluated once)
    cb.newLocal[T]("name") / (.., init)      a fresh mutable local of JVM type T
    cb.assign(v, e)                          v := e   (the JVM types must agree)
    cb.if_(c, a) / cb.if_(c, a, b)           if (c) a else b   - the by-name blocks are executed only on the branch taken
    cb.append(Code._fatal[Unit](msg))        throws HailException
    const(x)                                 x
    Code.invokeScalaObjectN[T.., R](Obj.getClass, "f", a..)   Obj.f(a..) evaluated by scvc on the real Scala object
    Code.invokeStatic1[Math, Double, Double]("sqrt", x)       java.lang.Math.sqrt(x)   (NaN for negative x)
    x.toD  x.toI  x.toS                      i2d, d2i (NaN -> 0, saturating), string conversion
    x.ceq(y)  x.cne(y)  < <= > >=            comparisons of two values of the SAME JVM type
    + - * / % & | ^ << >> >>>                Int op Int with 32-bit wrap-around / Double op Double in IEEE-754 doubles;
                                             NO numeric promotion: asm4s has none, `Code[Int] * Code[Double]` does not compile
    m(cb)                                    another staged method of the same class (one parameter list (cb))
    f(v)                                     a callback parameter `f: Value[Int] => Unit` of the method: invoked with the value
                                             the local holds at that program point

Everything else raises ScUnsupported (the caller turns it into UNDECIDED) - nothing is guessed.  Int arithmetic that wraps is
recorded in `StagedRun.overflows` (the verified functions of Call.scala / Genotype.scala never wrap inside the call domain; their
staged twins must not either).  Part of the trusted base, like scvc.
"""

from __future__ import annotations

import math

from vc import scvc
from vc.scvc import ScThrow, ScUnsupported, i32

__all__ = ['load_staged_class', 'StagedClass', 'StagedRun']


class _Cell:
    __slots__ = ('ty', 'value', 'name')

    def __init__(self, ty, name, value=None):
        self.ty, self.name, self.value = ty, name, value


_JTYPE = {'Int': int, 'Double': float, 'Boolean': bool}


def _kind(v):
    return {bool: 'Boolean', int: 'Int', float: 'Double', str: 'String'}.get(type(v))


class StagedMethod:
    def __init__(self, name, param_lists, body, line, problem=None):
        self.name, self.param_lists, self.body, self.line, self.problem = name, param_lists, body, line, problem


class StagedClass:
    """the staged methods of one Scala class, parsed from the real source text"""

    def __init__(self, name, file, fields, methods):
        self.name, self.file, self.fields, self.methods = name, file, fields, methods

    def walk(self, meth):
        """every AST node of the body of `meth`"""
        m = self.methods[meth]
        if m.body is None:
            raise ScUnsupported('%s.%s: %s' % (self.name, meth, m.problem), m.line, self.file)
        out, todo = [], [m.body]
        while todo:
            n = todo.pop()
            if isinstance(n, scvc.Node):
                out.append(n)
                for k, v in n.__dict__.items():
                    if k in ('kind', 'line'):
                        continue
                    todo.extend(_children(v))
        return out


def _children(v):
    if isinstance(v, scvc.Node):
        return [v]
    if isinstance(v, (list, tuple)):
        out = []
        for x in v:
            out.extend(_children(x))
        return out
    return []


def load_staged_class(text, file, cls):
    """parse `class <cls>(val f: T, ...) ... { defs }` out of `text`"""
    toks = scvc.tokenize(text, file)
    at = [i for i, t in enumerate(toks) if t.kind == 'kw' and t.text == 'class' and toks[i + 1].kind == 'id' and toks[i + 1].text == cls]
    if len(at) != 1:
        raise ScUnsupported('class %s not found exactly once' % cls, None, file)
    i = at[0] + 2
    fields = []
    if toks[i].text == '(':
        close = scvc._find_close(toks, i)
        k = i + 1
        while k < close:
            if toks[k].kind == 'id' and toks[k + 1].kind == 'op' and toks[k + 1].text == ':':
                fields.append(toks[k].text)
            k += 1
        i = close + 1
    while not (toks[i].kind == 'punct' and toks[i].text == '{'):
        if toks[i].kind == 'eof':
            raise ScUnsupported('class %s has no body' % cls, None, file)
        if toks[i].kind == 'punct' and toks[i].text == '(':
            i = scvc._find_close(toks, i)
        i += 1
    end = scvc._find_close(toks, i)
    methods = {}
    k = i + 1
    while k < end:
        t = toks[k]
        if t.kind == 'punct' and t.text in '([{':
            k = scvc._find_close(toks, k) + 1
            continue
        if t.kind == 'kw' and t.text == 'def':
            name = toks[k + 1].text
            line = t.line
            p = k + 2
            plists = []
            problem = None
            while toks[p].kind == 'punct' and toks[p].text == '(':
                c = scvc._find_close(toks, p)
                names, q = [], p + 1
                while q < c:
                    if toks[q].kind == 'punct' and toks[q].text in '([{':
                        q = scvc._find_close(toks, q) + 1
                        continue
                    if toks[q].kind == 'id' and toks[q + 1].kind == 'op' and toks[q + 1].text == ':' and (q == p + 1 or toks[q - 1].text == ','):
                        names.append(toks[q].text)
                    q += 1
                plists.append(names)
                p = c + 1
            # result type up to '='
            while not (toks[p].kind == 'op' and toks[p].text == '=') and p < end:
                if toks[p].kind == 'punct' and toks[p].text in '([':
                    p = scvc._find_close(toks, p)
                elif toks[p].kind == 'punct' and toks[p].text == '{' or (toks[p].kind == 'kw' and toks[p].text in ('def', 'val', 'override', 'lazy')):
                    problem = 'no body'
                    break
                p += 1
            body = None
            if problem is None and p < end:
                ps = scvc.Parser(toks, file, start=p + 1, end=end)
                try:
                    body = ps.parse_expr()
                    k = ps.pos
                except ScUnsupported as e:
                    problem = str(e)
                    k = p + 1
            else:
                k = p
            if name in methods:
                methods[name] = StagedMethod(name, plists, None, line, 'overloaded')
            else:
                methods[name] = StagedMethod(name, plists, body, line, problem)
            continue
        k += 1
    return StagedClass(cls, file, fields, methods)


class StagedRun:
    """one execution of a staged method on concrete field values.

        run = StagedRun(cls, objs, {'call': c})
        run.call('forEachAllele', callbacks={'alleleCode': emitted.append})
    """

    def __init__(self, cls, objs, fields):
        self.cls, self.objs = cls, objs
        self.fields = dict(fields)
        for f in cls.fields:
            if f not in self.fields:
                raise ScUnsupported('no value for constructor field %s of %s' % (f, cls.name), None, cls.file)
        self.overflows = []
        self.depth = 0

    def fail(self, msg, n):
        return ScUnsupported('staged subset: ' + msg, getattr(n, 'line', None), self.cls.file)

    # ---- methods
    def call(self, meth, callbacks=None):
        m = self.cls.methods.get(meth)
        if m is None or m.body is None:
            raise ScUnsupported('%s.%s: %s' % (self.cls.name, meth, m.problem if m else 'no such method'), m.line if m else None, self.cls.file)
        callbacks = dict(callbacks or {})
        if not m.param_lists or m.param_lists[0] != ['cb']:
            raise ScUnsupported('%s.%s: first parameter list is not (cb: EmitCodeBuilder)' % (self.cls.name, meth), m.line, self.cls.file)
        rest = [p for pl in m.param_lists[1:] for p in pl]
        if sorted(rest) != sorted(callbacks):
            raise ScUnsupported('%s.%s: parameters %s, callbacks given %s' % (self.cls.name, meth, rest, sorted(callbacks)), m.line, self.cls.file)
        self.depth += 1
        if self.depth > 8:
            raise ScUnsupported('staged methods nest too deep', m.line, self.cls.file)
        try:
            env = [dict({'cb': _CB}, **{k: _Callback(v) for k, v in callbacks.items()})]
            return self.ev(m.body, env)
        finally:
            self.depth -= 1

    # ---- expressions
    def lookup(self, name, env, n):
        for sc in reversed(env):
            if name in sc:
                return sc[name]
        if name in self.fields:
            return self.fields[name]
        raise self.fail('unknown name %s' % name, n)

    def value(self, n, env):
        v = self.ev(n, env)
        if isinstance(v, _Cell):
            if v.value is None:
                raise self.fail('local %s read before it is assigned' % v.name, n)
            return v.value
        if _kind(v) is None:
            raise self.fail('expression is not a JVM value', n)
        return v

    def ev(self, n, env):
        k = n.kind
        if k == 'Lit':
            if n.ty == 'Int':
                return int(n.value)
            if n.ty == 'Double':
                return float(n.value)
            if n.ty == 'Boolean':
                return bool(n.value)
            if n.ty == 'String':
                return str(n.value)
            raise self.fail('literal of type %s' % n.ty, n)
        if k == 'Ident':
            return self.lookup(n.name, env, n)
        if k == 'Block':
            env.append({})
            try:
                r = None
                for s in n.stmts:
                    r = self.ev(s, env)
                return r
            finally:
                env.pop()
        if k == 'ValDef':
            if n.is_var or n.is_lazy:
                raise self.fail('var / lazy val', n)
            v = self.ev(n.rhs, env)
            env[-1][n.name] = v
            return None
        if k == 'Unary':
            v = self.value(n.e, env)
            if n.op == '!' and type(v) is bool:
                return not v
            if n.op == '-' and type(v) is int:
                return self.arith('-', 0, v, n)
            if n.op == '-' and type(v) is float:
                return -v
            raise self.fail('unary %s on %s' % (n.op, _kind(v)), n)
        if k == 'Binary':
            if n.op in ('&&', '||'):
                a = self.value(n.l, env)
                if type(a) is not bool:
                    raise self.fail('%s on %s' % (n.op, _kind(a)), n)
                if (n.op == '&&') != a:
                    return a
                b = self.value(n.r, env)
                if type(b) is not bool:
                    raise self.fail('%s on %s' % (n.op, _kind(b)), n)
                return b
            return self.arith(n.op, self.value(n.l, env), self.value(n.r, env), n)
        if k == 'Select':
            if n.name in ('toD', 'toI', 'toS'):
                v = self.value(n.obj, env)
                if n.name == 'toD' and type(v) is int:
                    return float(v)
                if n.name == 'toI' and type(v) is float:
                    return scvc.d2i(v)
                if n.name == 'toS' and type(v) in (int, float, bool):
                    return str(v)
                raise self.fail('.%s on %s' % (n.name, _kind(v)), n)
            if n.obj.kind == 'Ident' and n.obj.name in self.objs and n.name not in ('getClass',):
                o = self.objs[n.obj.name]
                try:
                    v = o.get_val(n.name, n.line)
                except Exception as e:  # pylint: disable=broad-except
                    raise self.fail('%s.%s: %s' % (n.obj.name, n.name, e), n)
                if type(v) not in (int, bool, float):
                    raise self.fail('%s.%s is not a primitive value' % (n.obj.name, n.name), n)
                return v
            raise self.fail('selection .%s' % n.name, n)
        if k == 'Apply':
            return self.apply(n, env)
        raise self.fail('%s expression' % k, n)

    def arith(self, op, a, b, n):
        ka, kb = _kind(a), _kind(b)
        if ka != kb or ka not in ('Int', 'Double', 'Boolean'):
            raise self.fail('operator %s on %s and %s (asm4s has no numeric promotion)' % (op, ka, kb), n)
        if ka == 'Boolean' and op not in ('==', '!='):
            raise self.fail('operator %s on Booleans' % op, n)
        if ka == 'Double' and op not in ('+', '-', '*', '/', '<', '<=', '>', '>=', '==', '!='):
            raise self.fail('operator %s on Doubles' % op, n)
        if ka == 'Int' and op in ('+', '-', '*'):
            exact = {'+': a + b, '-': a - b, '*': a * b}[op]
            if exact != i32(exact):
                self.overflows.append({'line': n.line, 'operator': op, 'operands': [a, b], 'wrapped_result': i32(exact)})
            return i32(exact)
        try:
            return _BINOP.binop(op, a, b, n.line, None)
        except ScUnsupported:
            raise self.fail('operator %s on %s' % (op, ka), n)

    def apply(self, n, env):
        fn, targs = n.fn, []
        if fn.kind == 'TypeApply':
            fn, targs = fn.fn, list(fn.types)
        if any(a is not None for a, _ in n.args):
            raise self.fail('named argument', n)
        args = [e for _, e in n.args]
        # const(x)
        if fn.kind == 'Ident' and fn.name == 'const' and len(args) == 1 and not targs:
            return self.value(args[0], env)
        if fn.kind == 'Ident':
            target = None
            for sc in reversed(env):
                if fn.name in sc:
                    target = sc[fn.name]
                    break
            if isinstance(target, _Callback):
                if len(args) != 1:
                    raise self.fail('callback with %d arguments' % len(args), n)
                target.f(self.value(args[0], env))
                return None
            if target is None and fn.name in self.cls.methods and len(args) == 1 and args[0].kind == 'Ident' and self.lookup(args[0].name, env, n) is _CB:
                return self.call(fn.name)
            raise self.fail('call of %s' % fn.name, n)
        if fn.kind == 'Select' and fn.obj.kind == 'Ident':
            recv = fn.obj.name
            bound = None
            for sc in reversed(env):
                if recv in sc:
                    bound = sc[recv]
                    break
            if bound is _CB:
                return self.cb(fn.name, targs, args, env, n)
            if bound is None and recv == 'Code':
                return self.code(fn.name, targs, args, env, n)
        if fn.kind == 'Select' and fn.name in ('ceq', 'cne') and len(args) == 1:
            return self.arith('==' if fn.name == 'ceq' else '!=', self.value(fn.obj, env), self.value(args[0], env), n)
        if fn.kind == 'Select' and fn.name == 'concat' and len(args) == 1:
            a, b = self.value(fn.obj, env), self.value(args[0], env)
            if type(a) is str and type(b) is str:
                return a + b
        raise self.fail('call outside the staged subset', n)

    def cb(self, name, targs, args, env, n):
        if name == 'memoize' and len(args) in (1, 2):
            v = self.value(args[0], env)
            if targs and _JTYPE.get(targs[0]) is not type(v):
                raise self.fail('memoize[%s] of a %s' % (targs[0], _kind(v)), n)
            return v
        if name == 'newLocal' and len(targs) == 1 and targs[0] in _JTYPE and len(args) in (1, 2):
            c = _Cell(targs[0], str(self.value(args[0], env)))
            if len(args) == 2:
                self.assign(c, self.value(args[1], env), n)
            return c
        if name == 'assign' and len(args) == 2:
            c = self.ev(args[0], env)
            if not isinstance(c, _Cell):
                raise self.fail('assignment to something that is not a local', n)
            self.assign(c, self.value(args[1], env), n)
            return None
        if name == 'if_' and len(args) in (2, 3):
            c = self.value(args[0], env)
            if type(c) is not bool:
                raise self.fail('if_ on a %s' % _kind(c), n)
            if c:
                self.ev(args[1], env)
            elif len(args) == 3:
                self.ev(args[2], env)
            return None
        if name == 'append' and len(args) == 1:
            self.ev(args[0], env)
            return None
        raise self.fail('cb.%s' % name, n)

    def assign(self, c, v, n):
        if _JTYPE[c.ty] is not type(v):
            raise self.fail('local %s: %s assigned a %s' % (c.name, c.ty, _kind(v)), n)
        c.value = v

    def code(self, name, targs, args, env, n):
        if name == '_fatal' and len(args) == 1:
            raise ScThrow('HailException', str(self.value(args[0], env)), n.line)
        if name.startswith('invokeScalaObject') and name[len('invokeScalaObject'):].isdigit():
            k = int(name[len('invokeScalaObject'):])
            if len(args) != k + 2 or len(targs) != k + 1:
                raise self.fail('%s with %d arguments / %d type arguments' % (name, len(args), len(targs)), n)
            o, m = args[0], args[1]
            if not (o.kind == 'Select' and o.name == 'getClass' and o.obj.kind == 'Ident' and o.obj.name in self.objs and m.kind == 'Lit' and m.ty == 'String'):
                raise self.fail('%s: receiver is not <loaded object>.getClass or the method name is not a literal' % name, n)
            obj = self.objs[o.obj.name]
            mname = m.value.strip('"')
            vals = [self.value(a, env) for a in args[2:]]
            for ty, v in zip(targs[:-1], vals):
                if _JTYPE.get(ty) is not type(v):
                    raise self.fail('%s: argument of type %s is a %s' % (name, ty, _kind(v)), n)
            f = obj.funcs.get(mname) or obj.funcs.get('%s/%d' % (mname, k))
            if f is None:
                raise self.fail('%s.%s is not a function of the loaded object' % (obj.name, mname), n)
            r = f.eval(*vals)
            if _JTYPE.get(targs[-1]) is not type(r):
                raise self.fail('%s.%s returned a %s, staged as %s' % (obj.name, mname, _kind(r), targs[-1]), n)
            return r
        if name == 'invokeStatic1' and targs == ['Math', 'Double', 'Double'] and len(args) == 2 and args[0].kind == 'Lit' and args[0].value.strip('"') == 'sqrt':
            x = self.value(args[1], env)
            if type(x) is not float:
                raise self.fail('Math.sqrt of a %s' % _kind(x), n)
            return float('nan') if (x != x or x < 0.0) else math.sqrt(x)  # java.lang.Math.sqrt: NaN for NaN / negative arguments
        raise self.fail('Code.%s' % name, n)


class _Callback:
    def __init__(self, f):
        self.f = f


class _TheCB:
    def __repr__(self):
        return '<cb>'


_CB = _TheCB()
_BINOP = scvc.ConcreteEval(None)
