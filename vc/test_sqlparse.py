"""Plain-assert tests for vc.sqlparse / vc.sqlast.

Run with:  python3-vt -m vc.test_sqlparse      (cwd = /verif)
"""
from __future__ import annotations

import os
import sys
import traceback

from .sqlparse import *           # noqa: F401,F403
from .sqlparse import (Parser, RawStmt, _migration_scripts_by_hand, _migration_scripts_yaml,
                       python_sql_strings, split_script, tokenize)

REPO = '/repo'


def E(s, **kw):
    return parse_expr(s, **kw)


def raises(fn, *args, cls=SqlUnsupported, contains=None, **kw):
    try:
        fn(*args, **kw)
    except cls as e:
        if contains is not None:
            assert contains in str(e), (contains, str(e))
        return e
    raise AssertionError('expected %s from %r%r' % (cls.__name__, fn, args))


def N(*parts):
    return Name(tuple(parts))


def I(v):
    return Lit(v, 'int')


# --------------------------------------------------------------------------
# tokenizer / splitter
# --------------------------------------------------------------------------

def test_tokenizer_basics():
    toks = tokenize("a.`b c` <> 'it''s\\n' # comment\n+ 1.5e3 -- x\n/* y\n */ @v := \"q\"")
    kinds = [(t.kind, t.value) for t in toks]
    assert kinds == [('ident', 'a'), ('op', '.'), ('ident', 'b c'), ('op', '<>'), ('str', "it's\n"),
                     ('op', '+'), ('num', '1.5e3'), ('uservar', 'v'), ('op', ':='), ('str', 'q'),
                     ('eof', None)], kinds
    assert toks[2].quoted and not toks[0].quoted
    assert [t.line for t in toks[:10]] == [1, 1, 1, 1, 1, 2, 2, 4, 4, 4]
    # '--' needs following whitespace to be a comment
    assert [t.value for t in tokenize('a --b')[:-1]] == ['a', '-', '-', 'b']
    # the line offset is honoured
    assert tokenize('\n\nx', line=10)[0].line == 12


def test_tokenizer_placeholders_and_holes():
    toks = tokenize("x = %s AND y = %(name)s AND z % 2 = %s", placeholders=True)
    got = [(t.kind, t.value) for t in toks if t.kind in ('param', 'nparam')]
    assert got == [('param', 0), ('nparam', 'name'), ('param', 1)], got
    # without placeholder mode % is just modulo and { is an error
    assert [t.kind for t in tokenize('a %s')[:-1]] == ['ident', 'op', 'ident']
    raises(tokenize, 'a = {x}', contains="'{'")
    # holes: nested braces and python strings inside
    t = tokenize("WHERE {' AND '.join(c)} AND t_{sfx}.x = {d['k']}", placeholders=True)
    holes = [x.value for x in t if x.kind == 'hole']
    assert holes == ["{' AND '.join(c)}", 't_{sfx}', "{d['k']}"], holes
    # %% is a literal percent sign for the driver
    assert [x.value for x in tokenize('a %% 2', placeholders=True)[:-1]] == ['a', '%', '2']
    # executable comments are refused, not skipped
    raises(tokenize, 'SELECT /*! STRAIGHT_JOIN */ 1', contains='executable comment')
    raises(tokenize, "SELECT 'abc", cls=SqlSyntaxError, contains='unterminated')


def test_delimiter_handling():
    src = ("DROP TRIGGER IF EXISTS t1;\n"
           "DELIMITER $$\n"
           "\n"
           "CREATE TRIGGER t1 BEFORE INSERT ON t FOR EACH ROW\n"
           "BEGIN\n"
           "  SET NEW.a = ';$$ in a string'; # comment with $$ and ;\n"
           "  SET NEW.b = `we;ird`;\n"
           "END $$\n"
           "\n"
           "CREATE PROCEDURE p() BEGIN SELECT 1; END$$\n"
           "delimiter ;\n"
           "SET x = 1; -- trailing\n"
           "SET y = 2")
    parts = split_script(src)
    assert [(p.first_line, p.last_line) for p in parts] == [(1, 1), (4, 8), (10, 10), (12, 12), (13, 13)], parts
    assert parts[1].text.startswith('CREATE TRIGGER t1') and parts[1].text.endswith('END')
    assert "';$$ in a string'" in parts[1].text
    assert parts[2].text == 'CREATE PROCEDURE p() BEGIN SELECT 1; END'
    assert parts[3].text == 'SET x = 1' and parts[4].text == 'SET y = 2'
    r = parse_routine(parts[1].text, 'f.sql', parts[1].first_line, parts[1].last_line)
    assert (r.kind, r.name, r.trigger_time, r.trigger_event, r.table) == ('trigger', 't1', 'BEFORE', 'INSERT', 't')
    assert (r.first_line, r.last_line, r.source_file) == (4, 8, 'f.sql')
    assert [s.line for s in r.body.stmts] == [6, 7]
    assert r.body.stmts[0] == Set([(N('NEW', 'a'), Lit(';$$ in a string', 'str'))])


def test_multi_statement_chunk():
    # under DELIMITER $$ a chunk may contain "DROP ...; CREATE ... END"
    from .sqlparse import _sub_statements
    src = "DELIMITER $$\nDROP TRIGGER IF EXISTS x;\nCREATE TRIGGER x AFTER DELETE ON t FOR EACH ROW\nBEGIN\n  SET @a = 1;\nEND $$\n"
    out = list(_sub_statements(split_script(src), 'f.sql'))
    assert len(out) == 2
    assert out[0][0].text == 'DROP TRIGGER IF EXISTS x' and out[0][1] is None and out[0][0].first_line == 2
    r = out[1][1]
    assert r.name == 'x' and (r.first_line, r.last_line) == (3, 6) and r.parse_error is None


# --------------------------------------------------------------------------
# expressions
# --------------------------------------------------------------------------

def test_precedence():
    a, b, c, d = N('a'), N('b'), N('c'), N('d')
    assert E('a OR b AND c') == BinOp('OR', a, BinOp('AND', b, c))
    assert E('a AND b OR c') == BinOp('OR', BinOp('AND', a, b), c)
    assert E('a OR b XOR c AND d') == BinOp('OR', a, BinOp('XOR', b, BinOp('AND', c, d)))
    assert E('NOT a AND b') == BinOp('AND', UnOp('NOT', a), b)
    assert E('NOT a = b') == UnOp('NOT', BinOp('=', a, b))
    assert E('! a = b') == BinOp('=', UnOp('!', a), b)
    assert E('a = b OR c') == BinOp('OR', BinOp('=', a, b), c)
    assert E('a | b & c') == BinOp('|', a, BinOp('&', b, c))
    assert E('a & b << c + d') == BinOp('&', a, BinOp('<<', b, BinOp('+', c, d)))
    assert E('a + b * c') == BinOp('+', a, BinOp('*', b, c))
    assert E('a - b - c') == BinOp('-', BinOp('-', a, b), c)
    assert E('a - (b - c)') == BinOp('-', a, BinOp('-', b, c))
    assert E('a * b DIV c MOD d % a') == BinOp('%', BinOp('MOD', BinOp('DIV', BinOp('*', a, b), c), d), a)
    assert E('-a * b') == BinOp('*', UnOp('-', a), b)
    assert E('a = b + 1 < c') == BinOp('<', BinOp('=', a, BinOp('+', b, I(1))), c)     # left assoc
    assert E('a = b IS NULL') == IsNull(BinOp('=', a, b))
    assert E('a = b IN (1, 2)') == BinOp('=', a, In(b, [I(1), I(2)]))                    # predicate binds tighter
    assert E('a != b') == BinOp('<>', a, b) == E('a <> b')
    assert E('a && b') == BinOp('AND', a, b)
    assert E('a <=> NULL') == BinOp('<=>', a, Lit(None, 'null'))
    # the expression from jobs_after_update
    e = E('(-1 * was_ready * (NOT was_cancelled)) + (now_ready * (NOT now_cancelled))')
    assert e == BinOp('+', BinOp('*', BinOp('*', UnOp('-', I(1)), N('was_ready')), UnOp('NOT', N('was_cancelled'))),
                      BinOp('*', N('now_ready'), UnOp('NOT', N('now_cancelled'))))
    # SET was_ready = old.state = 'Ready' : the right-hand side is a comparison
    s = parse_routine_body("SET was_ready = old.state = 'Ready'")
    assert s == Set([(N('was_ready'), BinOp('=', N('old', 'state'), Lit('Ready', 'str')))])
    # `:=` : the right side extends as far as possible
    assert E('@v := a + 1') == AssignExpr(UserVar('v'), BinOp('+', a, I(1)))
    assert E('-1 * (@v := COALESCE(SUM(a), 0))') == BinOp(
        '*', UnOp('-', I(1)), AssignExpr(UserVar('v'), Func('COALESCE', [Func('SUM', [a]), I(0)])))
    for bad in ('a || b', 'a ^ b', '~a', "a -> '$.x'", "a REGEXP 'x'", 'a = ANY (SELECT 1)', 'a COLLATE utf8_bin',
                "a LIKE 'x' ESCAPE '|'", 'BINARY a', "DATE '2020-01-01'", "'a' 'b'", 'GROUP_CONCAT(a SEPARATOR 1)'):
        raises(E, bad)
    for bad in ('a b', 'select', 'a +', '(a', 'a.b.c.d', 'f(1)(2)', 'CASE END'):
        raises(E, bad, cls=SqlSyntaxError)


def test_null_is_in_between_forms():
    a = N('a')
    assert E('a IS NULL') == IsNull(a, False)
    assert E('a IS NOT NULL') == IsNull(a, True)
    assert E('a IS NOT TRUE') == IsBool(a, 'TRUE', True)
    assert E('a < b IS NOT NULL') == IsNull(BinOp('<', a, N('b')), True)
    assert E('c.cancelled IS NOT NULL AND x') == BinOp('AND', IsNull(N('c', 'cancelled'), True), N('x'))
    assert E("a IN ('x', 'y')") == In(a, [Lit('x', 'str'), Lit('y', 'str')], False)
    assert E('a NOT IN (1)') == In(a, [I(1)], True)
    q = E('a IN (SELECT x FROM t)')
    assert isinstance(q, In) and isinstance(q.items, Select) and q.items.from_ == TableRef('t')
    assert E('a NOT IN %s') == In(a, Param(0), True)
    assert E('(a, b) IN ((1, 2), (3, 4))') == In(Tuple([a, N('b')]), [Tuple([I(1), I(2)]), Tuple([I(3), I(4)])])
    assert E('(a, b) > (%s, %s)') == BinOp('>', Tuple([a, N('b')]), Tuple([Param(0), Param(1)]))
    assert E('a BETWEEN 1 AND 2 AND c') == BinOp('AND', Between(a, I(1), I(2)), N('c'))
    assert E('a NOT BETWEEN b + 1 AND 9') == Between(a, BinOp('+', N('b'), I(1)), I(9), True)
    assert E("a NOT LIKE 'x%'") == UnOp('NOT', BinOp('LIKE', a, Lit('x%', 'str')))
    assert E('NOT EXISTS (SELECT 1) AND a') == BinOp('AND', Exists(E('(SELECT 1)').select, True), a)
    assert E('EXISTS (SELECT 1)') == Exists(Select([SelectCol(I(1))]), False)
    # SUM over a boolean IN (commit_batch_update)
    e = E("COALESCE(SUM(state IN ('Pending', 'Ready')), 0)")
    assert e == Func('COALESCE', [Func('SUM', [In(N('state'), [Lit('Pending', 'str'), Lit('Ready', 'str')])]), I(0)])
    assert E('NULL') == Lit(None, 'null') and E('TRUE') == Lit(True, 'bool') and E('1') != E('TRUE')


def test_functions_case_cast():
    assert E('COUNT(*)') == Func('COUNT', [], False, True)
    assert E('count(distinct a)') == Func('COUNT', [N('a')], True)
    assert E('is_job_cancelled(x, 1)').name == 'IS_JOB_CANCELLED'
    assert E('is_job_cancelled(x, 1)').raw_name == 'is_job_cancelled'
    assert E("IF(a > 0, 'r', t.s)") == Func('IF', [BinOp('>', N('a'), I(0)), Lit('r', 'str'), N('t', 's')])
    assert E('CAST(COALESCE(SUM(n), 0) AS SIGNED)') == Cast(Func('COALESCE', [Func('SUM', [N('n')]), I(0)]), SqlType('SIGNED'))
    assert E('CAST(UTC_DATE() AS DATE)') == Cast(Func('UTC_DATE'), SqlType('DATE'))
    assert E('CURRENT_TIMESTAMP') == Func('CURRENT_TIMESTAMP')
    assert E('CASE WHEN a THEN 1 ELSE 2 END') == Case(None, [(N('a'), I(1))], I(2))
    assert E("CASE x WHEN 1 THEN 'a' END") == Case(N('x'), [(I(1), Lit('a', 'str'))], None)
    assert E('x + INTERVAL 1 DAY') == BinOp('+', N('x'), Interval(I(1), 'DAY'))
    w = E('ROW_NUMBER() OVER (PARTITION BY u ORDER BY a, b DESC) DIV 3')
    assert w == BinOp('DIV', Func('ROW_NUMBER', over=WindowSpec([N('u')], [(N('a'), 'ASC'), (N('b'), 'DESC')])), I(3))
    raises(E, 'SUM(a) OVER w')
    assert E('1.50').kind == 'float' and E('1.50').raw == '1.50' and E('7').value == 7


def test_printer_roundtrip_and_same_expr():
    for s in ['a OR b AND c', '(a OR b) AND c', 'NOT (a AND b)', 'NOT a = b', '(NOT a) = b', 'a - (b - c)', '-(-a)',
              '- (a + b)', 'a = (b = c)', '(a = b) = c', '(a IS NULL) IS NOT NULL', 'a * (b + c) DIV d',
              '-1 * (@n := COALESCE(SUM(x), 0))', '(@n := 1) + 1', "a LIKE CONCAT(b, '%')", 'x + INTERVAL (a + 1) HOUR',
              'a IN (1, 2) = b', '(a, b) IN ((1, 2))', 'NOT EXISTS (SELECT 1 FROM t) AND c', "`key` = 'it''s\\n\\\\'",
              'CASE WHEN a THEN 1 END + 1', 'a BETWEEN (b OR c) AND d', '(a BETWEEN 1 AND 2) BETWEEN 3 AND 4',
              '(SELECT MAX(x) FROM t WHERE t.y = o.y) + 1', 'CAST(a = 1 AS SIGNED)', '`select`.`from`']:
        e = E(s)
        again = E(e.to_sql())
        assert again == e, (s, e.to_sql())
        assert same_expr(e, again)
    assert same_expr(E('a  AND\n b'), E('(a) and (b)'))
    assert same_expr(E('coalesce(x, 0)'), E('COALESCE( x , 0 )'))
    assert same_expr(E('NEW.batch_id = old.Batch_ID'), E('new.batch_id = OLD.batch_id'))
    assert not same_expr(E('NEW.batch_id'), E('new.batch_id'), case_sensitive_names=True)
    assert not same_expr(E("'Ready'"), E("'ready'"))
    assert not same_expr(E('a + b'), E('b + a'))
    assert not same_expr(E('1'), E('TRUE'))
    n = E('Jobs.State')
    assert n.parts == ('Jobs', 'State') and n.lower == ('jobs', 'state') and n.last == 'State' and n.qualifier == 'Jobs'


def test_walk_children_lines():
    e = E('a +\n f(b,\n CASE WHEN c THEN d END)')
    names = [n.parts[0] for n in e.walk() if isinstance(n, Name)]
    assert names == ['a', 'b', 'c', 'd'], names
    assert [n.line for n in e.walk() if isinstance(n, Name)] == [1, 2, 3, 3]
    assert e.children()[0] == N('a') and isinstance(e.children()[1], Func)
    assert [type(x).__name__ for x in e.find(Case)] == ['Case']
    s = parse_statement('UPDATE t SET a = 1, b = c WHERE d')
    assert [n.parts[0] for n in s.walk() if isinstance(n, Name)] == ['a', 'b', 'c', 'd']


# --------------------------------------------------------------------------
# queries and DML
# --------------------------------------------------------------------------

def test_select_forms():
    s = parse_routine_body('SELECT user, `state` INTO cur_user, cur_state FROM job_groups '
                           'WHERE batch_id = in_batch_id AND job_group_id = 0 FOR UPDATE')
    q = s.select
    assert isinstance(s, SelectStmt) and q.into == [N('cur_user'), N('cur_state')] == s.into
    assert [c.expr for c in q.columns] == [N('user'), N('state')]
    assert q.from_ == TableRef('job_groups') and q.locking == 'FOR UPDATE'
    # INTO after the select list with no FROM, FOR SHARE
    q = parse_routine_body('SELECT is_job_cancelled(a, b) INTO c FOR SHARE').select
    assert q.into == [N('c')] and q.from_ is None and q.locking == 'FOR SHARE'
    q = parse_routine_body('SELECT n_tokens INTO cur FROM globals LOCK IN SHARE MODE').select
    assert q.locking == 'LOCK IN SHARE MODE'
    # result-set select with aliases
    q = parse_routine_body("SELECT 1 as rc, cur_state, 'msg' message").select
    assert q.into == [] and [c.alias for c in q.columns] == ['rc', None, 'message']
    q = parse_statement('SELECT DISTINCT STRAIGHT_JOIN t.*, * FROM t a, u WHERE x GROUP BY a.b, 2 HAVING n > 1 '
                        'ORDER BY a.b DESC, c LIMIT 5, 10 FOR UPDATE SKIP LOCKED').select
    assert q.distinct and q.modifiers == ['STRAIGHT_JOIN']
    assert [c.expr for c in q.columns] == [Star('t'), Star(None)]
    assert q.from_ == Join('CROSS', TableRef('t', 'a'), TableRef('u'), comma=True)
    assert q.order_by == [(N('a', 'b'), 'DESC'), (N('c'), 'ASC')]
    assert (q.limit, q.offset) == (I(10), I(5)) and q.lock_option == 'SKIP LOCKED'
    q = parse_statement('SELECT a FROM t LIMIT %s OFFSET %s').select
    assert (q.limit, q.offset) == (Param(0), Param(1))
    q = parse_statement('SELECT a FROM jobs FORCE INDEX(i1, PRIMARY) IGNORE INDEX (i2) WHERE b').select
    assert q.from_.index_hints == [IndexHint('FORCE', ('i1', 'PRIMARY')), IndexHint('IGNORE', ('i2',))]
    q = parse_statement('SELECT a FROM INFORMATION_SCHEMA.KEY_COLUMN_USAGE k').select
    assert (q.from_.schema, q.from_.name, q.from_.alias) == ('INFORMATION_SCHEMA', 'KEY_COLUMN_USAGE', 'k')
    raises(parse_statement, 'SELECT a FROM t WHERE x FOR UPDATE OF t')
    raises(parse_statement, 'SELECT a FROM t GROUP BY a WITH ROLLUP')
    raises(parse_statement, 'SELECT a FROM t NATURAL JOIN u')
    raises(parse_statement, 'SELECT a FROM (SELECT 1)', cls=SqlSyntaxError, contains='alias')
    raises(parse_statement, 'SELECT a INTO @x FROM t UNION SELECT 2')


def test_joins_and_lateral():
    q = parse_routine_body('''RETURN (
        SELECT NOT j.always_run AND (j.cancelled OR c.cancelled IS NOT NULL)
        FROM jobs AS j
        LEFT JOIN LATERAL (
          SELECT 1 AS cancelled
          FROM job_group_self_and_ancestors AS self
          INNER JOIN job_groups_cancelled AS c ON self.batch_id = c.id AND self.ancestor_id = c.job_group_id
          WHERE self.batch_id = j.batch_id
        ) AS c ON TRUE
        WHERE j.batch_id = batch_id)''')
    assert isinstance(q, Return) and isinstance(q.expr, Subquery)
    sel = q.expr.select
    j = sel.from_
    assert isinstance(j, Join) and j.kind == 'LEFT' and j.on == Lit(True, 'bool')
    assert j.left == TableRef('jobs', 'j')
    assert isinstance(j.right, SubqueryRef) and j.right.lateral and j.right.alias == 'c'
    inner = j.right.select.from_
    assert inner.kind == 'INNER' and inner.right == TableRef('job_groups_cancelled', 'c')
    assert [t.ref_name for t in inner.tables()] == ['self', 'c']
    assert sel.columns[0].expr == BinOp('AND', UnOp('NOT', N('j', 'always_run')),
                                        BinOp('OR', N('j', 'cancelled'), IsNull(N('c', 'cancelled'), True)))
    # left-assoc join chain, JOIN == INNER JOIN, STRAIGHT_JOIN, USING, nested parens
    f = parse_statement('SELECT 1 FROM a JOIN b ON a.x = b.x LEFT OUTER JOIN c USING (x, y) STRAIGHT_JOIN d ON TRUE '
                        'CROSS JOIN (e JOIN f ON e.i = f.i)').select.from_
    assert f.kind == 'CROSS' and isinstance(f.right, Join) and f.right.kind == 'INNER'
    assert f.left.kind == 'STRAIGHT' and f.left.left.kind == 'LEFT' and f.left.left.using == ['x', 'y']
    assert f.left.left.left == Join('INNER', TableRef('a'), TableRef('b'), BinOp('=', N('a', 'x'), N('b', 'x')))
    # comma binds looser than JOIN
    f = parse_statement('SELECT 1 FROM a, b JOIN c ON b.x = c.x').select.from_
    assert f.comma and f.left == TableRef('a') and f.right.kind == 'INNER'
    raises(parse_statement, 'SELECT 1 FROM a LEFT JOIN b', cls=SqlSyntaxError)
    raises(parse_statement, 'SELECT 1 FROM a JOIN LATERAL b ON TRUE', cls=SqlSyntaxError)


def test_uservar_assign_in_select_list():
    s = parse_routine_body('''INSERT INTO user_inst_coll_resources (user, inst_coll, token, n_ready_jobs, ready_cores_mcpu)
        SELECT user, inst_coll, 0,
          @n_ready_jobs := CAST(COALESCE(SUM(n_ready_jobs), 0) AS SIGNED),
          -1 * (@ready_cores_mcpu := COALESCE(SUM(ready_cores_mcpu), 0))
        FROM job_groups_inst_coll_staging
        JOIN batches ON batches.id = job_groups_inst_coll_staging.batch_id
        WHERE batch_id = in_batch_id
        GROUP BY `user`, inst_coll
        FOR UPDATE
        ON DUPLICATE KEY UPDATE
          n_ready_jobs = n_ready_jobs + @n_ready_jobs,
          ready_cores_mcpu = ready_cores_mcpu - @ready_cores_mcpu''')
    assert isinstance(s, Insert) and isinstance(s.source, Select)
    cols = s.source.columns
    assert cols[3].expr == AssignExpr(UserVar('n_ready_jobs'),
                                      Cast(Func('COALESCE', [Func('SUM', [N('n_ready_jobs')]), I(0)]), SqlType('SIGNED')))
    assert cols[4].expr == BinOp('*', UnOp('-', I(1)), AssignExpr(
        UserVar('ready_cores_mcpu'), Func('COALESCE', [Func('SUM', [N('ready_cores_mcpu')]), I(0)])))
    assert s.source.locking == 'FOR UPDATE' and s.source.group_by == [N('user'), N('inst_coll')]
    assert s.on_duplicate == [
        (N('n_ready_jobs'), BinOp('+', N('n_ready_jobs'), UserVar('n_ready_jobs'))),
        (N('ready_cores_mcpu'), BinOp('-', N('ready_cores_mcpu'), UserVar('ready_cores_mcpu')))]
    assert s.columns == ['user', 'inst_coll', 'token', 'n_ready_jobs', 'ready_cores_mcpu']


def test_insert_forms():
    s = parse_routine_body('''INSERT INTO t (a, `usage`) VALUES (cur, NEW.q * m), (DEFAULT, 2)
                              ON DUPLICATE KEY UPDATE `usage` = `usage` + NEW.q * m, a = VALUES(a)''')
    assert s == Insert('t', ['a', 'usage'],
                       [[N('cur'), BinOp('*', N('NEW', 'q'), N('m'))], [N('DEFAULT'), I(2)]],
                       [(N('usage'), BinOp('+', N('usage'), BinOp('*', N('NEW', 'q'), N('m')))),
                        (N('a'), Func('VALUES', [N('a')]))], False)
    s = parse_statement('INSERT IGNORE INTO t VALUES (%s, %s)')
    assert s.ignore and s.columns is None and s.source == [[Param(0), Param(1)]]
    s = parse_statement('INSERT INTO t (a) VALUES (%s) AS new_row ON DUPLICATE KEY UPDATE a = new_row.a')
    assert s.row_alias == 'new_row' and s.on_duplicate == [(N('a'), N('new_row', 'a'))]
    s = parse_statement('INSERT INTO t SET a = 1, b = %s')
    assert s.columns == ['a', 'b'] and s.source == [[I(1), Param(0)]]
    s = parse_statement('INSERT INTO t (a) (SELECT 1) UNION ALL (SELECT 2)')
    assert isinstance(s.source, Union) and s.source.all_flags == [True]
    s = parse_statement('REPLACE INTO t (a) VALUES (1)')
    assert s.replace
    raises(parse_statement, 'INSERT INTO t (a) VALUES (1) ON DUPLICATE KEY a = 1', cls=SqlSyntaxError)
    raises(parse_statement, 'INSERT INTO t PARTITION (p) VALUES (1)')


def test_update_delete_forms():
    s = parse_routine_body('''UPDATE jobs
      LEFT JOIN `jobs_telemetry` ON `jobs_telemetry`.batch_id = jobs.batch_id AND `jobs_telemetry`.job_id = jobs.job_id
      INNER JOIN `job_parents` ON jobs.batch_id = `job_parents`.batch_id AND jobs.job_id = `job_parents`.job_id
      SET jobs.state = IF(jobs.n_pending_parents = 1, 'Ready', 'Pending'),
          jobs.n_pending_parents = jobs.n_pending_parents - 1,
          jobs_telemetry.time_ready = new_timestamp
      WHERE jobs.batch_id = in_batch_id AND `job_parents`.parent_id = in_job_id''')
    assert isinstance(s, Update) and isinstance(s.tables, Join) and s.tables.kind == 'INNER'
    assert [t.name for t in s.tables.tables()] == ['jobs', 'jobs_telemetry', 'job_parents']
    assert [t.to_sql() for t, _ in s.assignments] == ['jobs.state', 'jobs.n_pending_parents', 'jobs_telemetry.time_ready']
    assert s.assignments[1][1] == BinOp('-', N('jobs', 'n_pending_parents'), I(1))
    assert s.where.op == 'AND'
    # join against a derived table, SET after the joins, no WHERE
    s = parse_routine_body('''UPDATE job_groups
        INNER JOIN (SELECT batch_id, job_group_id, CAST(COALESCE(SUM(n_jobs), 0) AS SIGNED) AS staged_n_jobs
                    FROM staging WHERE batch_id = in_batch_id GROUP BY batch_id, job_group_id) AS t
          ON job_groups.batch_id = t.batch_id AND job_groups.job_group_id = t.job_group_id
        SET `state` = IF(t.staged_n_jobs > 0, 'running', job_groups.state), time_completed = NULL''')
    assert isinstance(s.tables.right, SubqueryRef) and s.tables.right.alias == 't' and s.where is None
    assert s.assignments[1] == (N('time_completed'), Lit(None, 'null'))
    s = parse_statement('UPDATE t SET a = a + 1 WHERE b = %s ORDER BY c DESC LIMIT 10')
    assert s.tables == TableRef('t') and s.order_by == [(N('c'), 'DESC')] and s.limit == I(10)
    raises(parse_statement, 'UPDATE a JOIN b ON TRUE SET x = 1 LIMIT 1', cls=SqlSyntaxError)
    d = parse_statement('DELETE FROM t WHERE a = %s ORDER BY b LIMIT 5')
    assert d == Delete('t', None, BinOp('=', N('a'), Param(0)), [(N('b'), 'ASC')], I(5))
    d = parse_statement('DELETE FROM t AS x WHERE x.a')
    assert d.alias == 'x'
    d = parse_statement('DELETE t1, t2 FROM t1 INNER JOIN t2 ON t1.a = t2.a WHERE t1.b')
    assert d.targets == ['t1', 't2'] and d.table == 't1' and d.using.kind == 'INNER'
    d = parse_statement('DELETE FROM t1 USING t1 LEFT JOIN t2 ON t1.a = t2.a WHERE t2.a IS NULL')
    assert d.targets == ['t1'] and d.using.kind == 'LEFT' and d.where == IsNull(N('t2', 'a'))


def test_union_with_window():
    u = parse_statement('(SELECT a FROM t ORDER BY a LIMIT 3) UNION (SELECT b FROM u) ORDER BY 1 DESC LIMIT 2').select
    assert isinstance(u, Union) and u.all_flags == [False] and u.limit == I(2) and u.order_by == [(I(1), 'DESC')]
    assert u.selects[0].limit == I(3) and u.selects[1].limit is None
    # an unparenthesised trailing ORDER BY/LIMIT belongs to the whole union
    u = parse_statement('SELECT a FROM t UNION ALL SELECT b FROM u ORDER BY 1 LIMIT 2').select
    assert u.all_flags == [True] and u.limit == I(2) and u.selects[1].limit is None and u.selects[1].order_by == []
    raises(parse_statement, 'SELECT a FROM t LIMIT 1 UNION SELECT b FROM u', cls=SqlSyntaxError)
    w = parse_statement('WITH x AS (SELECT 1 AS a), y AS ({q}) SELECT a FROM x JOIN y USING (a)').select
    assert isinstance(w, With) and [n for n, _ in w.ctes] == ['x', 'y'] and w.ctes[1][1] == Hole('{q}')
    raises(parse_statement, 'WITH RECURSIVE x AS (SELECT 1) SELECT * FROM x')


def test_placeholders_and_holes_in_statements():
    stmts = parse_statements('''
        UPDATE attempts SET rollup_time = %s {where_query};
        SELECT a.{cond}, {n} AS k FROM {tbl} AS a JOIN t_{sfx} b ON TRUE WHERE x = %(name)s AND {' AND '.join(w)} LIMIT {lim};
        DELETE FROM t WHERE id IN %s;
    ''')
    assert len(stmts) == 3
    up, sel, de = stmts
    assert up.assignments == [(N('rollup_time'), Param(0))] and up.where == Hole('{where_query}', True)
    q = sel.select
    assert q.columns[0].expr == Hole('a.{cond}') and q.columns[1] == SelectCol(Hole('{n}'), 'k')
    assert q.from_.left == HoleRef('{tbl}', 'a') and q.from_.right == HoleRef('t_{sfx}', 'b')
    assert q.where == BinOp('AND', BinOp('=', N('x'), NamedParam('name')), Hole("{' AND '.join(w)}"))
    assert q.limit == Hole('{lim}')
    assert de.where == In(N('id'), Param(1))        # numbering continues across statements
    assert parse_statement('CALL cancel_batch(%s)') == Call('cancel_batch', [Param(0)])
    assert sel.to_sql() == parse_statement(sel.to_sql()).to_sql()
    raises(parse_statement, 'SELECT 1; SELECT 2', cls=SqlSyntaxError, contains='exactly one')
    # procedural statements are refused outside routine bodies
    for bad in ('BEGIN', 'IF a THEN SELECT 1; END IF', 'DECLARE x INT', 'lbl: LOOP LEAVE lbl; END LOOP'):
        raises(parse_statement, bad)
    for bad in ('LOCK TABLES t WRITE', 'SET GLOBAL x = 1', 'TRUNCATE t', 'SHOW TABLES', 'SELECT @@version'):
        raises(parse_statement, bad)


# --------------------------------------------------------------------------
# procedural statements
# --------------------------------------------------------------------------

CURSOR_PROC = '''CREATE PROCEDURE mark_job_group_complete(
  IN in_batch_id BIGINT,
  INOUT in_job_group_id INT,
  OUT new_timestamp BIGINT
)
BEGIN
  DECLARE cursor_job_group_id INT;
  DECLARE done BOOLEAN DEFAULT FALSE;
  DECLARE a, b VARCHAR(40) DEFAULT 'x';

  DECLARE job_group_cursor CURSOR FOR
  SELECT ancestor_id
  FROM job_group_self_and_ancestors
  WHERE batch_id = in_batch_id AND job_group_id = in_job_group_id
  ORDER BY ancestor_id ASC;

  DECLARE CONTINUE HANDLER FOR NOT FOUND SET done = TRUE;
  DECLARE EXIT HANDLER FOR SQLEXCEPTION, SQLSTATE '23000', 1062
  BEGIN
    ROLLBACK;
  END;

  OPEN job_group_cursor;
  update_job_group_loop: LOOP
    FETCH job_group_cursor INTO cursor_job_group_id;

    IF done THEN
      LEAVE update_job_group_loop;
    ELSEIF a = 'y' THEN
      ITERATE update_job_group_loop;
    ELSE
      SET a = 'z', @u = 1;
    END IF;
  END LOOP update_job_group_loop;
  CLOSE job_group_cursor;

  WHILE a < 3 DO
    SET a = a + 1;
  END WHILE;
  w2: REPEAT
    SET a = a - 1;
  UNTIL a = 0 END REPEAT w2;
  inner_block: BEGIN
    START TRANSACTION;
    CALL other(a, @u);
    COMMIT;
  END inner_block;
END'''


def test_cursors_handlers_loops():
    r = parse_routine(CURSOR_PROC, 'x.sql', 100)
    assert r.kind == 'procedure' and r.name == 'mark_job_group_complete'
    assert [(p.mode, p.name, p.type.base) for p in r.params] == [
        ('IN', 'in_batch_id', 'BIGINT'), ('INOUT', 'in_job_group_id', 'INT'), ('OUT', 'new_timestamp', 'BIGINT')]
    assert (r.first_line, r.body_line, r.last_line) == (100, 105, 147)
    b = r.body
    assert isinstance(b, Block) and b.label is None
    kinds = [type(s).__name__ for s in b.stmts]
    assert kinds == ['Declare', 'Declare', 'Declare', 'DeclareCursor', 'DeclareHandler', 'DeclareHandler', 'Open',
                     'Loop', 'Close', 'While', 'Repeat', 'Block'], kinds
    assert b.stmts[1] == Declare(['done'], SqlType('BOOLEAN'), Lit(False, 'bool'))
    assert b.stmts[2] == Declare(['a', 'b'], SqlType('VARCHAR', ('40',)), Lit('x', 'str'))
    cur = b.stmts[3]
    assert cur.name == 'job_group_cursor' and cur.select.order_by == [(N('ancestor_id'), 'ASC')] and cur.line == 110
    h = b.stmts[4]
    assert (h.kind, h.conditions, h.condition) == ('CONTINUE', ('NOT FOUND',), 'NOT FOUND')
    assert h.stmt == Set([(N('done'), Lit(True, 'bool'))])
    h2 = b.stmts[5]
    assert h2.kind == 'EXIT' and h2.conditions == ('SQLEXCEPTION', "SQLSTATE '23000'", '1062')
    assert h2.stmt == Block(None, [Rollback()])
    loop = b.stmts[7]
    assert loop.label == 'update_job_group_loop' and loop.line == 123
    assert loop.body.stmts[0] == Fetch('job_group_cursor', [N('cursor_job_group_id')])
    iff = loop.body.stmts[1]
    assert [c for c, _ in iff.branches] == [N('done'), BinOp('=', N('a'), Lit('y', 'str'))]
    assert iff.branches[0][1].stmts == [Leave('update_job_group_loop')]
    assert iff.branches[1][1].stmts == [Iterate('update_job_group_loop')]
    assert iff.orelse.stmts == [Set([(N('a'), Lit('z', 'str')), (UserVar('u'), I(1))])]
    assert b.stmts[9] == While(None, BinOp('<', N('a'), I(3)), Block(None, [Set([(N('a'), BinOp('+', N('a'), I(1)))])]))
    assert b.stmts[10].label == 'w2' and b.stmts[10].until == BinOp('=', N('a'), I(0))
    assert b.stmts[11] == Block('inner_block', [StartTransaction(), Call('other', [N('a'), UserVar('u')]), Commit()])
    assert len(r.statements()) == 26
    # printing and re-parsing gives the same tree
    assert parse_routine_body(b.to_sql()) == b
    assert r.header_sql().startswith('CREATE PROCEDURE mark_job_group_complete(IN in_batch_id BIGINT, INOUT')
    # mismatching end label, missing semicolon, stray statement after END
    raises(parse_routine, 'CREATE PROCEDURE p() BEGIN a: LOOP LEAVE a; END LOOP b; END', cls=SqlSyntaxError, contains='label')
    raises(parse_routine, 'CREATE PROCEDURE p() BEGIN SELECT 1 END', cls=SqlSyntaxError)
    raises(parse_routine, 'CREATE PROCEDURE p() BEGIN SELECT 1; END; SELECT 2', cls=SqlSyntaxError)
    for bad in ('DROP TEMPORARY TABLE IF EXISTS x', 'CREATE TEMPORARY TABLE x AS (SELECT 1)', 'PREPARE s FROM @q',
                'RESIGNAL', 'CASE a WHEN 1 THEN SELECT 1; END CASE', 'DECLARE c CONDITION FOR SQLSTATE \'45000\'',
                'DECLARE UNDO HANDLER FOR SQLEXCEPTION SET a = 1', 'BEGIN'):
        e = raises(parse_routine, 'CREATE PROCEDURE p()\nBEGIN\n  %s;\nEND' % bad, 'f.sql', 10)
        assert e.file == 'f.sql' and e.line == 12, (bad, e.file, e.line)


def test_signal_and_functions():
    r = parse_routine('''CREATE TRIGGER jobs_before_insert BEFORE INSERT ON jobs
FOR EACH ROW
BEGIN
    IF is_job_group_cancelled(NEW.batch_id, NEW.job_group_id)
    THEN
      SIGNAL SQLSTATE '45000'
      SET MESSAGE_TEXT = "job group has already been cancelled", MYSQL_ERRNO = 1644;
    END IF;
END''')
    sig = r.body.stmts[0].branches[0][1].stmts[0]
    assert sig == Signal('45000', [('MESSAGE_TEXT', Lit('job group has already been cancelled', 'str')),
                                   ('MYSQL_ERRNO', I(1644))])
    assert sig.line == 6 and 'SIGNAL SQLSTATE \'45000\' SET MESSAGE_TEXT' in sig.to_sql()
    assert parse_routine_body('SIGNAL my_condition') == Signal(None, [], 'my_condition')
    f = parse_routine('''CREATE FUNCTION is_batch_cancelled (batch_id BIGINT)
RETURNS BOOLEAN NOT DETERMINISTIC READS SQL DATA
RETURN EXISTS (SELECT 1 FROM job_groups_cancelled AS c WHERE c.id = batch_id AND c.job_group_id = 0)''')
    assert f.kind == 'function' and f.returns == SqlType('BOOLEAN')
    assert f.characteristics == ('NOT DETERMINISTIC', 'READS SQL DATA')
    assert [(p.mode, p.name) for p in f.params] == [('IN', 'batch_id')]
    assert isinstance(f.body, Return) and isinstance(f.body.expr, Exists)
    assert f.body.expr.select.from_ == TableRef('job_groups_cancelled', 'c')
    raises(parse_routine, 'CREATE TRIGGER t AFTER UPDATE ON x FOR EACH ROW FOLLOWS y SET @a = 1')
    raises(parse_routine, 'CREATE PROCEDURE p(a NOSUCHTYPE) SELECT 1')


# --------------------------------------------------------------------------
# DDL replay on synthetic input
# --------------------------------------------------------------------------

def test_ddl_replay_synthetic():
    from .sqlparse import _DDL
    d = _DDL()
    dropped, renamed = [], []
    d.on_drop = lambda t, f, l: dropped.append(t)
    d.on_rename = lambda a, b, f, l: renamed.append((a, b))

    def run(sql):
        for rs in split_script(sql):
            assert d.apply(rs.text, 'syn.sql', rs.first_line), rs.text

    run('''
    CREATE TABLE IF NOT EXISTS `t` (
      `id` BIGINT NOT NULL AUTO_INCREMENT,
      `name` VARCHAR(100) NOT NULL COLLATE utf8mb4_0900_as_cs,
      `state` ENUM('a', 'b') NOT NULL DEFAULT 'a',
      `n` INT(11) UNSIGNED DEFAULT 0,
      `ts` TIMESTAMP(3) DEFAULT CURRENT_TIMESTAMP(3) ON UPDATE CURRENT_TIMESTAMP(3),
      `g` INT GENERATED ALWAYS AS (n + 1) STORED,
      `token` VARCHAR(40) UNIQUE,
      `x` DOUBLE,
      PRIMARY KEY (`id`),
      UNIQUE KEY (`name`, `state`),
      KEY `t_n` (`n`, `name`(20)),
      CONSTRAINT fk1 FOREIGN KEY (`n`) REFERENCES u(id) ON DELETE CASCADE,
      FOREIGN KEY (`x`) REFERENCES u (x),
      CHECK (n >= 0)
    ) ENGINE = InnoDB DEFAULT CHARSET=utf8mb4;
    ''')
    t = d.tables['t']
    assert list(t.columns) == ['id', 'name', 'state', 'n', 'ts', 'g', 'token', 'x']
    assert t.primary_key == ('id',) and t.columns['id'].auto_increment and not t.columns['id'].nullable
    c = t.columns['state']
    assert (c.type, c.type_args, c.nullable, c.default) == ('ENUM', ("'a'", "'b'"), False, "'a'")
    c = t.columns['n']
    assert (c.type, c.type_args, c.unsigned, c.nullable, c.default) == ('INT', ('11',), True, True, '0')
    assert t.columns['ts'].default == 'CURRENT_TIMESTAMP(3)'
    assert t.columns['g'].generated and t.columns['g'].generated_expr == '(n + 1)'
    assert t.unique_keys == {'token': ('token',), 'name': ('name', 'state')}
    assert t.indexes == {'t_n': ('n', 'name')}
    assert [(f.name, f.columns, f.ref_table, f.on_delete) for f in t.foreign_keys] == [
        ('fk1', ('n',), 'u', 'CASCADE'), ('t_ibfk_1', ('x',), 'u', None)]
    assert len(t.unparsed) == 1 and 'CHECK' in t.unparsed[0]
    run('''
    ALTER TABLE t ADD COLUMN a INT NOT NULL DEFAULT 1 AFTER id, ADD b BOOLEAN DEFAULT FALSE FIRST, ALGORITHM=INSTANT;
    ALTER TABLE t MODIFY COLUMN a BIGINT, CHANGE COLUMN `x` `y` VARCHAR(40) NOT NULL, LOCK=NONE;
    ALTER TABLE t DROP PRIMARY KEY, ADD PRIMARY KEY (`id`, a), DROP INDEX t_n, DROP FOREIGN KEY fk1, ALGORITHM=INPLACE;
    ALTER TABLE t RENAME COLUMN token TO tok, RENAME INDEX token TO tok_idx;
    ALTER TABLE t DROP COLUMN state;
    CREATE UNIQUE INDEX u2 ON t (b, a);
    CREATE INDEX i3 ON `t` (`tok`(256));
    DROP INDEX i3 ON t;
    ALTER TABLE t ENGINE = MyISAM;
    ALTER TABLE t RENAME TO t2;
    ''')
    t = d.tables['t2']
    assert 't' not in d.tables and t.name == 't2' and renamed == [('t', 't2')]
    assert list(t.columns) == ['b', 'id', 'a', 'name', 'n', 'ts', 'g', 'tok', 'y']
    assert t.primary_key == ('id', 'a')
    assert (t.columns['a'].type, t.columns['a'].nullable, t.columns['a'].default) == ('BIGINT', False, None)  # PK => NOT NULL
    assert (t.columns['y'].type, t.columns['y'].nullable) == ('VARCHAR', False)
    assert t.unique_keys == {'tok_idx': ('tok',), 'name': ('name',), 'u2': ('b', 'a')}
    assert t.indexes == {}
    assert [(f.name, f.columns) for f in t.foreign_keys] == [('t_ibfk_1', ('y',))]
    assert any('ENGINE' in u for u in t.unparsed), t.unparsed
    run('RENAME TABLE t2 TO t3, t3 TO t4; CREATE TEMPORARY TABLE tmp AS (SELECT 1); DROP TABLE IF EXISTS nope, t4;')
    assert list(d.tables) == ['tmp'] and dropped == ['t4'] and 'tmp' in d.temporary
    assert d.tables['tmp'].unparsed and 'AS SELECT' in d.tables['tmp'].unparsed[0]
    # garbage DDL is noted, never raised; non-DDL is declined
    n0 = len(d.notes)
    assert d.apply('ALTER TABLE nosuch ADD COLUMN a INT', 'syn.sql', 1)
    assert d.apply('CREATE TABLE q (a INT', 'syn.sql', 1)
    assert len(d.notes) == n0 + 2
    assert not d.apply('INSERT INTO t VALUES (1)', 'syn.sql', 1)
    assert not d.apply('SET foreign_key_checks = 0', 'syn.sql', 1)


# --------------------------------------------------------------------------
# the real repository
# --------------------------------------------------------------------------

def test_migration_files():
    files = migration_files(REPO)
    names = [os.path.basename(f) for f in files]
    assert len(files) == 122 and len(set(files)) == 122
    assert names[0] == '000-initial.sql' and names[1] == '001-insert_globals.py'
    assert names[-1] == '120-add-dockerhub-proxy-flag.sql'
    assert names.index('050-add-nonpreemptible-pools.sql') + 1 == names.index('050a-add-pool-label.sql')
    assert names.index('050a-add-pool-label.sql') + 1 == names.index('051-set-test-and-dev-pools-to-8-core-max-2.py')
    assert all(os.path.isabs(f) and os.path.isfile(f) for f in files)
    # files in the directory that are not migrations
    assert 'estimated-current.sql' not in names and 'add-seqr-pools.sql' not in names
    # the hand reader agrees with PyYAML where PyYAML exists
    text = open(os.path.join(REPO, 'build.yaml')).read()
    via_yaml = _migration_scripts_yaml(text, 'batch_database')
    by_hand = _migration_scripts_by_hand(text, 'batch_database')
    assert via_yaml is None or via_yaml == by_hand
    assert by_hand[0] == '/io/sql/000-initial.sql'
    raises(_migration_scripts_by_hand, text, 'no_such_database')


EXPECTED_SOURCES = {
    # name: (kind, migration file)
    'is_batch_cancelled': ('function', '119-is-job-cancelled.sql'),
    'is_job_cancelled': ('function', '119-is-job-cancelled.sql'),
    'is_job_group_cancelled': ('function', '119-is-job-cancelled.sql'),
    'activate_instance': ('procedure', '000-initial.sql'),
    'add_attempt': ('procedure', '053-minimize-deadlock-errors.sql'),
    'cancel_batch': ('procedure', '119-is-job-cancelled.sql'),
    'cancel_job_group': ('procedure', '119-is-job-cancelled.sql'),
    'commit_batch_update': ('procedure', '116-finalize-job-groups.sql'),
    'deactivate_instance': ('procedure', '067-add-real-time-billing.sql'),
    'mark_instance_deleted': ('procedure', '000-initial.sql'),
    'mark_job_complete': ('procedure', '116-finalize-job-groups.sql'),
    'mark_job_creating': ('procedure', '119-is-job-cancelled.sql'),
    'mark_job_group_complete': ('procedure', '116-finalize-job-groups.sql'),
    'mark_job_started': ('procedure', '119-is-job-cancelled.sql'),
    'schedule_job': ('procedure', '119-is-job-cancelled.sql'),
    'unschedule_job': ('procedure', '067-add-real-time-billing.sql'),
    'attempt_resources_after_insert': ('trigger', '116-finalize-job-groups.sql'),
    'attempts_after_update': ('trigger', '117-fix-mark-job-complete-deadlocks.sql'),
    'attempts_before_update': ('trigger', '067-add-real-time-billing.sql'),
    'instances_before_update': ('trigger', '000-initial.sql'),
    'jobs_after_update': ('trigger', '119-is-job-cancelled.sql'),
    'jobs_before_insert': ('trigger', '119-is-job-cancelled.sql'),
}


def test_replay_order_routines():
    rs = effective_routines(REPO)
    got = {n: (r.kind, os.path.basename(r.source_file)) for n, r in rs.items()}
    assert got == EXPECTED_SOURCES, sorted(set(got.items()) ^ set(EXPECTED_SOURCES.items()))
    for r in rs.values():
        assert r.body is not None and r.parse_error is None
        # raw_text is exactly the source lines first_line..last_line (modulo the delimiter)
        lines = open(r.source_file).read().split('\n')[r.first_line - 1:r.last_line]
        assert lines[0].lstrip().upper().startswith('CREATE'), (r.name, lines[0])
        assert r.raw_text.split('\n')[0].strip() == lines[0].strip()
        assert r.raw_text.rstrip().split('\n')[-1].strip() in lines[-1], r.name
        assert parse_routine_body(r.body.to_sql()) == r.body, r.name
        for n in r.body.walk():
            assert r.first_line <= n.line <= r.last_line, (r.name, type(n).__name__, n.line)
    j = rs['jobs_after_update']
    assert (j.trigger_time, j.trigger_event, j.table) == ('AFTER', 'UPDATE', 'jobs')
    assert (j.first_line, j.last_line) == (60, 201)
    # the 119 version calls is_job_group_cancelled, the superseded 116 version had an EXISTS subquery
    assert any(isinstance(n, Func) and n.name == 'IS_JOB_GROUP_CANCELLED' for n in j.body.walk())
    a = rs['attempts_after_update']
    assert (a.trigger_time, a.trigger_event, a.table) == ('AFTER', 'UPDATE', 'attempts')
    b = rs['attempts_before_update']
    assert (b.trigger_time, b.trigger_event, b.table) == ('BEFORE', 'UPDATE', 'attempts')
    # dropped and never re-created
    for gone in ('recompute_incremental', 'close_batch', 'commit_batch', 'batches_after_update', 'cancel_batch_in_job_group'):
        assert gone not in rs, gone
    # history: jobs_after_update was created many times, the last create is 119
    hist = [e for e in routine_history(REPO) if e.name == 'jobs_after_update' and e.action == 'create']
    assert len(hist) > 5 and os.path.basename(hist[-1].file) == '119-is-job-cancelled.sql'
    assert os.path.basename(hist[-2].file) == '116-finalize-job-groups.sql'
    assert py_routine_ddl(REPO) == []
    mjc = rs['mark_job_complete']
    assert [p.name for p in mjc.params] == ['in_batch_id', 'in_job_id', 'in_attempt_id', 'in_instance_name', 'new_state',
                                            'new_status', 'new_start_time', 'new_end_time', 'new_reason', 'new_timestamp']
    calls = [n.name for n in mjc.body.walk() if isinstance(n, Call)]
    assert calls == ['add_attempt', 'mark_job_group_complete']
    add = rs['add_attempt']
    assert [(p.mode, p.name) for p in add.params][-2:] == [('IN', 'in_cores_mcpu'), ('OUT', 'delta_cores_mcpu')]


def test_effective_tables():
    ts = effective_tables(REPO)
    pk = {n: t.primary_key for n, t in ts.items()}
    assert pk['jobs'] == ('batch_id', 'job_id')
    assert pk['attempts'] == ('batch_id', 'job_id', 'attempt_id')
    assert pk['batches'] == ('id',)
    assert pk['job_groups'] == ('batch_id', 'job_group_id')
    assert pk['job_group_self_and_ancestors'] == ('batch_id', 'job_group_id', 'ancestor_id')
    assert pk['job_groups_cancelled'] == ('id', 'job_group_id')
    assert pk['batch_updates'] == ('batch_id', 'update_id', 'start_job_group_id', 'start_job_id')
    assert pk['instances'] == ('name',) and pk['instances_free_cores_mcpu'] == ('name',)
    assert pk['user_inst_coll_resources'] == ('user', 'inst_coll', 'token')
    assert pk['job_groups_inst_coll_staging'] == ('batch_id', 'update_id', 'job_group_id', 'inst_coll', 'token')
    assert pk['job_group_inst_coll_cancellable_resources'] == ('batch_id', 'update_id', 'job_group_id', 'inst_coll', 'token')
    assert pk['job_groups_n_jobs_in_complete_states'] == ('id', 'job_group_id')
    assert pk['attempt_resources'] == ('batch_id', 'job_id', 'attempt_id', 'resource_id')
    assert pk['aggregated_job_group_resources_v3'] == ('batch_id', 'job_group_id', 'resource_id', 'token')
    assert pk['aggregated_job_resources_v3'] == ('batch_id', 'job_id', 'resource_id')
    assert pk['aggregated_billing_project_user_resources_v3'] == ('billing_project', 'user', 'resource_id', 'token')
    assert pk['aggregated_billing_project_user_resources_by_date_v3'] == (
        'billing_date', 'billing_project', 'user', 'resource_id', 'token')
    assert pk['job_parents'] == ('batch_id', 'job_id', 'parent_id')
    assert pk['globals'] == () and pk['feature_flags'] == ()
    # renamed / dropped tables are gone
    for gone in ('batches_cancelled', 'batches_inst_coll_staging', 'batch_inst_coll_cancellable_resources',
                 'batches_n_jobs_in_complete_states', 'user_resources', 'ready_cores', 'batch_attributes',
                 'aggregated_batch_resources_v2', 'aggregated_job_resources_v2', 'tmp_resources'):
        assert gone not in ts, gone
    j = ts['jobs']
    assert list(j.columns)[:3] == ['batch_id', 'job_id', 'state']
    c = j.columns['job_group_id']
    assert (c.type, c.nullable, c.default) == ('INT', False, None)        # MODIFY in 116 removed the default
    c = j.columns['n_max_attempts']
    assert (c.type, c.nullable, c.default) == ('INT', False, '20')
    c = j.columns['cancelled']
    assert (c.type, c.nullable, c.default, c.generated) == ('BOOLEAN', False, 'FALSE', False)
    assert (j.columns['state'].type, j.columns['state'].type_args) == ('VARCHAR', ('40',))
    assert j.columns['inst_coll'].nullable and j.columns['spec'].type == 'MEDIUMTEXT'
    assert j.column('BATCH_ID') is j.columns['batch_id']
    assert 'free_cores_mcpu' not in ts['instances'].columns            # dropped in favour of instances_free_cores_mcpu
    assert ts['attempts'].columns['rollup_time'].nullable
    assert ts['job_groups'].columns['state'].type == 'ENUM'
    assert ts['job_groups'].columns['state'].type_args == ("'running'", "'complete'")
    assert ts['batch_updates'].columns['committed'].default == 'FALSE'
    # .py migrations: 017/026 (hole free) and 078 (holes expanded from its literal list)
    assert 'frozen' in ts['globals'].columns and 'standing_worker_cores' not in ts['globals'].columns
    assert not ts['inst_colls'].columns['autoscaler_loop_period_secs'].nullable
    assert 'job_queue_scheduling_window_secs' in ts['pools'].columns
    # 058 drops the FK attempt_resources -> resources(resource) through INFORMATION_SCHEMA
    fks = [(f.columns, f.ref_table) for f in ts['attempt_resources'].foreign_keys]
    assert (('resource',), 'resources') not in fks and (('resource_id',), 'resources') in fks
    fk = [f for f in ts['jobs'].foreign_keys if f.ref_table == 'job_groups']
    assert len(fk) == 1 and fk[0].columns == ('batch_id', 'job_group_id') and fk[0].on_delete == 'CASCADE'
    assert ts['resources'].unique_keys == {'resource_id': ('resource_id',)}
    assert all(not t.unparsed for t in ts.values()), {n: t.unparsed for n, t in ts.items() if t.unparsed}
    assert replay_notes(REPO) == []
    # triggers moved with renamed tables / still point at existing tables
    for r in effective_routines(REPO).values():
        if r.kind == 'trigger':
            assert r.table in ts, (r.name, r.table)


def test_embedded_sql_in_key_files():
    from .sqlparse import scan_python_sql
    res = scan_python_sql(os.path.join(REPO, 'batch', 'batch'))
    must = ['front_end/front_end.py', 'batch.py', 'driver/job.py', 'driver/main.py', 'driver/canceller.py',
            'driver/instance_collection/pool.py', 'driver/instance_collection/job_private.py']
    for m in must:
        mine = [r for r in res if r['file'].endswith('/batch/batch/' + m)]
        assert mine, m
        bad = [r for r in mine if not r['ok'] and r['plausible']]
        assert not bad, [(r['file'], r['line'], str(r['error'])) for r in bad]
    assert sum(r['ok'] for r in res) >= 170
    # f-strings are rendered with {source} holes
    strs = python_sql_strings('<mem>', "q = f'SELECT a FROM t WHERE {cond} AND b = {d[\"k\"]}'\nz = 'plain'\n")
    assert strs == [(1, "SELECT a FROM t WHERE {cond} AND b = {d['k']}", True), (2, 'plain', False)], strs


# --------------------------------------------------------------------------

def main():
    tests = [(n, f) for n, f in sorted(globals().items()) if n.startswith('test_') and callable(f)]
    failed = 0
    for name, fn in tests:
        try:
            fn()
            print('ok    %s' % name)
        except Exception:
            failed += 1
            print('FAIL  %s' % name)
            traceback.print_exc()
    print('%d tests, %d failed' % (len(tests), failed))
    return 1 if failed else 0


if __name__ == '__main__':
    sys.exit(main())
